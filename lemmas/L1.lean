/-
L1: facts about bitwise operators on natural numbers that the SMT back ends cannot derive themselves.
Each theorem mirrors, statement for statement, a lemma of the pyvc lemma library that is marked
`lean="<name>"`; the trust step is: Python's ^, &, | on non-negative ints are Nat.xor / Nat.land / Nat.lor
(assumption S2 in DESIGN.md).
-/
import Mathlib.Data.Nat.Bitwise

theorem bxor_cancel (x y : Nat) : (x ^^^ y) ^^^ y = x := by
  rw [Nat.xor_assoc, Nat.xor_self, Nat.xor_zero]

theorem bxor_comm (x y : Nat) : x ^^^ y = y ^^^ x := Nat.xor_comm x y

theorem bxor_bound (x y n : Nat) (hx : x < 2 ^ n) (hy : y < 2 ^ n) : x ^^^ y < 2 ^ n :=
  Nat.xor_lt_two_pow hx hy
