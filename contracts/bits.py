"""Contracts for toolkit/bits.py and toolkit/bits_utils.py  (property C18; used by C15).

View of a Bitset b: the MSB-first bit list bits(b)[i] = (b.value div 2^(b.length-1-i)) mod 2, i < b.length.
Representation invariant (class invariant `inv`): 0 <= value < 2^length, length >= 0.
All results are stated on (value, length), from which the bit-list model's answer follows by the
arithmetic lemma library (pow2 / div / mod), which is itself proved (pyvc.speclib + below).
"""
from pyvc.api import *
import z3
import contracts.toolkit_bytes

B = "toolkit/bits.py:Bitset"
BITS = TObj(B)
Imp, And, Or, Not, MP = z3.Implies, z3.And, z3.Or, z3.Not, z3.MultiPattern
x, y, n, m, k, a, b, q, v = z3.Ints("x y n m k a b q v")

klass(B, fields=dict(value=TInt, length=TInt),
      invariant=["self.value >= 0", "self.length >= 0", "self.value < pow2(self.length)"],
      construct="Bitset(0, 0)", gen=lambda rnd: _gen_bitset(rnd))


def _gen_bitset(rnd):
    n = rnd.choice([0, 1, 2, 3, 4, 5, 7, 8, 9, 15, 16, 17, 63, 64, 65, 159, 160, 161, 300])
    r = rnd.random()
    if n == 0 or r < 0.1:
        v = 0
    elif r < 0.2:
        v = (1 << n) - 1
    elif r < 0.3:
        v = 1 << (n - 1)
    else:
        v = rnd.getrandbits(n)
    return dict(value=v, length=n)



# ---- arithmetic lemmas (L1) ---------------------------------------------------------------------------
lemma("bitlen_le", [x, n], Imp(And(0 <= x, n >= 0, x < pow2(n)), bitlen(x) <= n),
      patterns=[MP(bitlen(x), pow2(n))], induct=("int", n), inst=[[x / 2, n - 1]])
lemma("bitlen_ge", [x, n], Imp(And(0 <= x, n >= 0, bitlen(x) <= n), x < pow2(n)),
      patterns=[MP(bitlen(x), pow2(n))], uses=["bitlen_bound", "pow2_mono"],
      use_inst=[("bitlen_bound", [x]), ("pow2_mono", [bitlen(x), n])])
lemma("band_bound", [x, y], Imp(And(0 <= x, 0 <= y), And(0 <= band(x, y), band(x, y) <= x, band(x, y) <= y)),
      patterns=[band(x, y)], induct=("int", x), inst=[[x / 2, y / 2]])
lemma("bor_bound", [x, y, n], Imp(And(0 <= x, 0 <= y, n >= 0, x < pow2(n), y < pow2(n)),
                                  And(0 <= bor(x, y), bor(x, y) < pow2(n))),
      patterns=[MP(bor(x, y), pow2(n))], induct=("int", n), inst=[[x / 2, y / 2, n - 1]])
lemma("bxor_bound", [x, y, n], Imp(And(0 <= x, 0 <= y, n >= 0, x < pow2(n), y < pow2(n)),
                                   And(0 <= bxor(x, y), bxor(x, y) < pow2(n))),
      patterns=[MP(bxor(x, y), pow2(n))], induct=("int", n), inst=[[x / 2, y / 2, n - 1]])
lemma("bxor_cancel", [x, y], Imp(And(0 <= x, 0 <= y), bxor(bxor(x, y), y) == x),
      patterns=[bxor(bxor(x, y), y)], lean="bxor_cancel")
PA, PB = pow2(a), pow2(b)
# v < 2^(a+b)  =>  v div 2^a < 2^b   (taking the higher b bits)
lemma("div_pow2_lt", [v, a, b], Imp(And(0 <= v, a >= 0, b >= 0, v < pow2(a + b)), v / pow2(a) < pow2(b)),
      patterns=None, uses=["pow2_add", "mul_mono"],
      use_inst=[("pow2_add", [a, b]), ("mul_mono", [PB, v / PA, PA])])
# ((v * 2^a) mod 2^(a+b)) div 2^a == v mod 2^b     (taking the lower b bits; Nat.mul_mod_mul_left)
lemma("mul_mod_mul_left", [v, a, b],
      Imp(And(0 <= v, a >= 0, b >= 0), ((v * pow2(a)) % pow2(a + b)) / pow2(a) == v % pow2(b)),
      patterns=None, uses=["pow2_add", "div_mod_unique", "mul_mono_strict"],
      use_inst=[("pow2_add", [a, b]),
                ("div_mod_unique", [v * PA, PA * PB, v / PB, (v % PB) * PA]),
                ("mul_mono_strict", [v % PB, PB, PA]),
                ("div_mod_unique", [(v % PB) * PA, PA, v % PB, z3.IntVal(0)])], depth=0)
# concatenation fits: x < 2^n, y < 2^m  =>  x*2^m + y < 2^(n+m)
lemma("concat_fits", [x, y, n, m], Imp(And(0 <= x, 0 <= y, n >= 0, m >= 0, x < pow2(n), y < pow2(m)),
                                       x * pow2(m) + y < pow2(n + m)),
      patterns=None, uses=["pow2_add", "mul_mono"],
      use_inst=[("pow2_add", [n, m]), ("mul_mono", [x, pow2(n) - 1, pow2(m)])])
lemma("concat_high", [x, y, m], Imp(And(0 <= x, 0 <= y, m >= 0, y < pow2(m)), (x * pow2(m) + y) / pow2(m) == x),
      patterns=None, uses=["div_mod_unique"], use_inst=[("div_mod_unique", [x * pow2(m) + y, pow2(m), x, y])])
lemma("concat_low", [x, y, m], Imp(And(0 <= x, 0 <= y, m >= 0, y < pow2(m)), (x * pow2(m) + y) % pow2(m) == y),
      patterns=None, uses=["div_mod_unique"], use_inst=[("div_mod_unique", [x * pow2(m) + y, pow2(m), x, y])])
lemma("mod_small", [x, n], Imp(And(0 <= x, x < n), And(x % n == x, x / n == 0)), patterns=None,
      uses=["div_mod_unique"], use_inst=[("div_mod_unique", [x, n, z3.IntVal(0), x])])
lemma("mod_neg_small", [x, n], Imp(And(-n <= x, x < 0), x % n == x + n), patterns=None,
      uses=["div_mod_unique"], use_inst=[("div_mod_unique", [x, n, z3.IntVal(-1), x + n])])

# ---- Bitset.__init__ (three argument types) -------------------------------------------------------------
INIT_POST = ["self.length == (length if length != 0 else (bitlen(self.value) if self.value > 0 else 0))"]
contract(B + ".__init__#int",
         params=dict(self=BITS, value=TInt, length=TInt), modifies=["self"], domains=dict(length=SMALL),
         raises={"ValueError": dict(when="length != 0 and bitlen(value if value >= 0 else -value) > length", iff=True)},
         ensures=["self.value == value"] + INIT_POST,
         props=["C18"])
contract(B + ".__init__#bytes",
         params=dict(self=BITS, value=TBytes, length=TInt), modifies=["self"], domains=dict(length=SMALL),
         raises={"ValueError": dict(when="length != 0 and bitlen(b2i(value)) > length", iff=True)},
         ensures=["self.value == b2i(value)"] + INIT_POST,
         props=["C18"])
contract(B + ".__init__#bitset",
         params=dict(self=BITS, value=BITS, length=TInt), modifies=["self"], domains=dict(length=SMALL),
         raises={"ValueError": dict(when="length != 0 and bitlen(value.value) > length", iff=True)},
         ensures=["self.value == value.value"] + INIT_POST,
         props=["C18"])

contract(B + ".__int__", params=dict(self=BITS), returns=TInt, ensures=["result == self.value"], props=["C18"])
contract(B + ".__len__", params=dict(self=BITS), returns=TInt, ensures=["result == self.length"], props=["C18"])
contract(B + ".bit_length", params=dict(self=BITS), returns=TInt, ensures=["result == self.length"], props=["C18"])


def binop_contract(name, fn, lemmas):
    contract(B + "." + name, params=dict(self=BITS, other=BITS), returns=BITS,
             ensures=["result.value == %s(self.value, other.value)" % fn,
                      "result.length == (self.length if self.length >= other.length else other.length)",
                      "inv(result)"],
             lemmas=lemmas + ["pow2_mono"], props=["C18", "C15"])


binop_contract("__and__", "band", ["band_bound"])
binop_contract("__or__", "bor", ["bor_bound"])
contract(B + ".__xor__", params=dict(self=BITS, value=BITS), returns=BITS,
         ensures=["result.value == bxor(self.value, value.value)",
                  "result.length == (self.length if self.length >= value.length else value.length)",
                  "inv(result)"],
         lemmas=["bxor_bound", "pow2_mono"], props=["C18", "C15"])

contract(B + ".__invert__", params=dict(self=BITS), returns=BITS,
         ensures=["result.value == pow2(self.length) - 1 - self.value", "result.length == self.length", "inv(result)"],
         props=["C18"])
contract(B + ".__lshift__", params=dict(self=BITS, value=TInt), returns=BITS, domains=dict(value=SMALL),
         requires=["value >= 0"],
         ensures=["result.value == (self.value * pow2(value)) % pow2(self.length)", "result.length == self.length",
                  "inv(result)"], props=["C18"])
contract(B + ".__rshift__", params=dict(self=BITS, value=TInt), returns=BITS, domains=dict(value=SMALL),
         requires=["value >= 0"],
         ensures=["result.value == self.value // pow2(value)", "result.length == self.length", "inv(result)"],
         props=["C18"])
contract(B + ".__eq__#bitset", params=dict(self=BITS, other=BITS), returns=TBool,
         ensures=["result == (self.value == other.value and self.length == other.length)"], props=["C18"])
contract(B + ".__eq__#int", params=dict(self=BITS, other=TInt), returns=TBool,
         ensures=["result == (self.value == other)"], props=["C18"])
contract(B + ".__bytes__", params=dict(self=BITS), returns=TBytes,
         ensures=["result == i2b(self.value, (self.length + 7) // 8)", "len(result) == (self.length + 7) // 8"],
         lemmas=["pow2_mono"], props=["C18"])
contract(B + ".concat", params=dict(self=BITS, b=BITS), returns=BITS,
         ensures=["result.value == self.value * pow2(b.length) + b.value",
                  "result.length == self.length + b.length", "inv(result)"],
         lemmas=["bitlen_le", "bitlen_bound"],
         hints=[("concat_fits", ["self.value", "b.value", "self.length", "b.length"]),
                ("bitlen_le", ["self.value * pow2(b.length) + b.value", "self.length + b.length"])],
         props=["C18", "C15"])
# concatenation of bit strings as one specification function (what callers reason with; keeps products out of their term graphs)
bcat = specfn("bcat", [TInt, TInt, TInt], TInt, macro=True, opaque=True, py=lambda hv, ll, lv: hv * (1 << max(ll, 0)) + lv,
              doc="value of the concatenation of a bit string of value hv with one of length ll and value lv")
bcat.define = lambda hv, ll, lv: hv * pow2(ll) + lv
lemma("bcat_fits", [x, y, n, m], Imp(And(0 <= x, 0 <= y, n >= 0, m >= 0, x < pow2(n), y < pow2(m)), And(0 <= bcat(x, m, y), bcat(x, m, y) < pow2(n + m))),
      patterns=None, uses=["concat_fits"], use_inst=[("concat_fits", [x, y, n, m])], inline_defs=["bcat"], no_auto=True, unfold_only=[])
lemma("bcat_high", [x, y, m], Imp(And(0 <= x, 0 <= y, m >= 0, y < pow2(m)), bcat(x, m, y) / pow2(m) == x),
      patterns=None, uses=["concat_high"], use_inst=[("concat_high", [x, y, m])], inline_defs=["bcat"], no_auto=True, unfold_only=[])
lemma("bcat_low", [x, y, m], Imp(And(0 <= x, 0 <= y, m >= 0, y < pow2(m)), bcat(x, m, y) % pow2(m) == y),
      patterns=None, uses=["concat_low"], use_inst=[("concat_low", [x, y, m])], inline_defs=["bcat"], no_auto=True, unfold_only=[])
lemma("bcat_divmod", [x, m], Imp(m >= 0, bcat(x / pow2(m), m, x % pow2(m)) == x),
      patterns=None, uses=["pow2_pos"], use_inst=[("pow2_pos", [m])], inline_defs=["bcat"], no_auto=True, unfold_only=[])
contract(B + ".__add__", reveal=["bcat"], params=dict(self=BITS, other=BITS), returns=BITS,
         ensures=["result.value == self.value * pow2(other.length) + other.value",
                  "result.value == bcat(self.value, other.length, other.value)",
                  "result.length == self.length + other.length", "inv(result)"], props=["C18", "C15"])
contract(B + ".get_higher_bits", params=dict(self=BITS, bit_len=TInt), returns=BITS, domains=dict(bit_len=SMALL),
         raises={"ValueError": dict(when="bit_len < 0 or bit_len > self.length", iff=True)},
         ensures=["result.value == self.value // pow2(self.length - bit_len)", "result.length == bit_len", "inv(result)"],
         lemmas=["bitlen_le", "bitlen_bound"],
         hints=[("div_pow2_lt", ["self.value", "self.length - bit_len", "bit_len"]),
                ("bitlen_le", ["self.value // pow2(self.length - bit_len)", "bit_len"])],
         props=["C18", "C15"])
contract(B + ".get_lower_bits", params=dict(self=BITS, bit_len=TInt), returns=BITS, domains=dict(bit_len=SMALL),
         raises={"ValueError": dict(when="bit_len < 0 or bit_len > self.length", iff=True)},
         ensures=["result.value == self.value % pow2(bit_len)", "result.length == bit_len", "inv(result)"],
         lemmas=["bitlen_le", "bitlen_bound"],
         hints=[("mul_mod_mul_left", ["self.value", "self.length - bit_len", "bit_len"]),
                ("bitlen_le", ["self.value % pow2(bit_len)", "bit_len"])],
         props=["C18", "C15"])
contract(B + ".__getitem__#int", params=dict(self=BITS, s=TInt), returns=TBool, domains=dict(s=SMALL),
         requires=["0 <= s", "s < self.length"],
         ensures=["result == ((self.value // pow2(self.length - s - 1)) % 2 == 1)"], props=["C18"])

# ---- slices, iteration, str ------------------------------------------------------------------------------
BoolL = TList(TBool)
BoolLS = sort(BoolL)
st, cnt, p0 = z3.Ints("st cnt p0")


def _bit_py(v, L, p):
    return bool((v >> (L - p - 1)) & 1) if 0 <= L - p - 1 else False


pick = specfn("pick", [TInt, TInt, TInt, TInt, TInt], BoolL,
              py=lambda v, L, start, step, count: [_bit_py(v, L, start + j * step) for j in range(max(count, 0))],
              doc="bits of (v, L) (MSB first) at positions start, start+step, ... (count of them)")
pick.define = lambda v, L, start, step, count: z3.If(
    count <= 0, z3.Empty(BoolLS),
    z3.Concat(pick(v, L, start, step, count - 1),
              z3.Unit((v / pow2(L - (start + (count - 1) * step) - 1)) % 2 == 1)))

SL_POST = [
    "result == pick(self.value, self.length, s.indices(self.length)[0], s.indices(self.length)[2], len(result))",
    # len(result) is the number of positions of range(start, stop, step)
    "len(result) == 0 or (s.indices(self.length)[0] + (len(result) - 1) * s.indices(self.length)[2] < s.indices(self.length)[1]"
    " if s.indices(self.length)[2] > 0 else "
    "s.indices(self.length)[0] + (len(result) - 1) * s.indices(self.length)[2] > s.indices(self.length)[1])",
    "not (s.indices(self.length)[0] + len(result) * s.indices(self.length)[2] < s.indices(self.length)[1]"
    " if s.indices(self.length)[2] > 0 else "
    "s.indices(self.length)[0] + len(result) * s.indices(self.length)[2] > s.indices(self.length)[1])",
]
contract(B + ".__getitem__#slice", params=dict(self=BITS, s=TSlice), returns=BoolL,
         requires=["s.step is None or s.step != 0"],
         ensures=SL_POST,
         locals={"results": BoolL},
         loops={0: dict(invariant=["len(results) == it",
                                   "results == pick(self.value, self.length, start, step, it)",
                                   "0 <= start or step < 0", "start <= self.length", "-1 <= stop", "stop <= self.length",
                                   "start < self.length or step > 0"])},
         props=["C18"])

cnt2, j2 = z3.Ints("cnt2 j2")
lemma("pick_len", [v, n, p0, st, cnt], Len(pick(v, n, p0, st, cnt)) == z3.If(cnt <= 0, 0, cnt),
      patterns=[pick(v, n, p0, st, cnt)], induct=("int", cnt), inst=[[v, n, p0, st, cnt - 1]])
lemma("pick_nth", [v, n, p0, st, cnt, j2],
      Imp(And(0 <= j2, j2 < cnt), pick(v, n, p0, st, cnt)[j2] == ((v / pow2(n - (p0 + j2 * st) - 1)) % 2 == 1)),
      patterns=None, induct=("int", cnt), inst=[[v, n, p0, st, cnt - 1, j2]], uses=["pick_len"], no_auto=True, unfold_only=["pick"],
      cases=[j2 == cnt - 1, j2 < cnt - 1])

contract(B + ".__iter__", params=dict(self=BITS), returns=BoolL,
         ensures=["result == pick(self.value, self.length, 0, 1, self.length)", "len(result) == self.length"],
         lemmas=["pick_len"],
         loops={0: dict(hints=[("pick_nth", ["self.value", "self.length", "0", "1", "self.length", "it"])],
                        invariant=["result == pick(self.value, self.length, 0, 1, it)", "n_iter == self.length"])},
         props=["C18"])

bitstr = specfn("bitstr", [TInt, TInt, TInt], TStr,
                py=lambda v, L, k: "".join("1" if _bit_py(v, L, j) else "0" for j in range(max(k, 0))),
                doc="the first k characters of the MSB-first binary rendering of (v, L)")
bitstr.define = lambda v, L, k: z3.If(k <= 0, z3.StringVal(""),
                                      z3.Concat(bitstr(v, L, k - 1),
                                                z3.If((v / pow2(L - (k - 1) - 1)) % 2 == 1, z3.StringVal("1"), z3.StringVal("0"))))
contract(B + ".__str__", params=dict(self=BITS), returns=TStr,
         ensures=["result == bitstr(self.value, self.length, self.length)"],
         lemmas=["pick_len"],
         loops={0: dict(hints=[("pick_nth", ["self.value", "self.length", "0", "1", "self.length", "it"])],
                        invariant=["s == bitstr(self.value, self.length, it)", "n_iter == self.length"])},
         props=["C18"])

# ---- toolkit/bits_utils.py ---------------------------------------------------------------------------------
BUt = "toolkit/bits_utils.py:"
PAIR = TTuple(BITS, BITS)
HALF_NP = ["result[1].length == (xbits.length + 1) // 2",
           "result[1].value == xbits.value % pow2((xbits.length + 1) // 2)",
           "result[0].length == xbits.length - (xbits.length + 1) // 2",
           "result[0].value == xbits.value // pow2((xbits.length + 1) // 2)",
           "inv(result[0])", "inv(result[1])"]
contract(BUt + "half_bits_not_padding#bitset", params=dict(xbits=BITS), returns=PAIR, ensures=HALF_NP, props=["C18", "C15"])
contract(BUt + "half_bits#bitset", params=dict(xbits=BITS), returns=PAIR,
         ensures=["result[1].length == (xbits.length + 1) // 2",
                  "result[1].value == xbits.value % pow2((xbits.length + 1) // 2)",
                  "result[0].length == (xbits.length + 1) // 2",
                  "result[0].value == xbits.value // pow2((xbits.length + 1) // 2)",
                  "inv(result[0])", "inv(result[1])"],
         lemmas=["pow2_mono"], props=["C18"])
INT_HALF = lambda pad: [
    "result[1].length == (bitlen(xbits) + 1) // 2",
    "result[1].value == xbits % pow2((bitlen(xbits) + 1) // 2)",
    "result[0].length == " + ("(bitlen(xbits) + 1) // 2" if pad else "bitlen(xbits) - (bitlen(xbits) + 1) // 2"),
    "result[0].value == xbits // pow2((bitlen(xbits) + 1) // 2)"]
contract(BUt + "half_bits_not_padding#int", params=dict(xbits=TInt), returns=PAIR, requires=["xbits >= 0"],
         ensures=INT_HALF(False), lemmas=["bitlen_bound"], props=["C18"])
contract(BUt + "half_bits#int", params=dict(xbits=TInt), returns=PAIR, requires=["xbits >= 0"],
         ensures=INT_HALF(True), lemmas=["bitlen_bound", "pow2_mono"], props=["C18"])

# ---- relational facts of the property, as ghost client code verified against the contracts above --------------
contract("ghost:concat_then_higher", params=dict(a=BITS, b=BITS), returns=BITS,
         body="def concat_then_higher(a, b):\n    return (a + b).get_higher_bits(len(a))\n",
         ensures=["result.value == a.value", "result.length == a.length"],
         hints=[("concat_high", ["a.value", "b.value", "b.length"])], props=["C18"])
contract("ghost:concat_then_lower", params=dict(a=BITS, b=BITS), returns=BITS,
         body="def concat_then_lower(a, b):\n    return (a + b).get_lower_bits(len(b))\n",
         ensures=["result.value == b.value", "result.length == b.length"],
         hints=[("concat_low", ["a.value", "b.value", "b.length"])], props=["C18"])
contract("ghost:halves_rejoin", params=dict(x=BITS), returns=BITS,
         body="def halves_rejoin(x):\n    l, r = half_bits_not_padding(x)\n    return l + r\n",
         ensures=["result.value == x.value", "result.length == x.length"], ghost_scope="toolkit/bits_utils.py",
         lemmas=["div_mod_unique"],
         hints=[("div_mod_unique", ["x.value", "pow2((x.length + 1) // 2)", "x.value // pow2((x.length + 1) // 2)",
                                    "x.value % pow2((x.length + 1) // 2)"])],
         props=["C18", "C15"])
