"""CGKO06.SSE2 under contract (C01 / C02 / C03 / C04 / C05): I[pi(K1, w || j)] = id_j."""
from pyvc.api import *
from pyvc.engine import ClassRef, SV, Ref
from pyvc.ty import nth_pat
from contracts.sse_common import *
import contracts.fpe as FPE
import contracts.structures_all
from contracts.bits import BITS, B, bcat
import z3

S = "schemes/CGKO06/SSE2/"
CFG = S + "config.py:SSE2Config"
SCH = S + "construction.py:SSE2"
KEY = S + "structures.py:SSE2Key"
TOK = S + "structures.py:SSE2Token"
RES = S + "structures.py:SSE2Result"
EDB = S + "structures.py:SSE2EncryptedDatabase"
IT = TDict(TInt, TBytes)
IL = TList(TInt)
Imp, And, Or, Not = z3.Implies, z3.And, z3.Or, z3.Not
Len = z3.Length

klass(KEY, fields=dict(K1=TBytes, K2=TBytes), construct="SSE2Key({K1}, {K2})")
inline(KEY + ".__init__")
klass(CFG, fields=dict(param_k=TInt, param_l=TInt, param_n=TInt, param_max=TInt, param_s=TInt, param_k_bits=TInt, param_l_bits=TInt,
                       param_log2_n_plus_max=TInt, param_log2_n_plus_max_bytes=TInt, prp_pi=FPE.BPRPT),
      invariant=["self.param_k >= 1", "self.param_l >= 1", "self.param_n >= 1", "self.param_max >= 0",
                 "self.param_k_bits == 8 * self.param_k", "self.param_l_bits == 8 * self.param_l",
                 "self.param_log2_n_plus_max >= 1", "self.param_n + self.param_max <= pow2(self.param_log2_n_plus_max)",
                 "8 * self.param_log2_n_plus_max_bytes >= self.param_log2_n_plus_max", "self.param_log2_n_plus_max_bytes >= 1",
                 "self.prp_pi.key_bit_length == self.param_k_bits",
                 "self.prp_pi.message_bit_length == self.param_l_bits + self.param_log2_n_plus_max"])
klass(SCH, fields=dict(config=TObj(CFG)))
CFGT, SCHT, KEYT, TOKT, REST, EDBT = (TObj(x) for x in (CFG, SCH, KEY, TOK, RES, EDB))

# ---- Search: the values of the leading tokens that are present, in order, stopping at the first absent one ------------------------
_I = z3.Const("s2_I", sort(IT))
_t = z3.Const("s2_t", sort(IL))
_k, _k2 = z3.Ints("s2_k s2_k2")
OB = sort(TOpt(TBytes))
BLs = sort(TList(TBytes))
present_upto = specfn("present_upto", [IT, IL, TInt], TBool, doc="the first k tokens are keys of I")
present_upto.define = lambda I, t, k: z3.If(k <= 0, True, And(Not(OB.is_none(z3.Select(I, t[k - 1]))), present_upto(I, t, k - 1)))
vals_upto = specfn("vals_upto", [IT, IL, TInt], TList(TBytes), doc="[I[t[0]], ..., I[t[k-1]]]")
vals_upto.define = lambda I, t, k: z3.If(k <= 0, z3.Empty(BLs), z3.Concat(vals_upto(I, t, k - 1), z3.Unit(OB.val(z3.Select(I, t[k - 1])))))
lemma("vals_upto_len", [_I, _t, _k], Len(vals_upto(_I, _t, _k)) == z3.If(_k <= 0, 0, _k), patterns=[vals_upto(_I, _t, _k)],
      induct=("int", _k), inst=[[_I, _t, _k - 1]], no_auto=True, unfold_only=["vals_upto"])
# (the contract of _Search is stated after Repr, below)

# ---- the PRP as a function with an inverse (what C15 proves about the real cipher, restated at specification level) -----------------
_kb = z3.Const("s2_kb", BYTES)
_R, _n, _v, _wv, _L2, _j = z3.Ints("s2_R s2_n s2_v s2_wv s2_L2 s2_j")
prpv = FPE.prp_value      # value of BitwiseFPEPRP(key bytes, rounds)(message of n bits with value v): the Feistel state formula of C15
prpinv = specfn("prpinv", [TBytes, TInt, TInt, TInt], TInt, doc="inverse of prpv in its last argument")
axiom("PRP_inverse", [_kb, _R, _n, _v],
      Imp(And(_n >= 2, _R >= 0, _R % 2 == 0, 0 <= _v, _v < pow2(_n)),
          And(prpinv(_kb, _R, _n, prpv(_kb, _R, _n, _v)) == _v, 0 <= prpv(_kb, _R, _n, _v), prpv(_kb, _R, _n, _v) < pow2(_n))),
      patterns=[prpv(_kb, _R, _n, _v)],
      note="C15 (proved on the real code: ghost:ffx_roundtrip, decrypt(k, encrypt(k, v)) == v and results stay n-bit values), "
           "restated as an inverse function of the specification-level cipher value; not re-derived here")
toks = specfn("toks", [TBytes, TInt, TInt, TInt, TInt, TInt], IL, doc="[prpv(M(w, 1)), ..., prpv(M(w, k))] with M(w, j) = b2i(w) * 2^L2 + j")
toks.define = lambda kb, R, n, wv, L2, k: z3.If(k <= 0, z3.Empty(sort(IL)),
                                                z3.Concat(toks(kb, R, n, wv, L2, k - 1), z3.Unit(prpv(kb, R, n, bcat(wv, L2, k)))))
lemma("toks_len", [_kb, _R, _n, _wv, _L2, _k], Len(toks(_kb, _R, _n, _wv, _L2, _k)) == z3.If(_k <= 0, 0, _k),
      patterns=[toks(_kb, _R, _n, _wv, _L2, _k)], induct=("int", _k), inst=[[_kb, _R, _n, _wv, _L2, _k - 1]], no_auto=True, unfold_only=["toks"])
KB = "i2b(b2i(K.K1), (self.config.param_k_bits + 7) // 8)"
RR = "self.config.prp_pi.underlying_fpe.rounds"
ML = "self.config.prp_pi.message_bit_length"
L2 = "self.config.param_log2_n_plus_max"
VALID = ["self.config.param_n < pow2(%s)" % L2]
contract(SCH + "._Trap", params=dict(self=SCHT, K=KEYT, keyword=TBytes), returns=TOKT, locals={"t": IL},
         requires=VALID + ["len(K.K1) == self.config.param_k", "len(keyword) <= self.config.param_l"],
         ensures=["result.t == toks(%s, %s, %s, b2i(keyword), %s, self.config.param_n)" % (KB, RR, ML, L2),
                  "len(result.t) == self.config.param_n"],
         lemmas=["toks_len", "b2i_bound", "bitlen_le", "pow2_mono", "concat_fits"], unfold_only=["toks"],
         loops={0: dict(invariant=["len(t) == it", "t == toks(%s, %s, %s, b2i(keyword), %s, it)" % (KB.replace("K.K1", "K1"), RR, ML, L2)],
                        hints=[("bitlen_le", ["b2i(K1)", "self.config.param_k_bits"]), ("pow2_mono", ["8 * len(K1)", "self.config.param_k_bits"]),
                               ("bitlen_le", ["b2i(keyword)", "self.config.param_l_bits"]),
                               ("pow2_mono", ["8 * len(keyword)", "self.config.param_l_bits"]),
                               ("bitlen_le", ["it + 1", L2]),
                               ("pow2_mono", [L2, "8 * self.config.param_log2_n_plus_max_bytes"])])},
         no_runtime=True, props=["C01", "C02", "C04", "C07"])

# ---- keywords <-> integers: b2i is injective on non-empty keywords without a leading NUL (inverse: minimal big-endian encoding) ----
_w = z3.Const("s2_w", BYTES)
_x = z3.Int("s2_x")


def i2b_min(c):
    return i2b(c, (bitlen(c) + 7) / 8)


ZERO8 = z3.BitVecVal(0, 8)
lemma("bitlen_shift8", [_x, _j], Imp(And(_x >= 1, 0 <= _j, _j < 256), bitlen(256 * _x + _j) == bitlen(_x) + 8), patterns=None, depth=9,
      no_auto=True, unfold_only=["bitlen"])
_wp = z3.Extract(_w, 0, Len(_w) - 1)
_wc = z3.BV2Int(_w[Len(_w) - 1])
_bb = z3.Const("s2_b", BYTES)
_cc = z3.Int("s2_c")
lemma("i2b_snoc_val", [_x, _k, _cc], Imp(And(_k >= 0, 0 <= _cc, _cc < 256),
                                         i2b(256 * _x + _cc, _k + 1) == z3.Concat(i2b(_x, _k), z3.Unit(z3.Int2BV(_cc, 8)))),
      patterns=None, no_auto=True, unfold_only=["i2b"], depth=1,
      uses=["div_mod_unique"], use_inst=[("div_mod_unique", [256 * _x + _cc, z3.IntVal(256), _x, _cc])])
lemma("i2b_b2i", [_w], i2b(b2i(_w), Len(_w)) == _w, patterns=[b2i(_w)], induct=("len", _w),
      inst=[[_wp]], no_auto=True, unfold_only=["b2i", "i2b"], depth=1, cases=[Len(_w) == 0, Len(_w) > 0],
      uses=["i2b_snoc_val"], use_inst=[("i2b_snoc_val", [b2i(_wp), Len(_w) - 1, _wc])])
lemma("b2i_minlen", [_w], Imp(And(Len(_w) >= 1, _w[0] != ZERO8), And(b2i(_w) >= 1, (bitlen(b2i(_w)) + 7) / 8 == Len(_w))),
      patterns=None, induct=("len", _w), inst=[[z3.Extract(_w, 0, Len(_w) - 1)]], no_auto=True, unfold_only=["b2i", "bitlen"], depth=9,
      uses=["bitlen_shift8"], use_inst=[("bitlen_shift8", [b2i(z3.Extract(_w, 0, Len(_w) - 1)), z3.BV2Int(_w[Len(_w) - 1])])])
lemma("kw_inverse", [_w], Imp(And(Len(_w) >= 1, _w[0] != ZERO8), And(i2b_min(b2i(_w)) == _w, b2i(_w) >= 1)), patterns=[b2i(_w)],
      uses=["i2b_b2i", "b2i_minlen"], use_inst=[("i2b_b2i", [_w]), ("b2i_minlen", [_w])], no_auto=True, unfold_only=[])
lemma("b2i_zeros", [_k], b2i(zeros(_k)) == 0, patterns=[b2i(zeros(_k))], induct=("int", _k), inst=[[_k - 1]], no_auto=True,
      unfold_only=["b2i", "zeros"], uses=["zeros_len", "zeros_add"], use_inst=[("zeros_add", [_k - 1, z3.IntVal(1)])], depth=3)
lemma("toks_nth", [_kb, _R, _n, _wv, _L2, _k, _k2],
      Imp(And(0 <= _k2, _k2 < _k), toks(_kb, _R, _n, _wv, _L2, _k)[_k2] == prpv(_kb, _R, _n, bcat(_wv, _L2, _k2 + 1))),
      patterns=None, induct=("int", _k), inst=[[_kb, _R, _n, _wv, _L2, _k - 1, _k2]], uses=["toks_len"], no_auto=True, unfold_only=["toks"])

# congruence across an arithmetic equality: the key bytes i2b(value, (length + 7) // 8) of two Bitsets with provably equal value and
# length are equal (the solver does not always propagate the arithmetic equality of the lengths into the term graph by itself)
_x2, _a2, _b2 = z3.Ints("s2_x2 s2_a2 s2_b2")
lemma("i2b_arg_cong", [_x, _x2, _a2, _b2], Imp(And(_x == _x2, _a2 == _b2), i2b(_x, (7 + _a2) / 8) == i2b(_x2, (7 + _b2) / 8)),
      patterns=[z3.MultiPattern(i2b(_x, (7 + _a2) / 8), i2b(_x2, (7 + _b2) / 8))], no_auto=True, unfold_only=[])

_h1, _h2, _l1, _l2, _v1, _v2b = z3.Ints("s2_h1 s2_h2 s2_l1 s2_l2 s2_v1 s2_v2b")
lemma("bcat_arg_cong", [_h1, _h2, _l1, _l2, _v1, _v2b], Imp(And(_h1 == _h2, _l1 == _l2, _v1 == _v2b), bcat(_h1, _l1, _v1) == bcat(_h2, _l2, _v2b)),
      patterns=[z3.MultiPattern(bcat(_h1, _l1, _v1), bcat(_h2, _l2, _v2b))], no_auto=True, unfold_only=[])
lemma("pow2_arg_cong", [_a2, _b2], Imp(_a2 == _b2, pow2(_a2) == pow2(_b2)), patterns=[z3.MultiPattern(pow2(_a2), pow2(_b2))],
      no_auto=True, unfold_only=[])
_kb2 = z3.Const("s2_kb2", BYTES)
_n2, _v2 = z3.Ints("s2_n2 s2_v2")
lemma("prpv_arg_cong", [_kb, _kb2, _R, _n, _n2, _v, _v2], Imp(And(_kb == _kb2, _n == _n2, _v == _v2), prpv(_kb, _R, _n, _v) == prpv(_kb2, _R, _n2, _v2)),
      patterns=[z3.MultiPattern(prpv(_kb, _R, _n, _v), prpv(_kb2, _R, _n2, _v2))], no_auto=True, unfold_only=[])

# ---- Repr: the index holds exactly the postings, addressed by pi(K1, w || j) (plus filler entries under the all-zero keyword) --------
ODB = sort(TOpt(BL))
_dkD = speclib.dkeys_fn(DBT)
_kpD = speclib.dkpos_fn(DBT)
s2_valid_db = specfn("s2_valid_db", [DBT, TInt, TInt], TBool,
                     doc="every keyword is non-empty, has no leading NUL and at most l bytes; every posting list has at most n entries")


def _s2_valid_db(DB, l, n):
    w = z3.Const("vw2_", BYTES)
    return z3.ForAll([w], Imp(db_has(DB, w), And(Len(w) >= 1, Len(w) <= l, w[0] != ZERO8, Len(db_list(DB, w)) <= n)),
                     patterns=[z3.Select(DB, w)])


s2_valid_db.define = _s2_valid_db


def _s2_body(x, I, kb, R, ML, L2, DB, kidx, jcur):
    m = prpinv(kb, R, ML, x)
    wv, j = m / pow2(L2), m % pow2(L2)
    w = i2b_min(wv)
    ok = And(x == prpv(kb, R, ML, m), 0 <= m, m < pow2(ML), b2i(w) == wv, db_has(DB, w), 1 <= j, j <= Len(db_list(DB, w)),
             Or(_kpD(DB, w) < kidx, And(_kpD(DB, w) == kidx, j <= jcur)))
    cell = z3.Select(I, x)
    return Imp(wv != 0, And(Not(OB.is_none(cell)) == ok, Imp(ok, OB.val(cell) == db_list(DB, w)[j - 1])))


def _s2_inv(I, kb, R, ML, L2, DB, kidx, jcur):
    """entries with a non-zero keyword part: present exactly for the postings (w, j) of the keywords before position kidx and the
    first jcur postings of keyword kidx, holding DB[w][j-1]"""
    x = z3.Int("x_")
    return z3.ForAll([x], _s2_body(x, I, kb, R, ML, L2, DB, kidx, jcur), patterns=[z3.Select(I, x)])


def s2_inv_at(args_src, kidx_src, jcur_src, Iname="I", step_msg=None):
    """the invariant as a clause: assumed in its quantified form, proved for one arbitrary (fresh) position x"""
    def f(E, env):
        def ev(src):
            v = E.spec_eval(src, env, old=True)
            return v.t if isinstance(v, SV) else E.to_sv(v).t
        Iv = env[Iname]
        It = E.cell(Iv)[1].t if isinstance(Iv, Ref) and E.cell(Iv)[0] == "dict" else (
            z3.K(z3.IntSort(), OB.none) if isinstance(Iv, Ref) else Iv.t)
        kb, R, ML_, L2_ = [ev(a) for a in args_src]
        Dv = env["database"]
        DBt = E.cell(Dv)[1].t if isinstance(Dv, Ref) else Dv.t
        kidx = z3.Length(_dkD(DBt)) if kidx_src is None else ev(kidx_src)
        jcur = ev(jcur_src)
        if E.spec_role == "assume":
            n = E.fresh("arg_I", IT)
            E.assume(n.t == It)
            return SV(_s2_inv(n.t, kb, R, ML_, L2_, DBt, kidx, jcur), TBool)
        if step_msg is not None and z3.is_store(It):
            # proof steps for the entry just stored: its position is the PRP value of the intended message, hence decodes to it
            key, Mv = It.arg(1), ev(step_msg)
            E.oblige("stored_at_prp_value", key == prpv(kb, R, ML_, Mv), 0, "the position just written is pi(K1, message)")
            E.oblige("stored_decodes", prpinv(kb, R, ML_, key) == Mv, 0, "... and decodes to that message")
        x0 = E.fresh("any_pos", TInt).t
        # the message decoded from position x0 is the concatenation of its keyword part and its counter part
        from pyvc.registry import LEMMAS as _LM
        E.lemmas_used.add("bcat_divmod")
        E.assume(z3.substitute(_LM["bcat_divmod"].body, *list(zip(_LM["bcat_divmod"].vars, [prpinv(kb, R, ML_, x0), L2_]))))
        return SV(_s2_body(x0, It, kb, R, ML_, L2_, DBt, kidx, jcur), TBool)
    return f


s2_inv = specfn("s2_inv", [IT, TBytes, TInt, TInt, TInt, DBT, TInt, TInt], TBool)
s2_inv.define = _s2_inv
s2_inv.name_args = True
s2_repr = specfn("s2_repr", [IT, TBytes, TInt, TInt, TInt, DBT], TBool,
                 doc="Repr: I[pi(K1, w || j)] == DB[w][j-1] for every posting, and nothing else under a non-zero keyword part")
s2_repr.define = lambda I, kb, R, ML, L2, DB: _s2_inv(I, kb, R, ML, L2, DB, Len(_dkD(DB)), z3.IntVal(0))
s2_repr.name_args = True
CFG_ARGS = "%s, %s, %s, %s" % (KB, RR, ML, L2)
CFG_ARGS_L = CFG_ARGS.replace("K.K1", "K1")
ARGS_L = [KB.replace("K.K1", "K1"), RR, ML, L2]
contract(SCH + "._Enc", params=dict(self=SCHT, K=KEYT, database=DBT), returns=EDBT,
         requires=VALID + ["len(K.K1) == self.config.param_k", "s2_valid_db(database, self.config.param_l, self.config.param_n)"],
         raises={"ValueError": "True", "OverflowError": "True"},      # only from the filler phase (counters that do not fit)
         ensures=["s2_repr(dmap(result.I), %s, database)" % CFG_ARGS],
         locals={"I": IT, "document_count_dict": TDict(TBytes, TInt)},
         lemmas=["PRP_inverse", "kw_inverse", "b2i_bound", "bitlen_le", "pow2_mono", "concat_fits", "concat_high", "concat_low", "b2i_zeros", "bitlen_ge", "zeros_len", "i2b_len", "b2i_nonneg", "bitlen_nonneg",
                 "pow2_pos", "i2b_arg_cong", "prpv_arg_cong", "pow2_arg_cong", "bcat_arg_cong"],
         only_lemmas=True, unfold_only=["s2_repr", "s2_inv", "s2_valid_db"],
         loops={0: dict(invariant=[s2_inv_at(ARGS_L, "it", "0"), "s_prime >= 0"]),
                1: dict(invariant=[s2_inv_at(ARGS_L, "_it0", "it", step_msg="bcat(b2i(keyword), %s, it)" % L2), "s_prime >= 0"],
                        hints=[("PRP_inverse", ARGS_L[:3] + ["bcat(b2i(keyword), %s, it + 1)" % L2]),
                               ("pow2_mono", ["8 * len(keyword)", "self.config.param_l_bits"]),
                               ("bitlen_le", ["it + 1", L2]),
                               ("bcat_fits", ["b2i(keyword)", "it + 1", "self.config.param_l_bits", L2]),
                               ("bcat_high", ["b2i(keyword)", "it + 1", L2]), ("bcat_low", ["b2i(keyword)", "it + 1", L2])]),
                2: dict(invariant=[s2_inv_at(ARGS_L, None, "0")]),
                3: dict(invariant=[s2_inv_at(ARGS_L, None, "0", step_msg="bcat(0, %s, n + it - 1)" % L2)],
                        hints=[("PRP_inverse", ARGS_L[:3] + ["bcat(0, %s, n + it)" % L2]), ("bitlen_ge", ["n + it", L2]),
                               ("bcat_fits", ["0", "n + it", "self.config.param_l_bits", L2]),
                               ("bcat_high", ["0", "n + it", L2]), ("bcat_low", ["0", "n + it", L2])])},
         no_runtime=True, props=["C01", "C02", "C04", "C07"])


# ---- Search: given Repr and the token of gq, the result is DB[gq] (or empty) ------------------------------------------------------------
GARGS = "i2b(b2i(gK1), (self.config.param_k_bits + 7) // 8), %s, %s, %s" % (RR, ML, L2)
contract(SCH + "._Search", params=dict(self=SCHT, edb=EDBT, tk=TOKT), returns=REST, locals={"result": TList(TBytes)},
         ghost=dict(gK1=TBytes, gDB=DBT, gq=TBytes),
         requires=VALID + ["s2_repr(dmap(edb.I), %s, gDB)" % GARGS, "s2_valid_db(gDB, self.config.param_l, self.config.param_n)",
                           "tk.t == toks(%s, b2i(gq), %s, self.config.param_n)" % (GARGS.rsplit(", ", 1)[0], L2),
                           "len(gq) >= 1", "len(gq) <= self.config.param_l", "gq[0] != 0"],
         ensures=["result.result == (gDB[gq] if gq in gDB else [])"],
         lemmas=["PRP_inverse", "kw_inverse", "toks_len", "b2i_bound", "pow2_mono", "concat_fits", "concat_high", "concat_low"],
         unfold_only=["s2_repr", "s2_inv", "s2_valid_db"],
         loops={0: dict(invariant=["it <= (len(gDB[gq]) if gq in gDB else 0)", "result == (gDB[gq][:it] if gq in gDB else [])"],
                        hints=[("toks_nth", [GARGS.split(", ")[0] + ", " + GARGS.split(", ")[1] if False else "i2b(b2i(gK1), (self.config.param_k_bits + 7) // 8)",
                                             RR, ML, "b2i(gq)", L2, "self.config.param_n", "it"]),
                               ("pow2_mono", ["8 * len(gq)", "self.config.param_l_bits"]),
                               ("bcat_fits", ["b2i(gq)", "it + 1", "self.config.param_l_bits", L2]),
                               ("bcat_high", ["b2i(gq)", "it + 1", L2]), ("bcat_low", ["b2i(gq)", "it + 1", L2])])},
         no_runtime=True, props=["C01", "C02", "C07"])

contract(SCH + "._Gen", modifies_ghost=["rng_n"], params=dict(self=SCHT), returns=KEYT,
         ensures=["len(result.K1) == self.config.param_k", "len(result.K2) == self.config.param_k"], no_runtime=True, props=["C01", "C03"])
for m_ in ("KeyGen", "EDBSetup", "TokenGen", "Search"):
    inline(SCH + "." + m_)
# C01 / C02 for SSE-2: verified client code over the contracts of _Enc, _Trap, _Search (public wrappers inlined)
contract("ghost:sse2_search_correct", modifies_ghost=["rng_n"], params=dict(sse=SCHT, key=KEYT, database=DBT, keyword=TBytes), returns=REST,
         body="""def sse2_search_correct(sse, key, database, keyword):
    gK1 = key.K1
    gDB = database
    gq = keyword
    edb = sse.EDBSetup(key, database)
    tk = sse.TokenGen(key, keyword)
    return sse.Search(edb, tk)
""",
         ghost_scope=S + "construction.py",
         requires=[r.replace("self.", "sse.") for r in VALID] + ["len(key.K1) == sse.config.param_k",
                   "s2_valid_db(database, sse.config.param_l, sse.config.param_n)",
                   "len(keyword) >= 1", "len(keyword) <= sse.config.param_l", "keyword[0] != 0"],
         raises={"ValueError": "True", "OverflowError": "True"},     # EDBSetup may refuse (filler counters); then nothing is claimed
         ensures=["result.result == (database[keyword] if keyword in database else [])"], props=["C01", "C02"])
