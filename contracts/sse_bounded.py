"""Bounded stand-ins for the scheme-level properties (C01-C08): the real code with the real cryptography on a
boundary grid of configurations and list-length profiles.  Labelled `bounded` in the evidence and never counted as
proved; they decide nothing on their own where a scheme is under contract, and stand in where it is not (yet).
Every function has the signature  f(rnd, tier) -> {"cases": n, "bound": text, "violations": [...]}.
"""
import copy, importlib, json, os, random, itertools, math, time


def _mod(name, part):
    return importlib.import_module("schemes.%s.%s" % (name, part))


SCHEMES = ["CGKO06.SSE1", "CGKO06.SSE2", "CJJ14.PiBas", "CJJ14.PiPack", "CJJ14.PiPtr", "CJJ14.Pi2Lev", "CT14.Pi",
           "ANSS16.Scheme3", "DP17.Pi"]

# small configurations next to the defaults (block / capacity boundaries are reachable with few postings)
VARIANTS = {
    "CGKO06.SSE1": [dict(param_s=128, param_dictionary_size=32), dict(param_k=16, param_l=8, param_s=64, param_dictionary_size=16, param_identifier_size=4)],
    "CGKO06.SSE2": [dict(), dict(param_k=16, param_l=8)],
    "CJJ14.PiBas": [dict(), dict(param_lambda=16, prf_f_output_length=16)],
    "CJJ14.PiPack": [dict(param_B=4), dict(param_lambda=16, prf_f_output_length=16, param_B=3, param_identifier_size=4), dict()],
    "CJJ14.PiPtr": [dict(param_B=4, param_b=2), dict(param_lambda=24, prf_f_output_length=24, param_B=2, param_b=3, param_identifier_size=4), dict()],
    "CJJ14.Pi2Lev": [dict(param_B=4, param_b=4, param_B_prime=4, param_b_prime=4), dict(param_B=8, param_b=4, param_B_prime=8, param_b_prime=4),
                     dict(param_lambda=16, prf_f_output_length=16, param_B=4, param_b=8, param_B_prime=4, param_b_prime=8),
                     dict(param_B=8, param_b=8, param_B_prime=7, param_b_prime=7, param_identifier_size=4),
                     dict(param_B=4, param_b=4, param_B_prime=8, param_b_prime=8), dict()],
    "CT14.Pi": [dict(), dict(param_k=16, param_k_prime=16, param_l=16, param_identifier_size=8)],
    "ANSS16.Scheme3": [dict(), dict(param_lambda=16, param_k=16, param_k_prime=16, param_l=8, param_l_prime=16, param_identifier_size=8)],
    "DP17.Pi": [dict(), dict(param_lambda=16, param_identifier_size=4, param_L=2), dict(param_lambda=16, param_identifier_size=4),
                dict(param_L=3), dict(param_L=2, param_actual_storage_level_ratio=0.5)],
}
PROFILES = [[1], [2], [3], [4], [1, 1], [5], [8], [9], [3, 4, 5], [16], [17], [1, 2, 4, 8], [7, 1], [2, 2, 2, 2], [6, 6], [12],
            [1] * 12, [5, 7], [15, 1], [3, 3, 3, 3, 3, 1], [33], [20, 13], [64], [65, 1]]


class Setup:
    def __init__(self, name, variant):
        self.name = name
        self.cfgmod = _mod(name, "config")
        self.cfg = dict(self.cfgmod.DEFAULT_CONFIG)
        self.cfg.update(variant)
        self.cons = _mod(name, "construction")
        self.struct = _mod(name, "structures")
        import schemes
        self.loader = schemes.load_sse_module(name)

    def kwlen(self):
        return min(self.cfg.get("param_l", 12), 12) if self.name.startswith("CGKO06") else 10

    def idlen(self):
        return self.cfg.get("param_identifier_size", 8)

    def make_db(self, rnd, profile):
        db = {}
        used = set()
        for n in profile:
            while True:
                w = bytes([1 + rnd.getrandbits(7)] + [rnd.getrandbits(8) for _ in range(self.kwlen() - 1)])
                if w not in db:
                    break
            ids = []
            while len(ids) < n:
                i = bytes([1 + rnd.getrandbits(7)] + [rnd.getrandbits(8) for _ in range(self.idlen() - 1)])
                if i not in ids:
                    ids.append(i)
            db[w] = ids
        return db

    def scheme(self, db):
        cfg = dict(self.cfg)
        if self.name == "CGKO06.SSE2":
            self.cfgmod.scan_database_and_update_config_dict(cfg, database=db)
        return self.loader.SSEScheme(cfg), cfg

    def fits(self, profile):
        n = sum(profile)
        if self.name == "CGKO06.SSE1":
            return n + 1 < self.cfg["param_s"] and len(profile) <= self.cfg["param_dictionary_size"]
        if self.name == "CJJ14.Pi2Lev":
            c = self.cfg
            return all(x < c["param_B"] * c["param_B_prime"] * c["param_b_prime"] for x in profile)
        return True


def as_result(r):
    x = r.result
    return x


def expected(name, lst):
    return set(lst) if name == "DP17.Pi" else list(lst)


def setups(tier):
    out = []
    for name in SCHEMES:
        vs = VARIANTS[name] if (tier == "thorough" or name == "CJJ14.Pi2Lev") else VARIANTS[name][:2]
        for v in vs:
            out.append(Setup(name, v))
    return out


def profiles(tier, name):
    ps = PROFILES if tier == "thorough" else PROFILES[:20]
    if name in ("CGKO06.SSE1", "CGKO06.SSE2", "DP17.Pi") and tier != "thorough":
        ps = [p for p in ps if sum(p) <= 20]
    return ps


def _viol(out, clause, **inp):
    out.append({"clause": clause, "input": inp})


def rt_c01_c02(rnd, tier):
    """C01 / C02: Search(EDBSetup(K, DB), TokenGen(K, w)) == DB.get(w, empty) for present, absent and near-duplicate keywords"""
    viol, cases = [], 0
    t0 = time.time()
    for st in setups(tier):
        for prof in profiles(tier, st.name):
            if not st.fits(prof):
                continue
            db = st.make_db(rnd, prof)
            try:
                sch, cfg = st.scheme(db)
                key = sch.KeyGen()
                edb = sch.EDBSetup(key, copy.deepcopy(db))
            except Exception as ex:
                _viol(viol, "%s: EDBSetup raised %s for list lengths %s" % (st.name, type(ex).__name__, prof),
                      scheme=st.name, config={k: v for k, v in st.cfg.items() if k.startswith("param")}, profile=prof)
                continue
            absent = []
            for w in list(db)[:3]:
                absent += [w[:-1], w + b"x", w[1:], bytes([w[0] ^ 1]) + w[1:]]
            absent.append(bytes(rnd.getrandbits(8) | 1 for _ in range(st.kwlen())))
            absent = [a for a in absent if a and a not in db and a[0] != 0 and len(a) <= cfg.get("param_l", 64)]
            if not st.name.startswith("CGKO06"):
                # fixed, easily guessed byte patterns (CGKO06 pads keywords to a bit string, so NUL-led ones are outside its domain)
                absent += [b"\x00" * n for n in (1, 8, 16, 32)] + [b"\xff" * 32, b"dummy", b"padding"]
            for w in list(db) + absent:
                cases += 1
                want = expected(st.name, db.get(w, []))
                try:
                    got = as_result(sch.Search(edb, sch.TokenGen(key, w)))
                except Exception as ex:
                    _viol(viol, "%s: Search raised %s for a %s keyword (list lengths %s)" % (
                        st.name, type(ex).__name__, "stored" if w in db else "absent", prof), scheme=st.name, profile=prof)
                    break
                if got != want:
                    _viol(viol, "%s: Search returned %d identifiers instead of %d for a %s keyword (list lengths %s)" % (
                        st.name, len(got), len(want), "stored" if w in db else "absent", prof), scheme=st.name, profile=prof,
                        config={k: v for k, v in st.cfg.items() if k.startswith("param")})
                    break
    # width boundaries: counters, pointers and positions are stored in ceil(log256(.)) bytes -- databases whose number of
    # blocks / postings / keywords sits exactly at 255, 256, 257 (thorough: also 65535, 65536)
    wide = [[1] * 255, [1] * 256, [1] * 257, [2] * 128, [3] * 85]
    for st in setups(tier):
        if st.name.startswith("CGKO06") or (st.name == "DP17.Pi" and tier != "thorough"):
            continue      # PRP-based schemes are too slow for hundreds of postings in the quick tier (covered by `thorough`)
        profs = list(wide)
        if tier == "thorough" and st.name.startswith("CJJ14"):
            profs += [[1] * 65535, [1] * 65536]
        for prof in profs:
            if not st.fits(prof):
                continue
            db = st.make_db(rnd, prof)
            try:
                sch, cfg = st.scheme(db)
                key = sch.KeyGen()
                edb = sch.EDBSetup(key, copy.deepcopy(db))
            except Exception as ex:
                _viol(viol, "%s: EDBSetup raised %s for %d lists of length %d" % (st.name, type(ex).__name__, len(prof), prof[0]),
                      scheme=st.name, profile=[len(prof), prof[0]])
                continue
            ws = list(db)
            for w in ws[:3] + ws[-3:] + [ws[len(ws) // 2], b"\x01absent-kw"]:
                cases += 1
                want = expected(st.name, db.get(w, []))
                try:
                    got = as_result(sch.Search(edb, sch.TokenGen(key, w)))
                except Exception as ex:
                    _viol(viol, "%s: Search raised %s for a %s keyword (%d lists of length %d)" % (
                        st.name, type(ex).__name__, "stored" if w in db else "absent", len(prof), prof[0]), scheme=st.name,
                        profile=[len(prof), prof[0]], config={k: v for k, v in st.cfg.items() if k.startswith("param")})
                    break
                if got != want:
                    _viol(viol, "%s: Search returned %d identifiers instead of %d for a %s keyword (%d lists of length %d)" % (
                        st.name, len(got), len(want), "stored" if w in db else "absent", len(prof), prof[0]), scheme=st.name,
                        profile=[len(prof), prof[0]], config={k: v for k, v in st.cfg.items() if k.startswith("param")})
                    break
    # one scheme object, one key, two databases: what a keyword has in the first index must not show up when the second index
    # (where it is absent or has another list) is searched, in either order of the searches
    for st in setups(tier):
        for profs in ([[3, 2], [2, 4]], [[5], [1, 1, 1]]):
            if not all(st.fits(p) for p in profs):
                continue
            db1, db2 = st.make_db(rnd, profs[0]), st.make_db(rnd, profs[1])
            shared = list(db1)[0]
            db2[shared] = list(reversed(db2[list(db2)[0]]))[:1] + [db1[shared][0]]      # same keyword, another list
            try:
                sch, cfg = st.scheme({**db1, **db2})
                if st.name == "CGKO06.SSE2":
                    merged = {w: (db1.get(w, []) + db2.get(w, [])) for w in {**db1, **db2}}
                    sch, cfg = st.scheme(merged)
                key = sch.KeyGen()
                edb1 = sch.EDBSetup(key, copy.deepcopy(db1))
                edb2 = sch.EDBSetup(key, copy.deepcopy(db2))
                for first, second in ((edb1, edb2), (edb2, edb1)):
                    for w in list(db1) + list(db2):
                        tok = sch.TokenGen(key, w)
                        for edb, db in ((first, db1 if first is edb1 else db2), (second, db1 if second is edb1 else db2)):
                            cases += 1
                            got = as_result(sch.Search(edb, tok))
                            if got != expected(st.name, db.get(w, [])):
                                _viol(viol, "%s: with two indexes built by one scheme object under one key, a search returned %d identifiers "
                                            "instead of the %d the searched index holds for that keyword" % (st.name, len(got), len(db.get(w, []))),
                                      scheme=st.name, profiles=profs)
                                raise StopIteration
            except StopIteration:
                pass
            except Exception as ex:
                _viol(viol, "%s: two indexes on one scheme object raised %s" % (st.name, type(ex).__name__), scheme=st.name, profiles=profs)
    # long histories on one scheme object: tokens requested for many other keywords must not change later answers
    for st in setups(tier):
        prof = [2, 3]
        if not st.fits(prof):
            continue
        for n_other in ((255,) if tier == "quick" else (63, 127, 255, 256, 511, 1023)):
            db = st.make_db(rnd, prof)
            try:
                sch, cfg = st.scheme(db)
                key = sch.KeyGen()
                edb = sch.EDBSetup(key, copy.deepcopy(db))
                gone = bytes(rnd.getrandbits(8) | 1 for _ in range(st.kwlen()))
                first = as_result(sch.Search(edb, sch.TokenGen(key, gone)))
                for i in range(n_other):
                    sch.TokenGen(key, bytes([1 + i % 200, 1 + i // 200] + [rnd.getrandbits(8) | 1 for _ in range(st.kwlen() - 2)]))
                for w in list(db):          # stored keywords are requested for the first time only now
                    sch.TokenGen(key, w)
                cases += 1
                again = as_result(sch.Search(edb, sch.TokenGen(key, gone)))
                if again != first or len(again) != 0:
                    _viol(viol, "%s: an absent keyword returns %d identifiers when asked again after %d other token requests" % (
                        st.name, len(again), n_other + len(db)), scheme=st.name)
                for w in db:
                    if as_result(sch.Search(edb, sch.TokenGen(key, w))) != expected(st.name, db[w]):
                        _viol(viol, "%s: a stored keyword's answer changed after a long history of token requests" % st.name, scheme=st.name)
            except Exception as ex:
                _viol(viol, "%s: long search history raised %s" % (st.name, type(ex).__name__), scheme=st.name)
    return {"cases": cases, "bound": "9 schemes x %s configurations x %d list-length profiles (N <= %d), every stored keyword + "
                                     "prefix/suffix/near-duplicate/random absent keywords; width boundaries 255/256/257 lists "
                                     "(thorough: 65535/65536 for CJJ14)" % (
                                         "all" if tier == "thorough" else "2", len(PROFILES if tier == "thorough" else PROFILES[:20]),
                                         max(sum(p) for p in PROFILES)), "violations": viol}


def rt_c03(rnd, tier):
    """C03: wire formats round-trip; a server with only JSON config + serialized EDB + serialized token gives the client's answer"""
    viol, cases = [], 0
    for st in setups(tier):
        for prof in [[1], [3, 4, 5], [8], [2, 2, 2, 2]]:
            if not st.fits(prof):
                continue
            db = st.make_db(rnd, prof)
            try:
                sch, cfg = st.scheme(db)
                key = sch.KeyGen()
                edb = sch.EDBSetup(key, copy.deepcopy(db))
            except Exception as ex:
                continue   # reported by the C01 stand-in
            L = st.loader
            cfg2 = json.loads(json.dumps(cfg))
            server = L.SSEScheme(cfg2)
            client2 = L.SSEScheme(json.loads(json.dumps(cfg)))
            try:
                key2 = L.SSEKey.deserialize(key.serialize(), client2.config)
                if key2 != key:
                    _viol(viol, "%s: Key.deserialize(serialize(k)) != k" % st.name, scheme=st.name)
                edb2 = L.SSEEncryptedDatabase.deserialize(edb.serialize(), server.config)
                if edb2 != edb:
                    _viol(viol, "%s: EDB.deserialize(serialize(edb)) != edb" % st.name, scheme=st.name)
                for w in list(db) + [b"absent-kw"[:st.kwlen()]]:
                    cases += 1
                    tok = client2.TokenGen(key2, w)
                    tok2 = L.SSEToken.deserialize(tok.serialize(), server.config)
                    if tok2 != tok:
                        _viol(viol, "%s: Token.deserialize(serialize(t)) != t" % st.name, scheme=st.name)
                        break
                    res = server.Search(edb2, tok2)
                    res2 = L.SSEResult.deserialize(res.serialize(), client2.config)
                    if res2 != res:
                        _viol(viol, "%s: Result.deserialize(serialize(r)) != r" % st.name, scheme=st.name)
                        break
                    if as_result(res2) != expected(st.name, db.get(w, [])):
                        _viol(viol, "%s: the server-side result differs from DB.get(w, empty)" % st.name, scheme=st.name, profile=prof)
                        break
            except Exception as ex:
                _viol(viol, "%s: wire-format round trip raised %s: %s" % (st.name, type(ex).__name__, str(ex)[:80]), scheme=st.name,
                      config={k: v for k, v in st.cfg.items() if k.startswith("param")})
    return {"cases": cases, "bound": "9 schemes x 2 configurations x 4 databases, all stored + one absent keyword", "violations": viol}


def _lens(x):
    if x is None:
        return -1
    if isinstance(x, (bytes, bytearray)):
        return len(x)
    if isinstance(x, int):
        return "int"
    return "?"


def shape(edb):
    out = []
    for slot in type(edb).__slots__:
        v = getattr(edb, slot)
        out.append(_shape1(v))
    return out


def _shape1(v):
    if isinstance(v, dict):
        vals = list(v.values())
        if vals and isinstance(vals[0], (list, dict)):
            return ("dict-of", sorted((repr(k), _shape1(x)) for k, x in v.items()))
        return ("dict", len(v), sorted(set(_lens(k) for k in v)), sorted(set(_lens(x) for x in vals)))
    if isinstance(v, list):
        if v and isinstance(v[0], (dict, list)):
            return ("list-of", [_shape1(x) for x in v])
        return ("list", len(v), sorted(set(_lens(x) for x in v)))
    return ("other", type(v).__name__)


def size_param(st, db):
    c = st.cfg
    n = sum(len(v) for v in db.values())
    cd = lambda a, b: -(-a // b)
    if st.name == "CGKO06.SSE1":
        return ()
    if st.name in ("CGKO06.SSE2", "CJJ14.PiBas", "DP17.Pi"):
        return n
    if st.name == "CJJ14.PiPack":
        return sum(cd(len(v), c["param_B"]) for v in db.values())
    if st.name == "CJJ14.PiPtr":
        return (sum(cd(len(v), c["param_B"]) for v in db.values()), sum(cd(cd(len(v), c["param_B"]), c["param_b"]) for v in db.values()))
    if st.name == "CJJ14.Pi2Lev":
        a = 1
        for v in db.values():
            if len(v) > c["param_b"]:
                a += cd(len(v), c["param_B"])
            if len(v) > c["param_b_prime"] * c["param_B"]:
                a += cd(len(v), c["param_B"] * c["param_B_prime"])
        return (len(db), a)
    return (n - 1).bit_length()


def rt_c05(rnd, tier):
    """C05: databases with the same public size parameter give identically shaped indexes; padded tables have one key length and
    one value length"""
    viol, cases = [], 0
    # next to the usual configurations: identifier sizes that are whole cipher blocks (16, 32), where PKCS7 adds a full block
    aligned = []
    for name in SCHEMES:
        for sz in ((16,) if tier != "thorough" else (16, 32)):
            try:
                aligned.append(Setup(name, dict(VARIANTS[name][0], param_identifier_size=sz)))
            except Exception:
                pass
    for st in setups(tier) + aligned:
        groups = {}
        for prof in (profiles(tier, st.name) if st not in aligned else [p for p in profiles(tier, st.name) if sum(p) <= 17]):
            if not st.fits(prof):
                continue
            db = st.make_db(rnd, prof)
            try:
                sch, cfg = st.scheme(db)
                edb = sch.EDBSetup(sch.KeyGen(), copy.deepcopy(db))
            except Exception:
                continue
            cases += 1
            sh = shape(edb)
            if st.name == "ANSS16.Scheme3":
                t = len(edb.HT_L_list) - 1
                over = [i for i, h in enumerate(edb.HT_L_list) if len(h) > 2 ** (t - i)]
                if over:
                    _viol(viol, "ANSS16.Scheme3: level table %d holds more than 2^(t-i) entries (list lengths %s)" % (over[0], prof),
                          scheme=st.name, profile=prof)
                    continue
            for part in sh:
                if part[0] == "dict" and st.name != "CGKO06.SSE2" and (len(part[2]) > 1 or len(part[3]) > 1):
                    _viol(viol, "%s: a table has keys of lengths %s and values of lengths %s (list lengths %s)" % (
                        st.name, part[2], part[3], prof), scheme=st.name, profile=prof)
            key = (repr(size_param(st, db)), cfg.get("param_n"))
            if key in groups and groups[key][0] != sh:
                _viol(viol, "%s: list lengths %s and %s have the same size parameter %s but differently shaped indexes" % (
                    st.name, groups[key][1], prof, key[0]), scheme=st.name, profile=prof, other=groups[key][1],
                    config={k: v for k, v in st.cfg.items() if k.startswith("param")})
            groups.setdefault(key, (sh, prof))
    return {"cases": cases, "bound": "9 schemes x (2 configurations + block-aligned identifier sizes) x up to %d list-length profiles grouped by size parameter" % len(PROFILES),
            "violations": viol}


def tables_of(edb):
    out = []
    for slot in type(edb).__slots__:
        v = getattr(edb, slot)
        if isinstance(v, dict) and v and not isinstance(next(iter(v.values())), (list, dict)):
            out.append(list(v.keys()))
        if isinstance(v, list) and v and isinstance(v[0], dict):
            out.extend(list(x.keys()) for x in v)
    return out


def rt_c06(rnd, tier):
    """C06: label tables are stored in label order (for the schemes that specify it); array placement changes between setups"""
    viol, cases = [], 0
    ordered = {"CJJ14.PiBas", "CJJ14.PiPack", "CJJ14.PiPtr", "CJJ14.Pi2Lev", "CT14.Pi", "ANSS16.Scheme3"}
    for st in setups(tier):
        if st.name not in ordered:
            continue
        for prof in [[1] * 16, [4] * 8, [3, 4, 5], [2, 2, 2, 2], [8], [1, 2, 4, 8], [6, 6]]:
            if not st.fits(prof):
                continue
            db = st.make_db(rnd, prof)
            sch, cfg = st.scheme(db)
            key = sch.KeyGen()
            for perm in range(3):
                items = list(db.items())
                rnd.shuffle(items)
                cases += 1
                try:
                    edb = sch.EDBSetup(key, copy.deepcopy(dict(items)))
                except Exception:
                    break
                edb = st.loader.SSEEncryptedDatabase.deserialize(edb.serialize(), sch.config)
                for ti, ks in enumerate(tables_of(edb)):
                    if ks != sorted(ks):
                        _viol(viol, "%s: table %d (%d entries) is not in label order (list lengths %s)" % (st.name, ti, len(ks), prof),
                              scheme=st.name, profile=prof)
                        break
    # array placement: the slots Search reads differ between two setups on ONE scheme object (same key where placement is
    # random: PiPtr, Pi2Lev, DP17; a fresh key where it is key-derived: SSE1)
    class Rec(list):
        def __getitem__(self, i):
            self.seen.add((self.tag, i))
            return list.__getitem__(self, i)

    def record(edb, seen):
        for slot in type(edb).__slots__:
            v = getattr(edb, slot)
            if isinstance(v, list) and not isinstance(v, Rec):
                r = Rec(v)
                r.tag, r.seen = slot, seen
                setattr(edb, slot, r)
            elif isinstance(v, dict) and v and all(isinstance(x, list) for x in v.values()):
                for k in list(v):
                    r = Rec(v[k])
                    r.tag, r.seen = (slot, k), seen
                    v[k] = r
    for st in setups(tier):
        if st.name not in ("CJJ14.PiPtr", "CJJ14.Pi2Lev", "CGKO06.SSE1", "DP17.Pi"):
            continue
        c = st.cfg
        if st.name == "CJJ14.PiPtr":
            B_ = c["param_B"]
            profs = [[B_ * 8] * 3, [B_ * 5, B_ * 6, B_ * 7, B_ * 3]]
        elif st.name == "CJJ14.Pi2Lev":
            B_ = c["param_B"]
            med = min(B_ * c["param_b_prime"], 40)            # largest medium list (capped)
            big = B_ * c["param_b_prime"] + 1
            profs = [[med] * 6]
            if big < 70:
                profs += [[big + 3] * 3, [big + 3, big + 5, med, med]]
        elif st.name == "CGKO06.SSE1":
            profs = [[4, 4, 4, 3], [2] * 8]
        else:
            profs = [[1] * 30, [2] * 30]        # few buckets per level: many single-chunk keywords are needed
        for prof in profs:
            if not st.fits(prof):
                continue
            db = st.make_db(rnd, prof)
            sch, cfg = st.scheme(db)
            key = sch.KeyGen()
            reads = []
            try:
                for rep in range(2):
                    if st.name == "CGKO06.SSE1" and rep:
                        key = sch.KeyGen()
                    edb = sch.EDBSetup(key, copy.deepcopy(db))
                    seen = set()
                    record(edb, seen)
                    per = {}
                    for w in db:
                        seen.clear()
                        sch.Search(edb, sch.TokenGen(key, w))
                        per[w] = frozenset(seen)
                    reads.append(per)
            except Exception:
                continue
            cases += 1
            nblocks = sum(len(x) for x in reads[0].values())
            if st.name == "DP17.Pi":
                # every chunk picks one of the buckets of its level at random: a keyword with q chunks repeats its bucket set
                # with probability <= q! / nb^q
                nb = min(len(x) for x in edb.A_dict.values())
                p = 1.0
                for x in reads[0].values():
                    p *= min(1.0, math.factorial(len(x)) / float(nb) ** len(x))
                unlikely = nblocks >= 12 and p < 1e-8
            else:
                ways = math.factorial(nblocks)
                for x in reads[0].values():
                    ways //= math.factorial(len(x))
                # number of ways to hand the slots out to the keywords: a chance coincidence has probability <= 1/ways
                unlikely = nblocks >= 12 and ways >= 10 ** 8
            if unlikely and reads[0] == reads[1]:
                _viol(viol, "%s: %d array blocks, but a second EDBSetup on the same scheme object%s made Search read exactly the same "
                            "slots for every keyword (list lengths %s)" % (st.name, nblocks, " under a fresh key" if st.name == "CGKO06.SSE1" else "", prof),
                      scheme=st.name, profile=prof)
    return {"cases": cases, "bound": "6 ordered-table schemes x 2 configurations x 7 databases x 3 keyword orders; PiPtr/Pi2Lev/SSE1/DP17 slot sets of "
                                     "two setups on one scheme object compared", "violations": viol}


def rt_c07(rnd, tier):
    """C07: EDBSetup leaves DB / key / config dict intact; searches leave the index intact and repeat"""
    viol, cases = [], 0
    for st in setups(tier):
        for prof in [[3, 5], [1], [3, 4, 5], [2, 2, 2, 2], [7, 1], [8], [2, 10, 3, 20]]:
            if not st.fits(prof):
                continue
            db = st.make_db(rnd, prof)
            try:
                sch, cfg = st.scheme(db)
                cfg_before = copy.deepcopy(cfg)
                key = sch.KeyGen()
                kser = key.serialize()
                db_before = copy.deepcopy(db)
                edb = sch.EDBSetup(key, db)
            except Exception:
                continue
            cases += 1
            if db != db_before:
                _viol(viol, "%s: EDBSetup changed the caller's database (list lengths %s)" % (st.name, prof), scheme=st.name, profile=prof)
            if cfg != cfg_before:
                _viol(viol, "%s: the configuration dict was modified" % st.name, scheme=st.name)
            if key.serialize() != kser:
                _viol(viol, "%s: EDBSetup changed the key" % st.name, scheme=st.name)
            ser = edb.serialize()
            seq = list(db) * 2 + [b"absent"[:st.kwlen()]]
            rnd.shuffle(seq)
            try:
                for w in seq:
                    tok = sch.TokenGen(key, w)
                    tser = tok.serialize()
                    got = as_result(sch.Search(edb, tok))
                    if got != expected(st.name, db.get(w, [])):
                        _viol(viol, "%s: a search inside a history returned a different answer than the single search" % st.name,
                              scheme=st.name, profile=prof)
                        break
                    if tok.serialize() != tser:
                        _viol(viol, "%s: Search changed the token" % st.name, scheme=st.name)
                if edb.serialize() != ser:
                    _viol(viol, "%s: searching changed the encrypted database" % st.name, scheme=st.name)
            except Exception as ex:
                _viol(viol, "%s: search history raised %s" % (st.name, type(ex).__name__), scheme=st.name, profile=prof,
                      config={k: v for k, v in st.cfg.items() if k.startswith("param")})
    return {"cases": cases, "bound": "9 schemes x 2 configurations x 6 databases, history = every keyword twice + one absent, shuffled",
            "violations": viol}


GRID = {
    "len": [8, 16, 20, 24, 32, 48, 0, -1, 2.5],
    "small": [1, 2, 3, 4, 8, 0, -1],
}


def rt_c08(rnd, tier):
    """C08: a configuration is refused (exception up to and including Search) or every search is correct; single-field deletions
    are refused when the configuration is built"""
    viol, cases = [], 0
    for name in SCHEMES:
        st0 = Setup(name, VARIANTS[name][0])
        base = dict(st0.cfg)
        fields = [k for k in base if k.startswith("param") or isinstance(base[k], str)]
        cfgs = []
        for f in fields:
            if f == "scheme":
                continue
            v = base[f]
            if isinstance(v, str):
                cfgs.append((f, "deleted", {k: x for k, x in base.items() if k != f}))
                cfgs.append((f, "unknown-name", dict(base, **{f: "NoSuchPrimitive"})))
                continue
            cfgs.append((f, "deleted", {k: x for k, x in base.items() if k != f}))
            cand = GRID["len"] if ("lambda" in f or f in ("param_k", "param_k_prime", "param_l", "param_l_prime", "prf_f_output_length"))\
                else GRID["small"]
            if tier != "thorough":
                cand = cand[:4] + cand[-3:]
            for x in cand:
                if x != v:
                    cfgs.append((f, x, dict(base, **{f: x})))
        # X / X_prime pairs changed together (cross-field checks couple them)
        for f in fields:
            if f + "_prime" in base and isinstance(base[f], int):
                for x in (1, 2, 3, 8, 16):
                    if x != base[f]:
                        cfgs.append((f + "+prime", x, dict(base, **{f: x, f + "_prime": x})))
        # pairs of equal length fields changed together (keeps cross-field equalities, changes the value)
        for x in (16, 24):
            c = dict(base)
            for f in fields:
                if isinstance(base.get(f), int) and base[f] == 32:
                    c[f] = x
            cfgs.append(("all-32-fields", x, c))
        for (f, x, cfg) in cfgs:
            st = Setup(name, {})
            st.cfg = cfg
            idl = cfg.get("param_identifier_size", 8)
            if not isinstance(idl, int) or idl <= 0 or idl > 64:
                idl_ok = False
            else:
                idl_ok = True
            cases += 1
            try:
                prof = [3, 1, 5]
                if idl_ok:
                    db = st.make_db(rnd, prof)
                else:
                    st2 = Setup(name, {})
                    db = st2.make_db(rnd, prof)
                if name == "CGKO06.SSE1":
                    kl = cfg.get("param_l", 8)
                    if isinstance(kl, int) and 0 < kl < 10:
                        db = {w[:kl]: v for w, v in db.items()}
                sch, cfg2 = st.scheme(db)
            except Exception:
                continue      # refused while building the configuration / scheme: fine
            if x == "deleted" and f not in ("param_max", "param_dictionary_size", "param_identifier_size") :
                # a parameter the scheme needs is missing but the configuration was accepted
                needed = True
                try:
                    key = sch.KeyGen()
                    edb = sch.EDBSetup(key, copy.deepcopy(db))
                    for w in db:
                        if as_result(sch.Search(edb, sch.TokenGen(key, w))) != expected(name, db[w]):
                            raise AssertionError("wrong result")
                    needed = False   # works without it: not a needed parameter
                except Exception:
                    needed = True
                if needed:
                    _viol(viol, "%s: configuration without %s is accepted when built but cannot be used" % (name, f), scheme=name, field=f)
                continue
            try:
                key = sch.KeyGen()
                edb = sch.EDBSetup(key, copy.deepcopy(db))
                for w in list(db) + [b"zz-absent"[:st0.kwlen()]]:
                    got = as_result(sch.Search(edb, sch.TokenGen(key, w)))
                    if got != expected(name, db.get(w, [])):
                        _viol(viol, "%s: configuration %s=%r completes setup but search returns %d identifiers instead of %d" % (
                            name, f, x, len(got), len(db.get(w, []))), scheme=name, field=f, value=repr(x))
                        break
            except Exception:
                pass          # refused loudly later: allowed by the property
    return {"cases": cases, "bound": "9 schemes x every config field x boundary/out-of-range values + single-field deletions, DB [3,1,5]",
            "violations": viol}


def _cipher_values(name, edb):
    """byte strings of the index that are produced by the randomised cipher (or are random fillers of the same tables)"""
    out = []
    if name in ("CJJ14.PiBas", "CJJ14.PiPack"):
        out += list(edb.D.values())
    elif name in ("CJJ14.PiPtr", "CJJ14.Pi2Lev"):
        out += list(edb.D.values()) + [x for x in edb.A if x is not None]
    elif name == "CT14.Pi":
        for h in edb.HT_list:
            out += list(h.values())
    elif name == "ANSS16.Scheme3":
        out += list(edb.HT_S.values())
        for h in edb.HT_L_list:
            out += list(h.values())
    elif name == "CGKO06.SSE1":
        out += list(edb.A)
    elif name == "DP17.Pi":
        for lst in edb.A_dict.values():
            out += list(lst)
    return out


def _blocks(values):
    out = []
    for v in values:
        out += [v[i:i + 16] for i in range(0, len(v) - len(v) % 16, 16)]
    return out


def rt_c04(rnd, tier):
    """C04: no keyword / identifier as a substring of the serialized index or tokens; ciphertext blocks never repeat inside
    one index nor between two indexes of the same (K, DB)"""
    viol, cases = [], 0
    for st in setups(tier):
        profs = [[3, 4, 5], [16] * 16, [1] * 7]
        if st.name == "CJJ14.Pi2Lev" and st.cfg["param_B"] * st.cfg["param_b_prime"] < 40:
            profs.append([st.cfg["param_B"] * st.cfg["param_b_prime"] + 3, 2])
        for prof in profs:
            if not st.fits(prof) or (st.name in ("CGKO06.SSE1", "CGKO06.SSE2", "DP17.Pi") and sum(prof) > 60 and tier != "thorough"):
                continue
            db = st.make_db(rnd, prof)
            # one identifier shared by every keyword
            shared = next(iter(db.values()))[0]
            for w in db:
                if shared not in db[w]:
                    db[w][-1] = shared
            try:
                sch, cfg = st.scheme(db)
                key = sch.KeyGen()
                e1 = sch.EDBSetup(key, copy.deepcopy(db))
                e2 = sch.EDBSetup(key, copy.deepcopy(db))
            except Exception:
                continue
            cases += 1
            ser = e1.serialize()
            toks = [sch.TokenGen(key, w).serialize() for w in list(db)[:5]]
            for w in db:
                if len(w) >= 6 and (w in ser or any(w in t for t in toks)):
                    _viol(viol, "%s: a stored keyword occurs in the serialized index or a token" % st.name, scheme=st.name, profile=prof)
                    break
            if st.name != "CGKO06.SSE2":
                hit = sum(1 for ids in db.values() for i in ids if len(i) >= 8 and i in ser)
                if hit:
                    _viol(viol, "%s: %d stored identifier(s) readable in EDB.serialize() (list lengths %s)" % (st.name, hit, prof),
                          scheme=st.name, profile=prof, config={k: v for k, v in st.cfg.items() if k.startswith("param")})
                b1, b2 = _blocks(_cipher_values(st.name, e1)), _blocks(_cipher_values(st.name, e2))
                if len(set(b1)) != len(b1):
                    _viol(viol, "%s: a ciphertext block occurs twice inside one index (list lengths %s)" % (st.name, prof),
                          scheme=st.name, profile=prof)
                common = set(b1) & set(b2)
                if common:
                    _viol(viol, "%s: %d of %d ciphertext blocks are identical in two encryptions of the same (K, DB) (list lengths %s)" % (
                        st.name, len(common), len(set(b1)), prof), scheme=st.name, profile=prof)
    return {"cases": cases, "bound": "9 schemes x 2 configurations x 3-4 databases (incl. N = 256 and one identifier under every keyword)",
            "violations": viol}
