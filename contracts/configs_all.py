"""C08 (last clause): a configuration that lacks a parameter the scheme needs is refused when the configuration is built.
For every scheme and every key K that `_parse_config` reads from the dictionary, the contract variant `#missing_K` says:
with a dictionary that has every other key (any integer values, the default primitive names) but not K, `_parse_config`
raises ValueError.  The set of keys is read from the real source on every run (the `config_dict.get("...")` calls of
`_parse_config`), not from the list the code passes to `check_param_exist` -- dropping a key from that list fails the variant."""
import ast, os
from pyvc.api import *
from contracts.sse_common import *

ROOT = os.environ.get("PYVC_REPO") or "/repo"
CONFIGS = [("schemes/CJJ14/PiBas/config.py", "PiBasConfig"), ("schemes/CJJ14/PiPack/config.py", "PiPackConfig"),
           ("schemes/CJJ14/PiPtr/config.py", "PiPtrConfig"), ("schemes/CJJ14/Pi2Lev/config.py", "Pi2LevConfig"),
           ("schemes/CT14/Pi/config.py", "PiConfig"), ("schemes/ANSS16/Scheme3/config.py", "PiConfig"),
           ("schemes/DP17/Pi/config.py", "PiConfig"), ("schemes/CGKO06/SSE1/config.py", "SSE1Config"),
           ("schemes/CGKO06/SSE2/config.py", "SSE2Config")]
import contracts.fpe
inline("toolkit/prp/bitwise_fpe_prp.py:BitwiseFPEPRP.__init__")
inline("schemes/interface/config.py:SSEConfig.check_param_exist", "toolkit/prp/__init__.py:get_prp_implementation",
       "toolkit/prf/__init__.py:get_prf_implementation", "toolkit/symmetric_encryption/__init__.py:get_symmetric_encryption_implementation")
NEEDED = {}
for rel, cname in CONFIGS:
    tree = ast.parse(open(os.path.join(ROOT, rel)).read())
    default, keys = None, []
    for n in tree.body:
        if isinstance(n, ast.Assign) and any(isinstance(t, ast.Name) and t.id == "DEFAULT_CONFIG" for t in n.targets):
            default = eval(compile(ast.Expression(n.value), rel, "eval"), {"__builtins__": {}})   # literal dict; 2 ** 16 style values
        if isinstance(n, ast.ClassDef) and n.name == cname:
            for st in n.body:
                if isinstance(st, ast.FunctionDef) and st.name == "_parse_config":
                    for c in ast.walk(st):
                        if isinstance(c, ast.Call) and isinstance(c.func, ast.Attribute) and c.func.attr == "get" and \
                                isinstance(c.func.value, ast.Name) and c.func.value.id == "config_dict" and c.args and \
                                isinstance(c.args[0], ast.Constant) and c.args[0].value not in keys:
                            keys.append(c.args[0].value)
    CFG = "%s:%s" % (rel, cname)
    NEEDED[CFG] = keys
    if CFG not in CLASSES:
        klass(CFG, fields={})
    base = {}
    for k, v in (default or {}).items():
        base[k] = TInt if isinstance(v, int) and not isinstance(v, bool) else v
    for k in keys:
        base.setdefault(k, TInt)
    for k in keys:
        fields = {kk: vv for kk, vv in base.items() if kk != k}
        contract("%s._parse_config#missing_%s" % (CFG, k), params=dict(self=TObj(CFG), config_dict=TPyDict(fields)), modifies=["self"],
                 raises={"ValueError": dict(when="True", iff=True)}, no_runtime=True, props=["C08"])

# SSE-2 computes one of its parameters with a loop before it reaches the primitive names: only termination-free facts are needed
contract("schemes/CGKO06/SSE2/config.py:determine_param_max", params=dict(max_document_size=TInt), returns=TInt,
         loops={0: dict(invariant=["curr_keyword_size >= 1"])}, no_runtime=True, props=["C08"])
