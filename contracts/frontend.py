"""Contracts for the front end (C11: client state flags; C10/C13: server handlers over a ghost disk)."""
from pyvc.api import *
import z3

CS = "frontend/client/services/service.py:"
ST = CS + "ClientServiceState"
Imp, And, Or, Not = z3.Implies, z3.And, z3.Or, z3.Not
x, p = z3.Ints("x p")

# one-bit facts: for a 5-bit state s and a bit mask 2^p:   test / set / clear  in terms of div and mod
flag = specfn("flag", [TInt, TInt], TBool, py=lambda s, p: bool((s >> p) & 1), doc="bit p of s")
flag.define = lambda s, p: (s / (z3.IntVal(2 ** p.as_long()) if z3.is_int_value(p) else pow2(p))) % 2 == 1
BITS5 = {"config_created": 0, "config_uploaded": 1, "key_created": 2, "db_encrypted": 3, "db_uploaded": 4}
for name_, b_ in BITS5.items():
    contract(ST + ".is_" + name_, params=dict(state_bit_set=TInt), returns=TBool,
             requires=["0 <= state_bit_set", "state_bit_set < 32"],
             ensures=["result == flag(state_bit_set, %d)" % b_], props=["C11"])
    contract(ST + ".set_" + name_, params=dict(state_bit_set=TInt, **{"is_" + name_: TBool}), returns=TInt,
             requires=["0 <= state_bit_set", "state_bit_set < 32"],
             ensures=["0 <= result", "result < 32", "flag(result, %d) == is_%s" % (b_, name_)] +
                     ["flag(result, %d) == flag(state_bit_set, %d)" % (o, o) for o in range(5) if o != b_],
             props=["C11"])

# ---- client Service: the part of its state the workflow guards depend on -------------------------------------------
CSV = CS + "Service"
CSVT = TObj(CSV)
klass(CSV, fields=dict(sid=TStr, service_meta=TPyDict(dict(state=TInt))),
      invariant=["0 <= self.service_meta['state']", "self.service_meta['state'] < 32"])
inline(CSV + ".get_current_service_state", CSV + ".set_current_service_state", CSV + "._store_service_meta")
NEW = "self.service_meta['state']"
OLD = "old(self.service_meta['state'])"
contract(CSV + ".update_current_client_service_state_by_server_service_state",
         params=dict(self=CSVT, service_state=TInt), modifies=["self"],
         ensures=["0 <= %s" % NEW, "%s < 32" % NEW,
                  # the two upload flags mirror the server state; the three local flags are never touched
                  "implies(0 <= service_state and service_state <= 2, flag(%s, 1) == (service_state >= 1))" % NEW,
                  "implies(0 <= service_state and service_state <= 2, flag(%s, 4) == (service_state == 2))" % NEW,
                  "implies(service_state < 0 or service_state > 2, %s == %s)" % (NEW, OLD),
                  "flag(%s, 0) == flag(%s, 0)" % (NEW, OLD), "flag(%s, 2) == flag(%s, 2)" % (NEW, OLD),
                  "flag(%s, 3) == flag(%s, 3)" % (NEW, OLD)],
         no_runtime=True, props=["C11", "C13", "C09"])

# ---- server: handlers over a ghost disk (D1) and a ghost message trace ----------------------------------------------
from pyvc.engine import Opaque, Ref, SV, Unsupported, PyRaise, MaybeNone
from pyvc import externals
SS = "frontend/server/services/service.py:"
SV_ = SS + "Service"
SVT = TObj(SV_)
SFM = "frontend/server/services/file_manager.py:"
STRI = TDict(TStr, TInt)
STRB = TDict(TStr, TBytes)
ghost_var("srv_dir", STRI)     # sid -> 1 when the service directory exists
ghost_var("srv_meta", STRI)    # sid -> state recorded in <sid>/service_meta (absent: no record)
ghost_var("srv_cfg", STRB)     # sid -> contents of <sid>/config.json (the pickled config as received, abstractly)
ghost_var("srv_edb", STRB)     # sid -> contents of <sid>/edb
unpickled_bytes = specfn("unpickled_bytes", [TBytes], TBytes, doc="the (abstract) object a pickled message content denotes")
unpickled_bytes.decl = externals.pickle_fns(TBytes)[1]
TRACE = TList(TTuple(TStr, TBytes))
ghost_var("sent", TRACE)       # messages handed to the websocket: (type, content)
reply_ok = specfn("reply_ok", [TBytes], TBool, doc="the pickled reply carries ok == True")
reply_state = specfn("reply_state", [TBytes], TInt, doc="the state field of a pickled init echo")
OI = sort(TOpt(TInt))
OBy = sort(TOpt(TBytes))


def _g(E, name):
    return E.ghostv[name]


def _has(d, k):
    return z3.Not(sort(TOpt(d.ty.val)).is_none(z3.Select(d.t, k)))


def _put(E, name, k, v):
    d = E.ghostv[name]
    so = sort(TOpt(d.ty.val))
    E.ghostv[name] = SV(z3.Store(d.t, k, so.some(v)), d.ty)


def _sid(E, v):
    return E.to_sv(v, TStr).t


def _crash_point(E, what, node):
    """a crash may happen right after this file-system mutation: the function's crash invariant (a statement about the
    disk only) is an obligation here, so it holds at every prefix of the handler's effect sequence"""
    c = E.frames[0].contract if E.frames else None
    if c is None or not c.crash_invariant or E.spec_mode:
        return
    env = dict(E.frames[0].env)
    env.update(getattr(E, "entry_env", {}))
    for inv in c.crash_invariant:
        E.oblige("crash_prefix", E.spec_bool(inv, env, old=True), getattr(node, "lineno", 0), "after %s: %s" % (what, inv))


@effect("toolkit/logger/logger.py:getSSELogger", "G1: logging has no effect on program state and does not raise")
def _logger(E, a, kw, fr, node):
    return Opaque("logger")


@effect(SV_ + ".short_sid", "display helper")
def _short(E, a, kw, fr, node):
    return Opaque("short sid")


@effect(SFM + "check_sid_folder_exist", "D1: a service exists once <sid>/service_meta exists")
def _exists(E, a, kw, fr, node):
    return SV(_has(_g(E, "srv_meta"), _sid(E, a[0])), TBool)


@effect(SFM + "create_sid_folder", "D1: mkdir(exist_ok=True)")
def _mkdir(E, a, kw, fr, node):
    _put(E, "srv_dir", _sid(E, a[0]), z3.IntVal(1))
    _crash_point(E, "create_sid_folder", node)


def _guarded_put(E, name, sid, val):
    d = E.ghostv[name]
    so = sort(TOpt(d.ty.val))
    has_dir = _has(_g(E, "srv_dir"), sid)
    E.ghostv[name] = SV(z3.If(has_dir, z3.Store(d.t, sid, so.some(val)), d.t), d.ty)


@effect(SFM + "write_service_config", "D1: writes <sid>/config.json when the directory exists")
def _wcfg(E, a, kw, fr, node):
    _guarded_put(E, "srv_cfg", _sid(E, a[0]), E.to_sv(a[1], TBytes).t)
    _crash_point(E, "write_service_config", node)


@effect(SFM + "write_service_meta", "D1: replaces <sid>/service_meta atomically when the directory exists")
def _wmeta(E, a, kw, fr, node):
    st = E.get_subscript(a[1], "state", node, fr)
    from pyvc.engine import z3_int
    _guarded_put(E, "srv_meta", _sid(E, a[0]), z3_int(st))
    _crash_point(E, "write_service_meta", node)


@effect(SFM + "write_encrypted_database", "D1: writes <sid>/edb when the directory exists")
def _wedb(E, a, kw, fr, node):
    _guarded_put(E, "srv_edb", _sid(E, a[0]), E.to_sv(a[1], TBytes).t)
    _crash_point(E, "write_encrypted_database", node)


@effect(SS + "Service.send_message", "T1: the message is handed to the websocket (ghost trace `sent`)")
def _send(E, a, kw, fr, node):
    typ = E.to_sv(a[1], TStr)
    content = a[2] if len(a) > 2 else kw.get("content")
    if isinstance(content, Opaque):
        content = E.fresh("opaque_content", TBytes)
    c = E.to_sv(content, TBytes)
    tr = E.ghostv["sent"]
    tt = sort(TTuple(TStr, TBytes))
    E.ghostv["sent"] = SV(z3.Concat(tr.t, z3.Unit(tt.mk(typ.t, c.t))), tr.ty)


_orig_dumps = externals.EXT["pickle.dumps"]


def _dumps_reply(E, a, kw, fr, node):
    v = a[0]
    if isinstance(v, Ref) and E.cell(v)[0] == "pydict" and "ok" in E.cell(v)[1]:
        r = E.fresh("reply", TBytes)
        ok = E.cell(v)[1]["ok"]
        E.assume(reply_ok(r.t) == E.truth_term(ok))
        if "state" in E.cell(v)[1]:
            from pyvc.engine import z3_int as _zi
            E.assume(reply_state(r.t) == _zi(E.cell(v)[1]["state"]))
        return r
    return _orig_dumps(E, a, kw, fr, node)


externals.EXT["pickle.dumps"] = _dumps_reply
for nm_ in ("_load_sse_scheme", "_load_sse_encrypted_database", "_load_sse_module", "_load_config_object"):
    effect(SV_ + "." + nm_, "trusted: lazy loaders have no effect on the disk or the trace")(lambda E, a, kw, fr, node: None)

klass(SV_, fields=dict(sid=TStr, service_meta=TPyDict(dict(state=TInt)), config=TAny, websocket=TAny, sse_module_loader=TAny,
                       config_object=TAny, sse_scheme=TAny, edb=TAny),
      invariant=["0 <= self.service_meta['state']", "self.service_meta['state'] <= 2"],
      consts={"sse_module_loader": MaybeNone("loader"), "config_object": MaybeNone("cfg"), "sse_scheme": MaybeNone("scheme"),
              "edb": MaybeNone("edb"), "websocket": MaybeNone("ws"), "config": MaybeNone("config")})
inline(SV_ + ".get_current_service_state", SV_ + "._store_service_meta", SV_ + ".send_init_echo")
ST_ = "self.service_meta['state']"
SRV_GHOSTS = ["srv_dir", "srv_meta", "srv_cfg", "srv_edb", "sent"]
# Inv: the in-memory state is the recorded state (0 <=> no record); files exist for the states that need them
INV = ["(self.sid in srv_meta) == (%s != 0)" % ST_, "implies(%s != 0, srv_meta[self.sid] == %s)" % (ST_, ST_),
       "implies(%s != 0, self.sid in srv_dir)" % ST_, "implies(%s != 0, self.sid in srv_cfg)" % ST_,
       "implies(%s == 2, self.sid in srv_edb)" % ST_]
# crash invariant (a statement about the disk only): whatever prefix of a handler's file-system mutations has happened, the
# recorded state never promises a file that is not there -- this is what the loader's precondition DISK_OK needs
SRV_CRASH = ["implies(self.sid in srv_meta, 0 < srv_meta[self.sid] and srv_meta[self.sid] <= 2 and self.sid in srv_dir and self.sid in srv_cfg)",
             "implies(self.sid in srv_meta and srv_meta[self.sid] == 2, self.sid in srv_edb)"]
UNCHANGED = ["srv_meta == old(srv_meta)", "srv_cfg == old(srv_cfg)", "srv_edb == old(srv_edb)", "srv_dir == old(srv_dir)"]
REFUSED = UNCHANGED + ["%s == old(%s)" % (ST_, ST_), "len(sent) == len(old(sent)) + 1", "not reply_ok(sent[len(sent) - 1][1])"]

contract(SV_ + ".handle_upload_config", crash_invariant=SRV_CRASH, params=dict(self=SVT, config_bytes=TBytes, raw_msg_dict=TAny), modifies=["self"],
         requires=INV, locals={"config": TBytes},
         raises={"ValueError": dict(when="old(%s) != 0" % ST_, iff=True)},
         raise_ensures={"ValueError": REFUSED + ["sent[len(sent) - 1][0] == 'config'"]},
         ensures=INV + ["%s == 1" % ST_, "srv_cfg == dput(old(srv_cfg), self.sid, unpickled_bytes(config_bytes))",
                        "srv_meta == dput(old(srv_meta), self.sid, 1)", "srv_edb == old(srv_edb)",
                        "len(sent) == len(old(sent)) + 1", "sent[len(sent) - 1][0] == 'config'", "reply_ok(sent[len(sent) - 1][1])"],
         no_runtime=True, modifies_ghost=SRV_GHOSTS, props=["C10", "C13", "C09"])
contract(SV_ + ".handle_upload_encrypted_database", crash_invariant=SRV_CRASH, params=dict(self=SVT, edb_bytes=TBytes, raw_msg_dict=TAny), modifies=["self"],
         requires=INV,
         raises={"ValueError": dict(when="old(%s) != 1" % ST_, iff=True)},
         raise_ensures={"ValueError": REFUSED + ["sent[len(sent) - 1][0] == 'upload_edb'"]},
         ensures=INV + ["%s == 2" % ST_, "srv_edb == dput(old(srv_edb), self.sid, edb_bytes)",
                        "srv_meta == dput(old(srv_meta), self.sid, 2)", "srv_cfg == old(srv_cfg)",
                        "len(sent) == len(old(sent)) + 1", "sent[len(sent) - 1][0] == 'upload_edb'", "reply_ok(sent[len(sent) - 1][1])"],
         no_runtime=True, modifies_ghost=SRV_GHOSTS, props=["C10", "C13", "C09"])
contract(SV_ + ".handle_search_token", crash_invariant=SRV_CRASH, params=dict(self=SVT, token_bytes=TBytes, raw_msg_dict=TPyDict(dict(token_digest=TBytes))),
         modifies=["self"], requires=INV,
         raises={"ValueError": dict(when="old(%s) != 2" % ST_, iff=True)},
         raise_ensures={"ValueError": REFUSED + ["sent[len(sent) - 1][0] == 'result'"]},
         ensures=INV + UNCHANGED + ["%s == 2" % ST_, "len(sent) == len(old(sent)) + 1", "sent[len(sent) - 1][0] == 'result'"],
         no_runtime=True, modifies_ghost=SRV_GHOSTS, props=["C10", "C09"])
contract(SV_ + ".close_service", crash_invariant=SRV_CRASH, params=dict(self=SVT), modifies=["self"], requires=INV,
         ensures=INV + UNCHANGED + ["%s == old(%s)" % (ST_, ST_), "sent == old(sent)"], no_runtime=True, modifies_ghost=SRV_GHOSTS, props=["C10", "C13"])


# ---- the loader: a (re)connecting client is told exactly the recorded state, and nothing on disk changes ------------------------
@effect(SFM + "read_service_meta", "D1: reads <sid>/service_meta (the recorded state)")
def _rmeta(E, a, kw, fr, node):
    d = E.ghostv["srv_meta"]
    st = SV(sort(TOpt(TInt)).val(z3.Select(d.t, _sid(E, a[0]))), TInt)
    return E.alloc(("pydict", {"state": st}))


@effect(SFM + "read_service_config", "D1: reads <sid>/config.json")
def _rcfg(E, a, kw, fr, node):
    return Opaque("config")


DISK_OK = ["implies(sid in srv_meta, 0 < srv_meta[sid] and srv_meta[sid] <= 2 and sid in srv_dir and sid in srv_cfg)",
           "implies(sid in srv_meta and srv_meta[sid] == 2, sid in srv_edb)"]
contract(SV_ + ".__init__", params=dict(self=SVT, sid=TStr, websocket=TAny), modifies=["self"], requires=DISK_OK,
         ensures=INV + ["self.sid == sid", "%s == (srv_meta[sid] if sid in srv_meta else 0)" % ST_,
                        "len(sent) == len(old(sent)) + 1", "sent[len(sent) - 1][0] == 'init'", "reply_ok(sent[len(sent) - 1][1])",
                        "reply_state(sent[len(sent) - 1][1]) == %s" % ST_],
         no_runtime=True, modifies_ghost=["sent"], props=["C10", "C13", "C09"])


# =====================================================================================================================
# client: the synchronous handlers over a ghost client disk (C11: prerequisites, refusals change nothing, key written once)
# =====================================================================================================================
CFM = "frontend/client/services/file_manager.py:"
for g_ in ("cli_meta",):
    ghost_var(g_, STRI)      # sid -> state recorded in <sid>/service_meta
ghost_var("cli_cfg", STRI)   # sid -> 1 when <sid>/config.json exists
ghost_var("cli_key", STRB)   # sid -> contents of <sid>/key
ghost_var("cli_edb", STRB)   # sid -> contents of <sid>/edb (the local copy of the index)
CLI_GHOSTS = ["cli_meta", "cli_cfg", "cli_key", "cli_edb"]


def _cput(E, name, sid, val):
    d = E.ghostv[name]
    E.ghostv[name] = SV(z3.Store(d.t, sid, sort(TOpt(d.ty.val)).some(val)), d.ty)


def _as_bytes(E, v, what):
    return E.fresh(what, TBytes) if isinstance(v, Opaque) else E.to_sv(v, TBytes)


@effect(CFM + "write_service_meta", "D1: replaces <sid>/service_meta atomically")
def _c_wmeta(E, a, kw, fr, node):
    from pyvc.engine import z3_int
    _cput(E, "cli_meta", _sid(E, a[0]), z3_int(E.get_subscript(a[1], "state", node, fr)))
    _crash_point(E, "write_service_meta", node)


@effect(CFM + "write_key", "D1: writes <sid>/key")
def _c_wkey(E, a, kw, fr, node):
    _cput(E, "cli_key", _sid(E, a[0]), _as_bytes(E, a[1], "key_bytes").t)
    _crash_point(E, "write_key", node)


@effect(CFM + "write_encrypted_database", "D1: writes <sid>/edb")
def _c_wedb(E, a, kw, fr, node):
    _cput(E, "cli_edb", _sid(E, a[0]), _as_bytes(E, a[1], "edb_bytes").t)
    _crash_point(E, "write_encrypted_database", node)


@effect(CFM + "delete_encrypted_database", "D1: unlinks <sid>/edb (missing_ok)")
def _c_dedb(E, a, kw, fr, node):
    d = E.ghostv["cli_edb"]
    E.ghostv["cli_edb"] = SV(z3.Store(d.t, _sid(E, a[0]), sort(TOpt(TBytes)).none), d.ty)
    _crash_point(E, "delete_encrypted_database", node)


@effect(CFM + "read_key", "D1: reads <sid>/key")
def _c_rkey(E, a, kw, fr, node):
    d = E.ghostv["cli_key"]
    return SV(sort(TOpt(TBytes)).val(z3.Select(d.t, _sid(E, a[0]))), TBytes)


for nm_ in ("_load_sse_scheme", "_load_sse_encrypted_database", "_load_sse_module", "_load_config_object", "_load_sse_key"):
    effect(CSV + "." + nm_, "trusted: lazy loaders read files and build scheme objects; no effect on the client disk")(lambda E, a, kw, fr, node: None)
effect(CSV + ".short_sid", "display helper")(lambda E, a, kw, fr, node: Opaque("short sid"))
_orig_loads = externals.EXT["pickle.loads"]


def _loads_echo(E, a, kw, fr, node):
    """client side: an echo message is a pickled dict; its `ok` field is the abstract predicate reply_ok of the bytes"""
    if E.frames and E.frames[0].key.startswith(CSV + ".handle_upload") and E.frames[0].key.split("#")[0].endswith("_echo"):
        b = E.to_sv(a[0], TBytes)
        return E.alloc(("pydict", {"ok": SV(reply_ok(b.t), TBool), "reason": ""}))
    return _orig_loads(E, a, kw, fr, node)


externals.EXT["pickle.loads"] = _loads_echo
CLASSES[CSV].fields.update(dict(config=TAny, config_object=TAny, sse_scheme=TAny, sse_module_loader=TAny, edb=TAny, key=TAny, websocket=TAny))
# optional fields the contracts say nothing about: each may be None or an object (one unconstrained boolean per field)
CLASSES[CSV].consts = {"config": MaybeNone("config"), "config_object": MaybeNone("cfg"), "sse_scheme": MaybeNone("scheme"),
                       "sse_module_loader": MaybeNone("loader"), "edb": MaybeNone("edb"), "key": MaybeNone("key"),
                       "websocket": MaybeNone("ws")}
CST = "self.service_meta['state']"
OCST = "old(self.service_meta['state'])"
# client invariant: flags mirror the files -- config created <=> a state record exists (and equals the in-memory state),
# key created <=> key file exists, index built and not yet uploaded => local index file exists
CINV = ["flag(%s, 0) == (self.sid in cli_meta)" % CST, "implies(self.sid in cli_meta, cli_meta[self.sid] == %s)" % CST,
        "flag(%s, 2) == (self.sid in cli_key)" % CST, "implies(flag(%s, 3) and not flag(%s, 4), self.sid in cli_edb)" % (CST, CST),
        "0 <= %s" % CST, "%s < 32" % CST]
CLI_CRASH = ["implies(self.sid in cli_meta and flag(cli_meta[self.sid], 2), self.sid in cli_key)",
             "implies(self.sid in cli_meta and flag(cli_meta[self.sid], 3) and not flag(cli_meta[self.sid], 4), self.sid in cli_edb)"]
C_UNCHANGED = ["cli_meta == old(cli_meta)", "cli_cfg == old(cli_cfg)", "cli_key == old(cli_key)", "cli_edb == old(cli_edb)",
               "%s == %s" % (CST, OCST)]


def _only_bit(b):
    return ["flag(%s, %d)" % (CST, b)] + ["flag(%s, %d) == flag(%s, %d)" % (CST, o, OCST, o) for o in range(5) if o != b]


contract(CSV + ".handle_create_key", crash_invariant=CLI_CRASH, params=dict(self=CSVT), modifies=["self"], requires=CINV,
         raises={"ValueError": dict(when="flag(%s, 2) or not flag(%s, 0)" % (OCST, OCST), iff=True)},
         raise_ensures={"ValueError": C_UNCHANGED},
         ensures=CINV + _only_bit(2) + ["not (self.sid in old(cli_key))",        # a key is only ever written where none existed
                                        "cli_meta == dput(old(cli_meta), self.sid, %s)" % CST, "cli_edb == old(cli_edb)",
                                        "cli_cfg == old(cli_cfg)", "self.sid == old(self.sid)"],
         no_runtime=True, modifies_ghost=["cli_meta", "cli_key"], props=["C11", "C13"])
contract(CSV + ".handle_encrypt_database", crash_invariant=CLI_CRASH, params=dict(self=CSVT, database=TAny), modifies=["self"], requires=CINV,
         raises={"ValueError": dict(when="flag(%s, 3) or not flag(%s, 0) or not flag(%s, 2)" % (OCST, OCST, OCST), iff=True)},
         raise_ensures={"ValueError": C_UNCHANGED},
         ensures=CINV + _only_bit(3) + ["cli_key == old(cli_key)", "self.sid in cli_edb",
                                        "cli_meta == dput(old(cli_meta), self.sid, %s)" % CST, "cli_cfg == old(cli_cfg)",
                                        "self.sid == old(self.sid)"],
         no_runtime=True, modifies_ghost=["cli_meta", "cli_edb"], props=["C11", "C13"])
contract(CSV + ".handle_upload_config_echo", crash_invariant=CLI_CRASH, params=dict(self=CSVT, content_bytes=TBytes), modifies=["self"],
         requires=CINV + ["flag(%s, 0)" % CST],
         ensures=CINV + ["implies(not reply_ok(content_bytes), %s == %s and cli_meta == old(cli_meta))" % (CST, OCST),
                         "implies(reply_ok(content_bytes), flag(%s, 1) and cli_meta == dput(old(cli_meta), self.sid, %s))" % (CST, CST)] +
                 ["flag(%s, %d) == flag(%s, %d)" % (CST, o, OCST, o) for o in (0, 2, 3, 4)] +
                 ["cli_key == old(cli_key)", "cli_edb == old(cli_edb)", "cli_cfg == old(cli_cfg)", "self.sid == old(self.sid)"],
         no_runtime=True, modifies_ghost=["cli_meta"], props=["C11", "C13", "C09"])
contract(CSV + ".handle_upload_encrypted_database_echo", crash_invariant=CLI_CRASH, params=dict(self=CSVT, content_bytes=TBytes), modifies=["self"],
         requires=CINV + ["flag(%s, 0)" % CST],
         ensures=CINV + ["implies(not reply_ok(content_bytes), %s == %s and cli_meta == old(cli_meta) and cli_edb == old(cli_edb))" % (CST, OCST),
                         "implies(reply_ok(content_bytes), flag(%s, 4) and cli_meta == dput(old(cli_meta), self.sid, %s) "
                         "and cli_edb == ddel(old(cli_edb), self.sid))" % (CST, CST)] +
                 ["flag(%s, %d) == flag(%s, %d)" % (CST, o, OCST, o) for o in (0, 1, 2, 3)] +
                 ["cli_key == old(cli_key)", "cli_cfg == old(cli_cfg)", "self.sid == old(self.sid)"],
         no_runtime=True, modifies_ghost=["cli_meta", "cli_edb"], props=["C11", "C13", "C09"])


# ---- handle_create_config: creating a service never touches an existing one -----------------------------------------
# (no crash-prefix obligations here: they would need the disk-wide invariant 'every record lies in an existing directory' for the
#  not yet known service id, which the contract language cannot quantify; the crash stand-in of C13 covers this step)
ghost_var("cli_dir", STRI)       # sid -> 1 when the client's directory <sid> exists
CS_MOD = "frontend/client/services/service.py:"
cfg_valid = specfn("cfg_valid", [TBytes], TBool, doc="the chosen scheme accepts the configuration (abstract)")


@effect(CS_MOD + "_check_config_valid", "trusted: decides whether the scheme can be instantiated; no effect on the client disk")
def _c_valid(E, a, kw, fr, node):
    return SV(cfg_valid(E.to_sv(a[0], TBytes).t), TBool)


effect(CS_MOD + "_add_salt_to_config", "trusted: adds a random salt to the caller's dict; no effect on the client disk")(lambda E, a, kw, fr, node: None)


@effect(CS_MOD + "_calculate_sid_by_config_content", "trusted: the service id is a hash of the salted configuration (some string)")
def _c_sid(E, a, kw, fr, node):
    return E.fresh("new_sid", TStr)


@effect(CFM + "create_sid_folder", "D1: mkdir() -- FileExistsError iff the directory exists (proved in contracts/filemgr.py)")
def _c_mkdir(E, a, kw, fr, node):
    s = _sid(E, a[0])
    E.may_raise("FileExistsError", _has(_g(E, "cli_dir"), s), getattr(node, "lineno", 0), "create_sid_folder of an existing directory")
    _cput(E, "cli_dir", s, z3.IntVal(1))
    _crash_point(E, "create_sid_folder", node)


@effect(CFM + "write_service_config", "D1: writes <sid>/config.json")
def _c_wcfg(E, a, kw, fr, node):
    _cput(E, "cli_cfg", _sid(E, a[0]), z3.IntVal(1))
    _crash_point(E, "write_service_config", node)


C_UNCHANGED_ALL = C_UNCHANGED + ["cli_dir == old(cli_dir)", "self.sid == old(self.sid)"]
contract(CSV + ".handle_create_config", params=dict(self=CSVT, config=TBytes), returns=TStr, modifies=["self"], requires=CINV,
         raises={"ValueError": dict(when="flag(%s, 0) or not cfg_valid(config)" % OCST, iff=True),
                 "FileExistsError": "not flag(%s, 0) and cfg_valid(config)" % OCST},
         # a refusal -- also the one that comes from the directory already being there -- leaves disk and object as they were
         # (the in-memory object has already taken the new service id when the directory turns out to exist; the disk has not)
         raise_ensures={"ValueError": C_UNCHANGED_ALL, "FileExistsError": C_UNCHANGED + ["cli_dir == old(cli_dir)"]},
         ensures=["result == self.sid", "not (self.sid in old(cli_dir))",          # only ever a directory that did not exist
                  "cli_dir == dput(old(cli_dir), self.sid, 1)", "cli_cfg == dput(old(cli_cfg), self.sid, 1)",
                  "cli_meta == dput(old(cli_meta), self.sid, %s)" % CST, "flag(%s, 0)" % CST,
                  "cli_key == old(cli_key)", "cli_edb == old(cli_edb)"] +       # no key, no index of ANY service is touched
                 ["flag(%s, %d) == flag(%s, %d)" % (CST, o, OCST, o) for o in (1, 2, 3, 4)],
         no_runtime=True, modifies_ghost=["cli_dir", "cli_cfg", "cli_meta"], props=["C11", "C13"])
