"""CJJ14.PiPtr: the construction under contract (C01 / C02 / C05): `_Enc |- Repr`, `Repr |- _Search == DB[w]`.

Array positions are chosen by `random.sample`; the ghost variable `sample0` names the sampled permutation S, and the block
number g (in processing order) is stored at S[len(S) - 1 - g] (the list is consumed from its end), so the representation
predicate is closed-form in S: no existential quantifier is needed.
"""
from pyvc.api import *
from pyvc.engine import ClassRef
from contracts.sse_common import *
import contracts.structures_all as SA
import contracts.producers_all as PA
from contracts.pipack import i2b_min, blocks_upto, valid_db, _dkD, _kpD, B01, B02
from contracts.toolkit_bytes import part, part_from, parse, nz_upto, all_len

S = "schemes/CJJ14/PiPtr/"
CFG = S + "config.py:PiPtrConfig"
KEY = S + "structures.py:PiPtrKey"
EDB = S + "structures.py:PiPtrEncryptedDatabase"
TOK = S + "structures.py:PiPtrToken"
RES = S + "structures.py:PiPtrResult"
SCH = S + "construction.py:PiPtr"
CFGT, KEYT, EDBT, TOKT, REST, SCHT = (TObj(x) for x in (CFG, KEY, EDB, TOK, RES, SCH))
OBL = TList(TOpt(TBytes))
OBLS = sort(OBL)
IL = TList(TInt)
ILS = sort(IL)

klass(CFG, fields=dict(param_lambda=TInt, param_B=TInt, param_b=TInt, prf_f_output_length=TInt, param_identifier_size=TInt, prf_f=PRFT, ske=AEST),
      invariant=["self.prf_f.key_length == self.param_lambda", "self.prf_f.output_length == self.prf_f_output_length",
                 "self.prf_f.message_length == -1", "self.prf_f.hash_func_name == 'sha1'",
                 "self.ske.key_length == self.param_lambda", "self.ske.message_length == -1", "self.ske.cipher_length == -1",
                 "self.prf_f_output_length > 0", "self.param_lambda >= 0", "self.prf_f_output_length >= 0"])
klass(SCH, fields=dict(config=CFGT))
klass(EDB, fields=dict(D=TBL, A=OBL), construct="PiPtrEncryptedDatabase({D}, {A})")

# ---- spec functions ------------------------------------------------------------------------------------------------
db_, w_ = z3.Const("pp_db", sort(DBT)), z3.Const("pp_w", BYTES)
k_, B_, b_ = z3.Ints("pp_k pp_B pp_b")


cdivf = specfn("cdivf", [TInt, TInt], TInt, py=lambda a, c: -(-a // c) if c > 0 else 0,
               doc="ceil(a / c) for c > 0; a named function so that it is unfolded at ground terms only (a division by a symbolic "
                   "divisor under a quantifier sends the solvers into nonlinear arithmetic)")
cdivf.define = lambda a, c: (a + c - 1) / c


def nblk(DB, w, B):
    return cdivf(Len(db_list(DB, w)), B)


def cdiv(a, c):
    return (a + c - 1) / c


pblocks_upto = specfn("pblocks_upto", [DBT, TInt, TInt, TInt], TInt,
                      py=lambda db, k, B, b: sum(-(-(-(-len(v) // B)) // b) for v in list(db.values())[:max(k, 0)]),
                      doc="number of pointer blocks of the first k keywords")
pblocks_upto.define = lambda db, k, B, b: z3.If(k <= 0, 0, pblocks_upto(db, k - 1, B, b) + cdiv(nblk(db, _dkD(db)[k - 1], B), b))
ne_db = specfn("ne_db", [DBT], TBool, py=lambda db: all(len(v) >= 1 for v in db.values()), doc="every posting list is non-empty")


def _ne_db(DB):
    w = z3.Const("nw_", BYTES)
    return z3.ForAll([w], Imp(db_has(DB, w), Len(db_list(DB, w)) >= 1), patterns=[z3.Select(DB, w)])


ne_db.define = _ne_db
lemma("blocks_mono", [db_, k_, B_], Imp(And(B_ > 0, k_ >= 1), blocks_upto(db_, k_ - 1, B_) <= blocks_upto(db_, k_, B_)), patterns=None,
      uses=["div_lower"], use_inst=[("div_lower", [Len(ODB.val(z3.Select(db_, _dkD(db_)[k_ - 1]))) + B_ - 1, z3.IntVal(0), B_])])
m_ = z3.Int("pp_m")
a_, c_ = z3.Ints("pp_a pp_c")
lemma("cdiv_eq", [a_, c_], Imp(c_ > 0, -((-a_) / c_) == (a_ + c_ - 1) / c_), patterns=None,
      uses=["div_bounds", "mul_mono"],
      use_inst=[("div_bounds", [-a_, c_]), ("div_bounds", [a_ + c_ - 1, c_]),
                ("mul_mono", [(a_ + c_ - 1) / c_, -((-a_) / c_) - 1, c_]), ("mul_mono", [-((-a_) / c_), (a_ + c_ - 1) / c_ - 1, c_])])
xs_, ys_ = z3.Consts("pp_xs pp_ys", ILS)
lemma("psum_frame", [xs_, ys_, k_], Imp(k_ <= Len(xs_), psum_upto(z3.Concat(xs_, ys_), k_) == psum_upto(xs_, k_)),
      patterns=[psum_upto(z3.Concat(xs_, ys_), k_)], induct=("int", k_), inst=[[xs_, ys_, k_ - 1]])
lemma("blocks_nonneg", [db_, k_, B_], Imp(B_ > 0, blocks_upto(db_, k_, B_) >= 0), patterns=[blocks_upto(db_, k_, B_)],
      induct=("int", k_), inst=[[db_, k_ - 1, B_]], uses=["blocks_mono"], use_inst=[("blocks_mono", [db_, k_, B_])])
lemma("blocks_mono2", [db_, k_, m_, B_], Imp(And(B_ > 0, 0 <= k_, k_ <= m_), blocks_upto(db_, k_, B_) <= blocks_upto(db_, m_, B_)), patterns=None,
      induct=("int", m_), inst=[[db_, k_, m_ - 1, B_]], uses=["blocks_mono"], use_inst=[("blocks_mono", [db_, m_, B_])])

ptrl = specfn("ptrl", [IL, TInt, TInt, TInt], BL, py=lambda S, top, k, isz: [S[top - t].to_bytes(isz, "big") for t in range(max(k, 0))],
              doc="the pointers (as isz-byte strings) to the k blocks stored at S[top], S[top-1], ..., S[top-k+1]")
ptrl.define = lambda S, top, k, isz: z3.If(k <= 0, z3.Empty(BLS), z3.Concat(ptrl(S, top, k - 1, isz), z3.Unit(i2b(S[top - (k - 1)], isz))))
S_ = z3.Const("pp_S", ILS)
top_, isz_ = z3.Ints("pp_top pp_isz")
lemma("ptrl_len", [S_, top_, k_, isz_], Len(ptrl(S_, top_, k_, isz_)) == z3.If(k_ <= 0, 0, k_), patterns=[ptrl(S_, top_, k_, isz_)],
      induct=("int", k_), inst=[[S_, top_, k_ - 1, isz_]], auto=True)
lemma("ptrl_all_len", [S_, top_, k_, isz_], Imp(isz_ >= 0, all_len_upto(ptrl(S_, top_, k_, isz_), isz_, k_)), patterns=None,
      induct=("int", k_), inst=[[S_, top_, k_ - 1, isz_]], uses=["ptrl_len", "i2b_len", "all_len_upto_frame"],
      use_inst=[("all_len_upto_frame", [ptrl(S_, top_, k_ - 1, isz_), z3.Unit(i2b(S_[top_ - (k_ - 1)], isz_)), isz_, k_ - 1])])


def pt_core(out, K, DB, l):
    key = prf_kinv(l)
    msg = prf_minv(l)
    km = prf_minv(key)
    w = z3.Extract(km, 1, Len(km) - 1)
    c = b2i(msg)
    core = And(l == prf(SHA1, out, key, msg), key == prf(SHA1, out, K, z3.Concat(B01, w)), db_has(DB, w),
               msg == i2b_min(c))
    return core, w, c


ipay = specfn("ipay", [IL, TInt, DBT, TBytes, TInt, TInt, TInt], BL,
              doc="the pointer blocks of keyword w: its block pointers (blocks of keyword number i sit at S[alen - 2 - blocks before i] and "
                  "downwards), packed b to a block of b * isz bytes.  A named function: unfolded at ground terms only")
ipay.define = lambda S, alen, DB, w, B, b, isz: part(ptrl(S, alen - 2 - blocks_upto(DB, _kpD(DB, w), B), nblk(DB, w, B), isz), b, b * isz)
_ipay = ipay


def _pt_inv(M, out, K, DB, kidx, ccur, B, b, S, alen, isz):
    l = z3.Const("l_", BYTES)
    core, w, c = pt_core(out, K, DB, l)
    ip = _ipay(S, alen, DB, w, B, b, isz)
    okk = And(core, c < cdivf(nblk(DB, w, B), b), Or(_kpD(DB, w) < kidx, And(_kpD(DB, w) == kidx, c < ccur)))
    cell = z3.Select(M, l)
    body = And(Not(OB.is_none(cell)) == okk, Imp(okk, is_enc(prf(SHA1, out, K, z3.Concat(B02, w)), ip[c], OB.val(cell))))
    return z3.ForAll([l], body, patterns=[z3.Select(M, l)])


pt_inv = specfn("pt_inv", [TBL, TInt, TBytes, DBT, TInt, TInt, TInt, TInt, IL, TInt, TInt], TBool,
                doc="the dictionary so far: exactly the labels F(F(K, 1||w), c) of the pointer blocks of the keywords before position kidx "
                    "and of the first ccur pointer blocks of keyword kidx, each holding an encryption under F(K, 2||w) of that pointer block")
pt_inv.define = _pt_inv
pt_repr = specfn("pt_repr", [TBL, TInt, TBytes, DBT, TInt, TInt, IL, TInt], TBool,
                 doc="Repr (dictionary part): D holds exactly the labels F(F(K, 1||w), c) for every keyword w of DB and every pointer-block "
                     "number c of w, each with an encryption under F(K, 2||w) of that pointer block; the pointer width is the byte length of alen - 1")
pt_repr.define = lambda M, out, K, DB, B, b, S, alen: _pt_inv(M, out, K, DB, Len(_dkD(DB)), z3.IntVal(0), B, b, S, alen, (bitlen(alen - 1) + 7) / 8)

VALID_CFG = ["self.config.prf_f_output_length == self.config.param_lambda", "self.config.param_lambda >= 8",
             "self.config.param_B > 0", "self.config.param_b > 0", "self.config.param_identifier_size > 0"]
ARGS = "self.config.param_lambda, {K}, database, {a}, {c}, self.config.param_B, self.config.param_b, sample0, A_len, index_size_in_A"
NB = "blocks_upto(database, {k}, self.config.param_B)"
COMMON = ["is_sample(sample0, 1, A_len)", "A_len == " + NB.format(k="len(database)") + " + 1", "len(sample0) == A_len - 1",
          "index_size_in_A == (bitlen(A_len - 1) + 7) // 8", "len(A) == A_len"]
contract(SCH + "._Enc", modifies_ghost=["rng_n", "sample0"], params=dict(self=SCHT, K=KEYT, database=DBT), returns=EDBT,
         requires=VALID_CFG + ["len(K.K) == self.config.param_lambda", "valid_db(database, self.config.param_identifier_size)", "ne_db(database)"],
         ensures=["pt_repr(dmap(result.D), self.config.param_lambda, K.K, database, self.config.param_B, self.config.param_b, sample0, len(result.A))",
                  "is_sample(sample0, 1, len(result.A))", "len(sample0) == len(result.A) - 1",
                  "len(result.A) == blocks_upto(database, len(database), self.config.param_B) + 1",
                  "len(result.D) == pblocks_upto(database, len(database), self.config.param_B, self.config.param_b)"],
         locals={"L": PL, "A": OBL, "index_list_in_A": BL},
         lemmas=["A2_prf_injective", "A6_prf_len", "lmapf_frame", "distinct_frame", "dec_enc", "blocks_mono", "blocks_mono2", "ptrl_len",
                 "bitlen_bound", "pow2_mono", "R1_sample_nth", "psum_frame", "blocks_nonneg", "cdiv_eq", "ptrl_all_len"],
         loops={0: dict(elem=TInt, invariant=["len(_acc) == it", "psum_upto(_acc, it) == " + NB.format(k="it")],
                        hints=[("cdiv_eq", ["len(database[dkeys(database)[it]])", "self.config.param_B"])]),
                1: dict(invariant=COMMON + [
                    "available_pos_list == sample0[:len(available_pos_list)]", "len(available_pos_list) == A_len - 1 - " + NB.format(k="it") + "",
                    "pt_inv(lmapf(L, len(L)), " + ARGS.format(K="K", a="it", c="0") + ")",
                    "distinct_upto(L, len(L))", "len(L) == pblocks_upto(database, it, self.config.param_B, self.config.param_b)"],
                    hints=[("blocks_mono2", ["database", "it + 1", "len(database)", "self.config.param_B"])]),
                2: dict(invariant=COMMON + [
                    "available_pos_list == sample0[:len(available_pos_list)]", "len(available_pos_list) == A_len - 1 - " + NB.format(k="_it1") + " - it",
                    "file_id_block_list == part(database[keyword], self.config.param_B, self.config.param_B * self.config.param_identifier_size)",
                    "len(file_id_block_list) == (len(database[keyword]) + self.config.param_B - 1) // self.config.param_B",
                    NB.format(k="_it1 + 1") + " <= " + NB.format(k="len(database)"),
                    "index_list_in_A == ptrl(sample0, A_len - 2 - " + NB.format(k="_it1") + ", it, index_size_in_A)",
                    "K1 == prf('sha1', self.config.param_lambda, K, b'\\x01' + keyword)",
                    "K2 == prf('sha1', self.config.param_lambda, K, b'\\x02' + keyword)"],
                    hints=[("bitlen_bound", ["A_len - 1"]), ("pow2_mono", ["bitlen(A_len - 1)", "8 * index_size_in_A"]),
                           ("R1_sample_nth", ["sample0", "1", "A_len", "len(available_pos_list) - 1"])],
                    exit_hints=[("ptrl_all_len", ["sample0", "A_len - 2 - " + NB.format(k="_it1"), "it", "index_size_in_A"])]),
                3: dict(invariant=COMMON + [
                    "available_pos_list == sample0[:len(available_pos_list)]", "len(available_pos_list) == A_len - 1 - " + NB.format(k="_it1 + 1") + "",
                    "pt_inv(lmapf(L, len(L)), " + ARGS.format(K="K", a="_it1", c="it") + ")",
                    "distinct_upto(L, len(L))", "len(L) == pblocks_upto(database, _it1, self.config.param_B, self.config.param_b) + it",
                    "index_block_list == ipay(sample0, A_len, database, keyword, self.config.param_B, self.config.param_b, index_size_in_A)",
                    "len(index_block_list) == cdivf(cdivf(len(database[keyword]), self.config.param_B), self.config.param_b)",
                    "K1 == prf('sha1', self.config.param_lambda, K, b'\\x01' + keyword)",
                    "K2 == prf('sha1', self.config.param_lambda, K, b'\\x02' + keyword)"])},
         no_runtime=True, props=["C01", "C02", "C05"])
