"""CJJ14.PiPtr: the construction under contract (C01 / C02 / C05): `_Enc |- Repr`, `Repr |- _Search == DB[w]`.

Array positions are chosen by `random.sample`; the ghost variable `sample0` names the sampled permutation S, and the block
number g (in processing order) is stored at S[len(S) - 1 - g] (the list is consumed from its end), so the representation
predicate is closed-form in S: no existential quantifier is needed.
"""
from pyvc.api import *
from pyvc.engine import ClassRef
from contracts.sse_common import *
import contracts.structures_all as SA
import contracts.producers_all as PA
from contracts.pipack import i2b_min, blocks_upto, valid_db, _dkD, _kpD, B01, B02
from contracts.toolkit_bytes import part, part_from, parse, nz_upto, all_len

S = "schemes/CJJ14/PiPtr/"
CFG = S + "config.py:PiPtrConfig"
KEY = S + "structures.py:PiPtrKey"
EDB = S + "structures.py:PiPtrEncryptedDatabase"
TOK = S + "structures.py:PiPtrToken"
RES = S + "structures.py:PiPtrResult"
SCH = S + "construction.py:PiPtr"
CFGT, KEYT, EDBT, TOKT, REST, SCHT = (TObj(x) for x in (CFG, KEY, EDB, TOK, RES, SCH))
OBL = TList(TOpt(TBytes))
OBLS = sort(OBL)
IL = TList(TInt)
ILS = sort(IL)

klass(CFG, fields=dict(param_lambda=TInt, param_B=TInt, param_b=TInt, prf_f_output_length=TInt, param_identifier_size=TInt, prf_f=PRFT, ske=AEST),
      invariant=["self.prf_f.key_length == self.param_lambda", "self.prf_f.output_length == self.prf_f_output_length",
                 "self.prf_f.message_length == -1", "self.prf_f.hash_func_name == 'sha1'",
                 "self.ske.key_length == self.param_lambda", "self.ske.message_length == -1", "self.ske.cipher_length == -1",
                 "self.prf_f_output_length > 0", "self.param_lambda >= 0", "self.prf_f_output_length >= 0"])
klass(SCH, fields=dict(config=CFGT))
klass(EDB, fields=dict(D=TBL, A=OBL), construct="PiPtrEncryptedDatabase({D}, {A})")

# ---- spec functions ------------------------------------------------------------------------------------------------
db_, w_ = z3.Const("pp_db", sort(DBT)), z3.Const("pp_w", BYTES)
k_, B_, b_ = z3.Ints("pp_k pp_B pp_b")


cdivf = specfn("cdivf", [TInt, TInt], TInt, py=lambda a, c: -(-a // c) if c > 0 else 0,
               doc="ceil(a / c) for c > 0; a named function so that it is unfolded at ground terms only (a division by a symbolic "
                   "divisor under a quantifier sends the solvers into nonlinear arithmetic)")
cdivf.define = lambda a, c: (a + c - 1) / c


def nblk(DB, w, B):
    return cdivf(Len(db_list(DB, w)), B)


def cdiv(a, c):
    return (a + c - 1) / c


pblocks_upto = specfn("pblocks_upto", [DBT, TInt, TInt, TInt], TInt,
                      py=lambda db, k, B, b: sum(-(-(-(-len(v) // B)) // b) for v in list(db.values())[:max(k, 0)]),
                      doc="number of pointer blocks of the first k keywords")
pblocks_upto.define = lambda db, k, B, b: z3.If(k <= 0, 0, pblocks_upto(db, k - 1, B, b) + cdiv(nblk(db, _dkD(db)[k - 1], B), b))
ne_db = specfn("ne_db", [DBT], TBool, py=lambda db: all(len(v) >= 1 for v in db.values()), doc="every posting list is non-empty")


def _ne_db(DB):
    w = z3.Const("nw_", BYTES)
    return z3.ForAll([w], Imp(db_has(DB, w), Len(db_list(DB, w)) >= 1), patterns=[z3.Select(DB, w)])


ne_db.define = _ne_db
lemma("blocks_mono", [db_, k_, B_], Imp(And(B_ > 0, k_ >= 1), blocks_upto(db_, k_ - 1, B_) <= blocks_upto(db_, k_, B_)), patterns=None,
      uses=["div_lower"], use_inst=[("div_lower", [Len(ODB.val(z3.Select(db_, _dkD(db_)[k_ - 1]))) + B_ - 1, z3.IntVal(0), B_])])
m_ = z3.Int("pp_m")
a_, c_ = z3.Ints("pp_a pp_c")
lemma("cdiv_eq", [a_, c_], Imp(c_ > 0, -((-a_) / c_) == (a_ + c_ - 1) / c_), patterns=None,
      uses=["div_bounds", "mul_mono"],
      use_inst=[("div_bounds", [-a_, c_]), ("div_bounds", [a_ + c_ - 1, c_]),
                ("mul_mono", [(a_ + c_ - 1) / c_, -((-a_) / c_) - 1, c_]), ("mul_mono", [-((-a_) / c_), (a_ + c_ - 1) / c_ - 1, c_])])
xs_, ys_ = z3.Consts("pp_xs pp_ys", ILS)
lemma("psum_frame", [xs_, ys_, k_], Imp(k_ <= Len(xs_), psum_upto(z3.Concat(xs_, ys_), k_) == psum_upto(xs_, k_)),
      patterns=[psum_upto(z3.Concat(xs_, ys_), k_)], induct=("int", k_), inst=[[xs_, ys_, k_ - 1]])
lemma("blocks_nonneg", [db_, k_, B_], Imp(B_ > 0, blocks_upto(db_, k_, B_) >= 0), patterns=[blocks_upto(db_, k_, B_)],
      induct=("int", k_), inst=[[db_, k_ - 1, B_]], uses=["blocks_mono"], use_inst=[("blocks_mono", [db_, k_, B_])])
lemma("blocks_mono2", [db_, k_, m_, B_], Imp(And(B_ > 0, 0 <= k_, k_ <= m_), blocks_upto(db_, k_, B_) <= blocks_upto(db_, m_, B_)), patterns=None,
      induct=("int", m_), inst=[[db_, k_, m_ - 1, B_]], uses=["blocks_mono"], use_inst=[("blocks_mono", [db_, m_, B_])])

ptrl = specfn("ptrl", [IL, TInt, TInt, TInt], BL, py=lambda S, top, k, isz: [S[top - t].to_bytes(isz, "big") for t in range(max(k, 0))],
              doc="the pointers (as isz-byte strings) to the k blocks stored at S[top], S[top-1], ..., S[top-k+1]")
ptrl.define = lambda S, top, k, isz: z3.If(k <= 0, z3.Empty(BLS), z3.Concat(ptrl(S, top, k - 1, isz), z3.Unit(i2b(S[top - (k - 1)], isz))))
S_ = z3.Const("pp_S", ILS)
top_, isz_ = z3.Ints("pp_top pp_isz")
lemma("ptrl_len", [S_, top_, k_, isz_], Len(ptrl(S_, top_, k_, isz_)) == z3.If(k_ <= 0, 0, k_), patterns=[ptrl(S_, top_, k_, isz_)],
      induct=("int", k_), inst=[[S_, top_, k_ - 1, isz_]], auto=True)
lemma("ptrl_all_len", [S_, top_, k_, isz_], Imp(isz_ >= 0, all_len_upto(ptrl(S_, top_, k_, isz_), isz_, k_)), patterns=None,
      induct=("int", k_), inst=[[S_, top_, k_ - 1, isz_]], uses=["ptrl_len", "i2b_len", "all_len_upto_frame"],
      use_inst=[("all_len_upto_frame", [ptrl(S_, top_, k_ - 1, isz_), z3.Unit(i2b(S_[top_ - (k_ - 1)], isz_)), isz_, k_ - 1])])


def pt_core(out, K, DB, l):
    key = prf_kinv(l)
    msg = prf_minv(l)
    km = prf_minv(key)
    w = z3.Extract(km, 1, Len(km) - 1)
    c = b2i(msg)
    core = And(l == prf(SHA1, out, key, msg), key == prf(SHA1, out, K, z3.Concat(B01, w)), db_has(DB, w),
               msg == i2b_min(c))
    return core, w, c


ipay = specfn("ipay", [IL, TInt, DBT, TBytes, TInt, TInt, TInt], BL,
              doc="the pointer blocks of keyword w: its block pointers (blocks of keyword number i sit at S[alen - 2 - blocks before i] and "
                  "downwards), packed b to a block of b * isz bytes.  A named function: unfolded at ground terms only")
ipay.define = lambda S, alen, DB, w, B, b, isz: part(ptrl(S, alen - 2 - blocks_upto(DB, _kpD(DB, w), B), nblk(DB, w, B), isz), b, b * isz)
_ipay = ipay


def _pt_inv(M, out, K, DB, kidx, ccur, B, b, S, alen, isz):
    l = z3.Const("l_", BYTES)
    core, w, c = pt_core(out, K, DB, l)
    ip = _ipay(S, alen, DB, w, B, b, isz)
    okk = And(core, c < cdivf(nblk(DB, w, B), b), Or(_kpD(DB, w) < kidx, And(_kpD(DB, w) == kidx, c < ccur)))
    cell = z3.Select(M, l)
    body = And(Not(OB.is_none(cell)) == okk, Imp(okk, is_enc(prf(SHA1, out, K, z3.Concat(B02, w)), ip[c], OB.val(cell))))
    return z3.ForAll([l], body, patterns=[z3.Select(M, l)])


def _pt_body(M, out, K, DB, kidx, ccur, B, b, S, alen, isz, l):
    core, w, c = pt_core(out, K, DB, l)
    ip = _ipay(S, alen, DB, w, B, b, isz)
    okk = And(core, c < cdivf(nblk(DB, w, B), b), Or(_kpD(DB, w) < kidx, And(_kpD(DB, w) == kidx, c < ccur)))
    cell = z3.Select(M, l)
    return And(Not(OB.is_none(cell)) == okk, Imp(okk, is_enc(prf(SHA1, out, K, z3.Concat(B02, w)), ip[c], OB.val(cell))))


def pt_inv_at(kidx_src, ccur_src):
    """dictionary part of Repr as an invariant clause: assumed for every label; proved for one arbitrary (fresh) label, with the instance of
    the invariant assumed at the loop head supplied at that label"""
    def f(E, env):
        ev = lambda src: _tm(E, env, src)
        Lt = E.list_sv(env["L"], PAIR).t
        M = lmapf(Lt, Len(Lt))
        args = [ev(P_OUT), ev("K"), ev("database"), ev(kidx_src), ev(ccur_src), ev(P_B), ev("self.config.param_b"), ev("sample0"), ev("A_len"),
                ev("index_size_in_A")]
        if E.spec_role == "assume":
            _note_assumed(E, "_pp_pt", _pt_inv(M, *args))
            return True
        l1 = E.fresh("any_label", TBytes).t
        q = _assumed(E, "_pp_pt")
        if q is not None:
            E.assume(z3.substitute_vars(q.body(), l1))
        E.generalised = _pt_inv(M, *args)
        return SV(_pt_body(M, *args, l1), TBool)
    f.__name__ = "pt_inv_at(%s, %s)" % (kidx_src, ccur_src)
    return f


pt_inv = specfn("pt_inv", [TBL, TInt, TBytes, DBT, TInt, TInt, TInt, TInt, IL, TInt, TInt], TBool,
                doc="the dictionary so far: exactly the labels F(F(K, 1||w), c) of the pointer blocks of the keywords before position kidx "
                    "and of the first ccur pointer blocks of keyword kidx, each holding an encryption under F(K, 2||w) of that pointer block")
pt_inv.define = _pt_inv
pt_repr = specfn("pt_repr", [TBL, TInt, TBytes, DBT, TInt, TInt, IL, TInt], TBool,
                 doc="Repr (dictionary part): D holds exactly the labels F(F(K, 1||w), c) for every keyword w of DB and every pointer-block "
                     "number c of w, each with an encryption under F(K, 2||w) of that pointer block; the pointer width is the byte length of alen - 1")
pt_repr.define = lambda M, out, K, DB, B, b, S, alen: _pt_inv(M, out, K, DB, Len(_dkD(DB)), z3.IntVal(0), B, b, S, alen, (bitlen(alen - 1) + 7) / 8)

# ---- the array part --------------------------------------------------------------------------------------------------
OBs = sort(TOpt(TBytes))
A_, A2_ = z3.Consts("pp_A pp_A2", OBLS)
K2_ = z3.Const("pp_K2", BYTES)
pay_ = z3.Const("pp_pay", BLS)
p0_, i_ = z3.Ints("pp_p0 pp_i")


def cellok(A, S, t, K2, blk):
    """the block is stored, encrypted under K2, in the cell that S[t] names"""
    p = S[t]
    return And(0 <= t, t < Len(S), 1 <= p, p < Len(A), Not(OBs.is_none(A[p])), is_enc(K2, blk, OBs.val(A[p])))


blocks_ok = specfn("blocks_ok", [OBL, IL, TInt, TBytes, BL, TInt], TBool,
                   doc="the first k blocks of pay are stored, encrypted under K2, in the cells S[top], S[top - 1], ..., S[top - k + 1]")
blocks_ok.define = lambda A, S, top, K2, pay, k: z3.If(k <= 0, True, And(blocks_ok(A, S, top, K2, pay, k - 1),
                                                                         cellok(A, S, top - (k - 1), K2, pay[k - 1])))
lemma("blocks_ok_nth", [A_, S_, top_, K2_, pay_, k_, i_],
      Imp(And(blocks_ok(A_, S_, top_, K2_, pay_, k_), 0 <= i_, i_ < k_), cellok(A_, S_, top_ - i_, K2_, pay_[i_])),
      patterns=None, induct=("int", k_), inst=[[A_, S_, top_, K2_, pay_, k_ - 1, i_]])
_j = z3.Int("pp_j")
same_except = lambda A, A2, p0: And(Len(A2) == Len(A), z3.ForAll([_j], Imp(And(0 <= _j, _j < Len(A), _j != p0), A2[_j] == A[_j]),
                                                                  patterns=[nth_pat(A2, _j)]))
lemma("blocks_ok_store", [A_, A2_, S_, top_, K2_, pay_, k_, p0_],
      Imp(And(same_except(A_, A2_, p0_), 0 <= p0_, p0_ < Len(A_), OBs.is_none(A_[p0_]), blocks_ok(A_, S_, top_, K2_, pay_, k_)),
          blocks_ok(A2_, S_, top_, K2_, pay_, k_)),
      patterns=None, induct=("int", k_), inst=[[A_, A2_, S_, top_, K2_, pay_, k_ - 1, p0_]])

top2_, k2_ = z3.Ints("pp_top2 pp_k2")
K22_ = z3.Const("pp_K22", BYTES)
pay2_ = z3.Const("pp_pay2", BLS)
lemma("blocks_ok_cong", [A_, S_, top_, K2_, pay_, k_, top2_, K22_, pay2_, k2_],
      Imp(And(top_ == top2_, K2_ == K22_, pay_ == pay2_, k_ == k2_, blocks_ok(A_, S_, top_, K2_, pay_, k_)), blocks_ok(A_, S_, top2_, K22_, pay2_, k2_)),
      patterns=None)     # congruence across arithmetic equalities (the solvers do not always propagate them into argument positions)


def kw_blocks_ok(A, S, alen, out, K, DB, w, B, idsz):
    """every identifier block of keyword w is stored in A, encrypted under F(K, 2||w): block j of the keyword at position i of the
    database sits in the cell S[len(A) - 2 - (blocks of the keywords before i) - j]"""
    return blocks_ok(A, S, alen - 2 - blocks_upto(DB, _kpD(DB, w), B), prf(SHA1, out, K, z3.Concat(B02, w)),
                     part(db_list(DB, w), B, B * idsz), nblk(DB, w, B))


def _a_body(A, S, alen, out, K, DB, kidx, B, idsz, w):
    return Imp(And(db_has(DB, w), _kpD(DB, w) < kidx), kw_blocks_ok(A, S, alen, out, K, DB, w, B, idsz))


def _a_inv(A, S, alen, out, K, DB, kidx, B, idsz):
    w = z3.Const("aw_", BYTES)
    return z3.ForAll([w], _a_body(A, S, alen, out, K, DB, kidx, B, idsz, w), patterns=[z3.Select(DB, w)])


a_inv = specfn("a_inv", [OBL, IL, TInt, TInt, TBytes, DBT, TInt, TInt, TInt], TBool,
               doc="Repr (array part): the identifier blocks of the first kidx keywords are stored in A")
a_inv.define = _a_inv
fc_inv = specfn("fc_inv", [OBL, IL, TInt], TBool,
                doc="a cell 1 <= p < len(A) is still empty exactly when p is among the first n members of the sampled arrangement S "
                    "(the positions not yet handed out)")


def _fc_body(A, S, n, p):
    return Imp(And(1 <= p, p < Len(A)), OBs.is_none(A[p]) == (sample_idx(S, p) < n))


def _fc_inv(A, S, n):
    p = z3.Int("fp_")
    return z3.ForAll([p], _fc_body(A, S, n, p), patterns=[sample_idx(S, p)])


def _written(E, env):
    """the cell written in this iteration of loop 2.  Only asked for when the array has changed since the loop head; if the local that
    holds the position has been renamed the annotation no longer applies: the function leaves the verified subset (undecided), it does
    not fail obligations"""
    v = env.get("index_in_A")
    if v is None:
        raise Unsupported("PiPtr._Enc: the local `index_in_A` named by the array invariants does not exist (renamed?)")
    return v.t if isinstance(v, SV) else E.to_sv(v).t


def _note_assumed(E, tag, q):
    """remember a quantified clause that has just been assumed on this path (position in the path condition + the formula), so that a
    later proof step may instantiate it explicitly -- checked against the path condition before use"""
    E.assume(q)
    setattr(E, tag, (len(E.pc) - 1, E.pc[-1], q))


def _assumed(E, tag):
    r = getattr(E, tag, None)
    if r is None or r[0] >= len(E.pc) or not E.pc[r[0]].eq(r[1]):
        return None
    return r[2]


def same_except_step(E, env):
    """loop 2 only: the array after this iteration's store differs from the array at the loop head in the written cell only"""
    if E.spec_role == "assume":
        E._pp_head = _A_term(E, env)
        _note_assumed(E, "_pp_mark", E.fresh("loop2_head", TBool).t)     # marks "this path is inside loop 2, after this head"
        return True
    head, A = getattr(E, "_pp_head", None), _A_term(E, env)
    if _assumed(E, "_pp_mark") is None or head is None or head.eq(A):
        return True
    p0 = _written(E, env)
    j0 = E.fresh("any_j", TInt).t
    E.generalised = same_except(head, A, p0)
    return SV(And(Len(A) == Len(head), Imp(And(0 <= j0, j0 < Len(head), j0 != p0), A[j0] == head[j0])), TBool)


def fc_at(E, env):
    """the free-cell invariant as a clause: assumed for every cell, proved for one arbitrary (fresh) cell number"""
    A, S, n = _A_term(E, env), _tm(E, env, "sample0"), _tm(E, env, "len(available_pos_list)")
    if E.spec_role == "assume":
        _note_assumed(E, "_pp_fc", _fc_inv(A, S, n))
        return True
    p1 = E.fresh("any_cell", TInt).t
    q = _assumed(E, "_pp_fc")
    if q is not None:
        E.assume(z3.substitute_vars(q.body(), p1))       # the instance of the assumed invariant at this cell
        _pinst(E, "R1_sample_onto", [S, z3.IntVal(1), Len(A), p1])
    E.generalised = _fc_inv(A, S, n)
    return SV(_fc_body(A, S, n, p1), TBool)
from pyvc.externals import sample_idx, is_sample
n_ = z3.Int("pp_n")
lemma("prefix_last", [xs_, S_, n_], Imp(And(xs_ == z3.Extract(S_, 0, n_), 1 <= n_, n_ <= Len(S_)),
                                        And(Len(xs_) == n_, xs_[n_ - 1] == S_[n_ - 1], z3.Extract(xs_, 0, n_ - 1) == z3.Extract(S_, 0, n_ - 1))),
      patterns=None)


def avail_prefix(E, env):
    """the positions not yet handed out are a prefix of the sampled arrangement (the list is consumed from its end)"""
    av, S = _tm(E, env, "available_pos_list"), _tm(E, env, "sample0")
    return SV(av == z3.Extract(S, 0, Len(av)), TBool)


def _tm(E, env, src):
    v = E.spec_eval(src, env, old=True)
    return v.t if isinstance(v, SV) else E.to_sv(v).t


def _A_term(E, env):
    Av = env["A"]
    return E.cell(Av)[1].t if isinstance(Av, Ref) else Av.t


def _pinst(E, lemma_name, terms):
    from pyvc.registry import LEMMAS as _LM
    E.lemmas_used.add(lemma_name)
    E.assume(z3.substitute(_LM[lemma_name].body, *list(zip(_LM[lemma_name].vars, terms))))


P_OUT, P_B, P_IDSZ = "self.config.param_lambda", "self.config.param_B", "self.config.param_identifier_size"


def proof_step(src):
    """an intermediate fact over the function's locals, proved on the way to the next clause"""
    return lambda E, env: True if E.spec_role == "assume" else E.spec_eval(src, env, old=True)


def a_inv_at(kidx_src):
    """array part of Repr as an invariant clause: assumed in its quantified form; proved for one arbitrary (fresh) keyword, with the
    frame lemma instantiated for the cell written in this iteration (if any)"""
    def f(E, env):
        A, S, out, K, DB, B, idsz = _A_term(E, env), _tm(E, env, "sample0"), _tm(E, env, P_OUT), _tm(E, env, "K"), \
            _tm(E, env, "database"), _tm(E, env, P_B), _tm(E, env, P_IDSZ)
        kidx, alen = _tm(E, env, kidx_src), _tm(E, env, "A_len")
        if E.spec_role == "assume":
            _note_assumed(E, "_pp_ainv", _a_inv(A, S, alen, out, K, DB, kidx, B, idsz))
            E._pp_ainv_A = A
            return True
        w0 = E.fresh("any_kw", TBytes).t
        q = _assumed(E, "_pp_ainv")
        if q is not None:
            E.assume(z3.substitute_vars(q.body(), w0))     # the instance of the assumed invariant at this keyword
            head = E._pp_ainv_A
            if not head.eq(A):
                p0 = _written(E, env)
                _pinst(E, "blocks_ok_store", [head, A, S, alen - 2 - blocks_upto(DB, _kpD(DB, w0), B), prf(SHA1, out, K, z3.Concat(B02, w0)),
                                              part(db_list(DB, w0), B, B * idsz), nblk(DB, w0, B), p0])
        cur = getattr(E, "_pp_cur", None)
        if cur is not None and cur[0].eq(A):
            # the keyword just finished: what loop 2 established about its blocks, restated over the terms of w0
            _pinst(E, "blocks_ok_cong", list(cur) + [alen - 2 - blocks_upto(DB, _kpD(DB, w0), B), prf(SHA1, out, K, z3.Concat(B02, w0)),
                                                     part(db_list(DB, w0), B, B * idsz), nblk(DB, w0, B)])
        E.generalised = _a_inv(A, S, alen, out, K, DB, kidx, B, idsz)
        return SV(_a_body(A, S, alen, out, K, DB, kidx, B, idsz, w0), TBool)
    f.__name__ = "a_inv_at(%s)" % kidx_src
    return f


def a_post(E, env):
    """postcondition of _Enc, array part: a_inv(result.A, sample0, len(result.A), ..., all keywords).  Callers get the quantified statement;
    the proof is for one fresh keyword, from the instance of the loop invariant at that keyword"""
    S, out, DB, B, idsz = _tm(E, env, "sample0"), _tm(E, env, P_OUT), _tm(E, env, "database"), _tm(E, env, P_B), _tm(E, env, P_IDSZ)
    A, K = _tm(E, env, "result.A"), _tm(E, env, "K.K")
    if E.spec_role == "assume":
        return SV(_a_inv(A, S, Len(A), out, K, DB, Len(_dkD(DB)), B, idsz), TBool)
    w0 = E.fresh("any_kw", TBytes).t
    q = _assumed(E, "_pp_ainv")
    if q is not None:
        E.assume(z3.substitute_vars(q.body(), w0))
        alen = _tm(E, env, "A_len")
        rest = [prf(SHA1, out, K, z3.Concat(B02, w0)), part(db_list(DB, w0), B, B * idsz), nblk(DB, w0, B)]
        _pinst(E, "blocks_ok_cong", [A, S, alen - 2 - blocks_upto(DB, _kpD(DB, w0), B)] + rest + [Len(A) - 2 - blocks_upto(DB, _kpD(DB, w0), B)] + rest)
    return SV(_a_body(A, S, Len(A), out, K, DB, Len(_dkD(DB)), B, idsz, w0), TBool)


def cur_blocks_at(E, env):
    """loop 2: the blocks of the current keyword written so far (frame lemma for the earlier ones, the cell just written for the last)"""
    A, S = _A_term(E, env), _tm(E, env, "sample0")
    top = _tm(E, env, "A_len - 2 - blocks_upto(database, _it1, self.config.param_B)")
    K2, fibl, it = _tm(E, env, "K2"), _tm(E, env, "file_id_block_list"), _tm(E, env, "it")
    if E.spec_role == "assume":
        E._pp_head2 = A
        E._pp_cur = (A, S, top, K2, fibl, it)
    else:
        head = getattr(E, "_pp_head2", None)
        if _assumed(E, "_pp_mark") is not None and head is not None and not head.eq(A):
            _pinst(E, "blocks_ok_store", [head, A, S, top, K2, fibl, it - 1, _written(E, env)])
    return SV(blocks_ok(A, S, top, K2, fibl, it), TBool)


VALID_CFG = ["self.config.prf_f_output_length == self.config.param_lambda", "self.config.param_lambda >= 8",
             "self.config.param_B > 0", "self.config.param_b > 0", "self.config.param_identifier_size > 0"]
ARGS = "self.config.param_lambda, {K}, database, {a}, {c}, self.config.param_B, self.config.param_b, sample0, A_len, index_size_in_A"
NB = "blocks_upto(database, {k}, self.config.param_B)"
COMMON = ["is_sample(sample0, 1, A_len)", "A_len == " + NB.format(k="len(database)") + " + 1", "len(sample0) == A_len - 1",
          "index_size_in_A == (bitlen(A_len - 1) + 7) // 8", "len(A) == A_len"]
contract(SCH + "._Enc", modifies_ghost=["rng_n", "sample0"], params=dict(self=SCHT, K=KEYT, database=DBT), returns=EDBT,
         requires=VALID_CFG + ["len(K.K) == self.config.param_lambda", "valid_db(database, self.config.param_identifier_size)", "ne_db(database)"],
         ensures=["pt_repr(dmap(result.D), self.config.param_lambda, K.K, database, self.config.param_B, self.config.param_b, sample0, len(result.A))",
                  "asc_bl(dkeys(result.D), len(result.D))",      # C06: labels stored in ascending order whatever the order of the input
                  a_post, "is_sample(sample0, 1, len(result.A))", "len(sample0) == len(result.A) - 1",
                  "len(result.A) == blocks_upto(database, len(database), self.config.param_B) + 1",
                  "len(result.D) == pblocks_upto(database, len(database), self.config.param_B, self.config.param_b)"],
         locals={"L": PL, "A": OBL, "index_list_in_A": BL},
         lemmas=["A2_prf_injective", "A6_prf_len", "lmapf_frame", "distinct_frame", "dec_enc", "blocks_mono", "blocks_mono2", "ptrl_len",
                 "bitlen_bound", "pow2_mono", "R1_sample_nth", "psum_frame", "blocks_nonneg", "cdiv_eq", "ptrl_all_len", "R1_sample_onto", "blocks_ok_store", "prefix_last", "blocks_ok_cong", "firsts_asc", "B3_sort_len"],
         loops={0: dict(elem=TInt, invariant=["len(_acc) == it", "psum_upto(_acc, it) == " + NB.format(k="it")],
                        hints=[("cdiv_eq", ["len(database[dkeys(database)[it]])", "self.config.param_B"])]),
                1: dict(invariant=COMMON + [
                    avail_prefix, "len(available_pos_list) == A_len - 1 - " + NB.format(k="it") + "",
                    pt_inv_at("it", "0"),
                    "distinct_upto(L, len(L))", "len(L) == pblocks_upto(database, it, self.config.param_B, self.config.param_b)",
                    fc_at, a_inv_at("it")],
                    hints=[("blocks_mono2", ["database", "it + 1", "len(database)", "self.config.param_B"])],
                    exit_hints=[("firsts_asc", ["sorted_pairs(L)", "len(L)"])]),
                2: dict(invariant=COMMON + [
                    avail_prefix, "len(available_pos_list) == A_len - 1 - " + NB.format(k="_it1") + " - it",
                    "file_id_block_list == part(database[keyword], self.config.param_B, self.config.param_B * self.config.param_identifier_size)",
                    "len(file_id_block_list) == (len(database[keyword]) + self.config.param_B - 1) // self.config.param_B",
                    NB.format(k="_it1 + 1") + " <= " + NB.format(k="len(database)"),
                    "index_list_in_A == ptrl(sample0, A_len - 2 - " + NB.format(k="_it1") + ", it, index_size_in_A)",
                    "K1 == prf('sha1', self.config.param_lambda, K, b'\\x01' + keyword)",
                    "K2 == prf('sha1', self.config.param_lambda, K, b'\\x02' + keyword)",
                    same_except_step, fc_at, a_inv_at("_it1"), cur_blocks_at],
                    hints=[("bitlen_bound", ["A_len - 1"]), ("pow2_mono", ["bitlen(A_len - 1)", "8 * index_size_in_A"]),
                           ("R1_sample_nth", ["sample0", "1", "A_len", "len(available_pos_list) - 1"]),
                           ("prefix_last", ["available_pos_list", "sample0", "len(available_pos_list)"])],
                    exit_hints=[("ptrl_all_len", ["sample0", "A_len - 2 - " + NB.format(k="_it1"), "it", "index_size_in_A"])]),
                3: dict(invariant=COMMON + [
                    avail_prefix, "len(available_pos_list) == A_len - 1 - " + NB.format(k="_it1 + 1") + "",
                    pt_inv_at("_it1", "it"),
                    "distinct_upto(L, len(L))", "len(L) == pblocks_upto(database, _it1, self.config.param_B, self.config.param_b) + it",
                    "index_block_list == ipay(sample0, A_len, database, keyword, self.config.param_B, self.config.param_b, index_size_in_A)",
                    proof_step("it > 0 or len(index_list_in_A) == len(file_id_block_list)"),
                    proof_step("it > 0 or len(index_list_in_A) == cdivf(len(database[keyword]), self.config.param_B)"),
                    proof_step("it > 0 or len(index_block_list) == (len(index_list_in_A) + self.config.param_b - 1) // self.config.param_b"),
                    "len(index_block_list) == cdivf(cdivf(len(database[keyword]), self.config.param_B), self.config.param_b)",
                    "K1 == prf('sha1', self.config.param_lambda, K, b'\\x01' + keyword)",
                    "K2 == prf('sha1', self.config.param_lambda, K, b'\\x02' + keyword)",
                    ])},     # (A and the free list are not touched by loop 3: what loop 2 established about them is still known)
         budget=5,     # heavy quantified context (two nested loops, three quantified invariants): the search is sensitive to the solver's seed
         no_runtime=True, props=["C01", "C02", "C04", "C05", "C06", "C07"])

# ---- Search: given Repr (dictionary part + array part over the same sampled arrangement) and the token of gq, the result is DB[gq] --------
kwpos = specfn("kwpos", [DBT, TBytes], TInt, macro=True, doc="insertion position of keyword w in the database (B4)")
kwpos.define = lambda DB, w: _kpD(DB, w)
x_, wd_ = z3.Ints("pp_x pp_wd")
lemma("pp_b2i_zeros", [k_], b2i(zeros(k_)) == 0, patterns=None, induct=("int", k_), inst=[[k_ - 1]], no_auto=True,
      unfold_only=["b2i", "zeros"], uses=["zeros_len", "zeros_add"], use_inst=[("zeros_add", [k_ - 1, z3.IntVal(1)])], depth=3)
lemma("i2b_nz", [x_, wd_], Imp(And(1 <= x_, wd_ >= 0, x_ < pow2(8 * wd_)), i2b(x_, wd_) != zeros(wd_)), patterns=None,
      uses=["b2i_i2b", "pp_b2i_zeros"], use_inst=[("b2i_i2b", [x_, wd_]), ("pp_b2i_zeros", [wd_])])
ids2_, ys2_ = z3.Consts("pp_ids pp_ys2", BLS)
lemma("nz_frame", [ids2_, ys2_, k_], Imp(k_ <= Len(ids2_), nz_upto(z3.Concat(ids2_, ys2_), k_) == nz_upto(ids2_, k_)), patterns=None,
      induct=("int", k_), inst=[[ids2_, ys2_, k_ - 1]])
alen_ = z3.Int("pp_alen")
lemma("ptrl_nz", [S_, top_, k_, isz_, alen_],
      Imp(And(is_sample(S_, 1, alen_), alen_ - 1 < pow2(8 * isz_), isz_ >= 0, top_ < Len(S_), top_ - (k_ - 1) >= 0),
          nz_upto(ptrl(S_, top_, k_, isz_), k_)),
      patterns=None, induct=("int", k_), inst=[[S_, top_, k_ - 1, isz_, alen_]],
      uses=["ptrl_len", "i2b_len", "nz_frame", "i2b_nz", "R1_sample_nth"],
      use_inst=[("nz_frame", [ptrl(S_, top_, k_ - 1, isz_), z3.Unit(i2b(S_[top_ - (k_ - 1)], isz_)), k_ - 1]),
                ("i2b_nz", [S_[top_ - (k_ - 1)], isz_]), ("R1_sample_nth", [S_, z3.IntVal(1), alen_, top_ - (k_ - 1)])])
lemma("ptrl_nth", [S_, top_, k_, isz_, i_], Imp(And(0 <= i_, i_ < k_), ptrl(S_, top_, k_, isz_)[i_] == i2b(S_[top_ - i_], isz_)),
      patterns=None, induct=("int", k_), inst=[[S_, top_, k_ - 1, isz_, i_]], uses=["ptrl_len"])

from contracts.toolkit_bytes import blk, mn, pad
cap2_, s2_, t2_ = z3.Ints("pp_cap pp_s pp_t")
lemma("part_block_len", [ids2_, cap2_, s2_, t2_, k_],
      Imp(And(all_len_upto(ids2_, s2_, k_), k_ == Len(ids2_), cap2_ > 0, s2_ >= 0, 0 <= t2_, t2_ * cap2_ < Len(ids2_)),
          Len(part(ids2_, cap2_, cap2_ * s2_)[t2_]) == cap2_ * s2_),
      patterns=None, uses=["part_nth", "joinr_len", "mul_mono", "zeros_len"],
      use_inst=[("part_nth", [ids2_, cap2_, cap2_ * s2_, z3.IntVal(0), t2_]),
                ("joinr_len", [ids2_, s2_, Len(ids2_), t2_ * cap2_, mn(t2_ * cap2_ + cap2_, Len(ids2_))]),
                ("mul_mono", [mn(t2_ * cap2_ + cap2_, Len(ids2_)) - t2_ * cap2_, cap2_, s2_])])
i2_, bs2_ = z3.Ints("pp_i2 pp_bs2")
lemma("parse_block_k", [ids2_, s2_, cap2_, bs2_, i2_, k_],
      Imp(And(all_len_upto(ids2_, s2_, k_), nz_upto(ids2_, k_), k_ == Len(ids2_), 0 <= i2_, i2_ < Len(ids2_), cap2_ > 0, s2_ > 0, bs2_ >= cap2_ * s2_),
          parse(blk(ids2_, cap2_, bs2_, i2_), s2_) == z3.Extract(ids2_, i2_, mn(i2_ + cap2_, Len(ids2_)) - i2_)),
      patterns=None, uses=["parse_block"], use_inst=[("parse_block", [ids2_, s2_, cap2_, bs2_, i2_])])
bb1_, bb2_ = z3.Consts("pp_bb1 pp_bb2", BYTES)
s3_ = z3.Int("pp_s3")
lemma("parse_arg_cong", [bb1_, bb2_, s2_, s3_], Imp(And(bb1_ == bb2_, s2_ == s3_), parse(bb1_, s2_) == parse(bb2_, s3_)),
      patterns=[z3.MultiPattern(parse(bb1_, s2_), parse(bb2_, s3_))], no_auto=True, unfold_only=[])
lemma("bitlen_pos", [x_], Imp(x_ >= 1, bitlen(x_) >= 1), patterns=None, uses=["bitlen_nonneg"], unfold_only=["bitlen"], no_auto=True)
lemma("bl_len_nonneg", [ids2_], Len(ids2_) >= 0, patterns=None)      # (used to name a ground term whose definition is then unfolded)
lemma("mul_div_cancel", [a_, c_], Imp(c_ > 0, (c_ * a_) / c_ == a_), patterns=None, uses=["div_mod_unique"],
      use_inst=[("div_mod_unique", [c_ * a_, c_, a_, z3.IntVal(0)])])
_X = lambda: part(ids2_, cap2_, cap2_ * s2_)[t2_]
lemma("ptr_block_parse", [ids2_, cap2_, s2_, t2_, k_],
      Imp(And(all_len_upto(ids2_, s2_, k_), nz_upto(ids2_, k_), k_ == Len(ids2_), cap2_ > 0, s2_ > 0, 0 <= t2_, t2_ * cap2_ < Len(ids2_)),
          And(Len(_X()) == cap2_ * s2_, Len(_X()) / cap2_ == s2_,
              parse(_X(), Len(_X()) / cap2_) == z3.Extract(ids2_, t2_ * cap2_, mn(t2_ * cap2_ + cap2_, Len(ids2_)) - t2_ * cap2_))),
      patterns=None, uses=["part_block_len", "mul_div_cancel", "part_nth", "parse_block_k"],
      use_inst=[("part_block_len", [ids2_, cap2_, s2_, t2_, k_]), ("mul_div_cancel", [s2_, cap2_]),
                ("part_nth", [ids2_, cap2_, cap2_ * s2_, z3.IntVal(0), t2_]),
                ("parse_block_k", [ids2_, s2_, cap2_, cap2_ * s2_, t2_ * cap2_, k_])])
G_ARGS = "self.config.param_lambda, gK, gDB, self.config.param_B, self.config.param_b, sample0, len(edb.A)"
TOP = "len(edb.A) - 2 - blocks_upto(gDB, kwpos(gDB, gq), self.config.param_B)"
NBK = "cdivf(len(gDB[gq]), self.config.param_B)"
ISZ = "(bitlen(len(edb.A) - 1) + 7) // 8"
PL_ = "ptrl(sample0, %s, %s, %s)" % (TOP, NBK, ISZ)             # the pointer list of gq
NPB = "(cdivf(%s, self.config.param_b) if gq in gDB else 0)" % NBK
IDB = "self.config.param_B * self.config.param_identifier_size"
contract(SCH + "._Search", params=dict(self=SCHT, edb=EDBT, tk=TOKT), returns=REST,
         ghost=dict(gK=TBytes, gDB=DBT, gq=TBytes),
         requires=VALID_CFG + ["pt_repr(dmap(edb.D), %s)" % G_ARGS,
                               "a_inv(edb.A, sample0, len(edb.A), self.config.param_lambda, gK, gDB, len(gDB), self.config.param_B, self.config.param_identifier_size)",
                               "is_sample(sample0, 1, len(edb.A))", "len(sample0) == len(edb.A) - 1",
                               "len(edb.A) == blocks_upto(gDB, len(gDB), self.config.param_B) + 1",
                               "valid_db(gDB, self.config.param_identifier_size)", "ne_db(gDB)",
                               "tk.K1 == prf('sha1', self.config.param_lambda, gK, b'\\x01' + gq)",
                               "tk.K2 == prf('sha1', self.config.param_lambda, gK, b'\\x02' + gq)"],
         ensures=["result.result == (gDB[gq] if gq in gDB else [])"],
         locals={"result": BL, "index_list": BL},
         lemmas=["A2_prf_injective", "A6_prf_len", "dec_enc", "ptrl_len", "blocks_nonneg", "bitlen_bound", "pow2_mono"],
         loops={0: dict(invariant=["c >= 0", "c <= " + NPB,
                                   "index_list == (%s[:min(c * self.config.param_b, %s)] if gq in gDB else [])" % (PL_, NBK)],
                        hints=[("ptr_block_parse", [PL_, "self.config.param_b", ISZ, "c", NBK]),
                               ("ext_append", [PL_, "c * self.config.param_b", "min(c * self.config.param_b + self.config.param_b, %s) - c * self.config.param_b" % NBK]),
                               ("mul_mono", ["c + 1", "cdivf(%s, self.config.param_b)" % NBK, "self.config.param_b"]),
                               ("div_bounds", [NBK + " + self.config.param_b - 1", "self.config.param_b"]),
                               ("bl_len_nonneg", ["ipay(sample0, len(edb.A), gDB, gq, self.config.param_B, self.config.param_b, %s)" % ISZ]),
                               ("bitlen_pos", ["len(edb.A) - 1"]),
                               ("div_lower", ["len(gDB[gq]) + self.config.param_B - 1", "1", "self.config.param_B"]),
                               ("ptrl_all_len", ["sample0", TOP, NBK, ISZ]),
                               ("ptrl_nz", ["sample0", TOP, NBK, ISZ, "len(edb.A)"]),
                               ("bitlen_bound", ["len(edb.A) - 1"]), ("pow2_mono", ["bitlen(len(edb.A) - 1)", "8 * (%s)" % ISZ]),
                               ("blocks_mono2", ["gDB", "kwpos(gDB, gq) + 1", "len(gDB)", "self.config.param_B"])]),
                1: dict(invariant=["index_list == (%s if gq in gDB else [])" % PL_,
                                   "gq not in gDB or (%s - %s + 1 >= 0 and %s < len(sample0))" % (TOP, NBK, TOP),
                                   "gq not in gDB or blocks_ok(edb.A, sample0, %s, tk.K2, part(gDB[gq], self.config.param_B, %s), %s)" % (TOP, IDB, NBK),
                                   "result == (gDB[gq][:min(it * self.config.param_B, len(gDB[gq]))] if gq in gDB else [])"],
                        hints=[("ptrl_nth", ["sample0", TOP, NBK, ISZ, "it"]),
                               ("R1_sample_nth", ["sample0", "1", "len(edb.A)", "%s - it" % TOP]),
                               ("b2i_i2b", ["sample0[%s - it]" % TOP, ISZ]),
                               ("bitlen_bound", ["len(edb.A) - 1"]), ("pow2_mono", ["bitlen(len(edb.A) - 1)", "8 * (%s)" % ISZ]),
                               ("blocks_ok_nth", ["edb.A", "sample0", TOP, "tk.K2", "part(gDB[gq], self.config.param_B, %s)" % IDB, NBK, "it"]),
                               ("part_nth", ["gDB[gq]", "self.config.param_B", IDB, "0", "it"]),
                               ("part_len", ["gDB[gq]", "self.config.param_B", IDB, "0"]),
                               ("parse_block", ["gDB[gq]", "self.config.param_identifier_size", "self.config.param_B", IDB, "it * self.config.param_B"]),
                               ("ext_append", ["gDB[gq]", "it * self.config.param_B",
                                               "min(it * self.config.param_B + self.config.param_B, len(gDB[gq])) - it * self.config.param_B"]),
                               ("mul_mono", ["it + 1", NBK, "self.config.param_B"]),
                               ("div_bounds", ["len(gDB[gq]) + self.config.param_B - 1", "self.config.param_B"]),
                               ("div_lower", ["len(gDB[gq]) + self.config.param_B - 1", "1", "self.config.param_B"]),
                               ("blocks_mono2", ["gDB", "kwpos(gDB, gq) + 1", "len(gDB)", "self.config.param_B"])])},
         unfold_only=["pt_repr", "pt_inv", "a_inv", "valid_db", "ne_db", "part", "is_enc", "dec", "dec_ok", "ipay", "cdivf", "blocks_upto", "kwpos"],
         budget=5, no_runtime=True, props=["C01", "C02", "C07"])

inline("toolkit/prf/__init__.py:get_prf_implementation", "toolkit/symmetric_encryption/__init__.py:get_symmetric_encryption_implementation",
       "schemes/interface/config.py:SSEConfig.__init__", "schemes/interface/config.py:SSEConfig.check_param_exist",
       "schemes/interface/inverted_index_sse.py:InvertedIndexSSE.__init__")
for m_ in ("KeyGen", "EDBSetup", "TokenGen", "Search"):
    inline(SCH + "." + m_)
inline(EDB + ".__init__")
# C01 / C02 for PiPtr: verified client code over the contracts of _Enc, _Trap, _Search (public wrappers inlined)
contract("ghost:piptr_search_correct", modifies_ghost=["rng_n", "sample0"], params=dict(sse=SCHT, key=KEYT, database=DBT, keyword=TBytes), returns=REST,
         body="""def piptr_search_correct(sse, key, database, keyword):
    gK = key.K
    gDB = database
    gq = keyword
    edb = sse.EDBSetup(key, database)
    tk = sse.TokenGen(key, keyword)
    return sse.Search(edb, tk)
""",
         ghost_scope=S + "construction.py",
         requires=[r.replace("self.", "sse.") for r in VALID_CFG] + ["len(key.K) == sse.config.param_lambda",
                                                                     "valid_db(database, sse.config.param_identifier_size)", "ne_db(database)"],
         ensures=["result.result == (database[keyword] if keyword in database else [])"], props=["C01", "C02"])
