"""Contracts for toolkit/database_utils.py, toolkit/bytes_utils.py, toolkit/list_utils.py  (property C17)."""
from pyvc.api import *
import z3

BL = TList(TBytes)
BLS = sort(BL)
BLL = TList(BL)
Len = z3.Length
Imp, And, Or, Not, MP = z3.Implies, z3.And, z3.Or, z3.Not, z3.MultiPattern
k, l, n = z3.Ints("k l n")


def Ext(s, a, l):
    return z3.Extract(s, a, l)


def tail(s, k):
    return z3.Extract(s, k, Len(s) - k)


# ---- spec functions -------------------------------------------------------------------------------
# Index-recursive definitions (recursion on a cursor into the same sequence, guarded so that every
# definition is a terminating recursion: the cursor strictly increases towards len).
def _parse_py(b, s, i=0):
    out = []
    if s <= 0:
        return out
    for j in range(max(i, 0), len(b), s):
        e = b[j:j + s]
        if e == bytes(len(e)):
            break
        out.append(e)
    return out


parse_from = specfn("parse_from", [TBytes, TInt, TInt], BL, py=_parse_py,
                    doc="entries of `size` bytes of b starting at offset i, up to (excluding) the first all-zero entry")
parse_from.define = lambda b, s, i: z3.If(
    z3.Or(s <= 0, i < 0, i >= Len(b)), z3.Empty(BLS),
    z3.If(Ext(b, i, s) == zeros(Len(Ext(b, i, s))), z3.Empty(BLS),
          z3.Concat(z3.Unit(Ext(b, i, s)), parse_from(b, s, i + s))))
parse = specfn("parse", [TBytes, TInt], BL, py=lambda b, s: _parse_py(b, s, 0), macro=True)
parse.define = lambda b, s: parse_from(b, s, 0)

pad = specfn("pad", [TBytes, TInt], TBytes, py=lambda b, n: b + b"\x00" * max(0, n - len(b)),
             doc="right-pad with NUL bytes to n bytes (unchanged when already >= n)")
pad.define = lambda b, n: z3.If(Len(b) < n, z3.Concat(b, zeros(n - Len(b))), b)


def _part_py(ids, cap, bs, i=0):
    if cap <= 0:
        return []
    return [b"".join(ids[j:j + cap]) + b"\x00" * max(0, bs - len(b"".join(ids[j:j + cap])))
            for j in range(max(i, 0), len(ids), cap)]


part_from = specfn("part_from", [BL, TInt, TInt, TInt], BL, py=_part_py,
                   doc="blocks of ids[i:]: consecutive groups of cap identifiers, joined and zero-padded to bs bytes")
part_from.define = lambda ids, cap, bs, i: z3.If(
    z3.Or(cap <= 0, i < 0, i >= Len(ids)), z3.Empty(BLS),
    z3.Concat(z3.Unit(pad(joinr(ids, i, z3.If(i + cap <= Len(ids), i + cap, Len(ids))), bs)), part_from(ids, cap, bs, i + cap)))
part = specfn("part", [BL, TInt, TInt], BL, py=lambda ids, cap, bs: _part_py(ids, cap, bs, 0), macro=True)
part.define = lambda ids, cap, bs: part_from(ids, cap, bs, 0)


def _gen_split(rnd):
    lens = [rnd.choice([0, 0, 1, 2, 3, 8]) for _ in range(rnd.choice([0, 1, 2, 3, 4, 6]))]
    n = sum(lens) + rnd.choice([0, 0, 0, 0, 1, -1])
    return dict(xbytes=bytes(rnd.getrandbits(8) for _ in range(max(n, 0))), slice_len_list=lens)


def _gen_partition(rnd):
    size = rnd.choice([1, 2, 3, 8, 40])
    cap = rnd.choice([1, 2, 3, 4, 7, 64, 70])
    n = rnd.choice([0, 1, 2, 3, cap - 1, cap, cap + 1, 2 * cap, 2 * cap + 1, 20])
    ids = [bytes([1 + rnd.getrandbits(7)] + [rnd.getrandbits(8) for _ in range(size - 1)]) for _ in range(max(n, 0))]
    bs = rnd.choice([0, cap * size, cap * size + 1, cap * size + 5, cap * size - 1])
    return dict(identifier_list=ids, entry_count_in_one_block=cap, identifier_size=size, block_size_bytes=max(bs, 0))


# ---- contracts ------------------------------------------------------------------------------------
DB = "toolkit/database_utils.py:"
BU = "toolkit/bytes_utils.py:"

contract(DB + "parse_identifiers_from_block_given_identifier_size", domains=dict(identifier_size=SMALL),
         params=dict(block=TBytes, identifier_size=TInt),
         returns=BL,
         requires=["identifier_size > 0"],
         ensures=["result == parse(block, identifier_size)"],
         locals={"result": BL},
         loops={0: dict(invariant=[
             "0 <= i",
             "result + parse_from(block, identifier_size, i) == parse(block, identifier_size)",
         ])},
         witness=[dict(block=b"ab\x00\x00", identifier_size=2)],
         props=["C17", "C01"])

contract(DB + "parse_identifiers_from_block_given_entry_count_in_one_block", domains=dict(entry_count_in_one_block=SMALL),
         params=dict(block=TBytes, entry_count_in_one_block=TInt),
         returns=BL,
         requires=["entry_count_in_one_block > 0", "len(block) // entry_count_in_one_block > 0"],
         ensures=["result == parse(block, len(block) // entry_count_in_one_block)"],
         witness=[dict(block=b"abcd\x00\x00", entry_count_in_one_block=3)],
         props=["C17", "C01"])

contract(DB + "partition_identifiers_to_blocks",
         params=dict(identifier_list=BL, entry_count_in_one_block=TInt, identifier_size=TInt, block_size_bytes=TInt),
         returns=BL, gen=lambda rnd: _gen_partition(rnd),
         requires=["entry_count_in_one_block > 0", "identifier_size > 0", "block_size_bytes >= 0",
                   "all_len(identifier_list, identifier_size)"],
         raises={"ValueError": dict(
             when="block_size_bytes != 0 and block_size_bytes < entry_count_in_one_block * identifier_size", iff=True)},
         ensures=[
             "result == part(identifier_list, entry_count_in_one_block, "
             "block_size_bytes if block_size_bytes != 0 else entry_count_in_one_block * identifier_size)",
             "len(result) == (len(identifier_list) + entry_count_in_one_block - 1) // entry_count_in_one_block",
             "all_len(result, block_size_bytes if block_size_bytes != 0 else entry_count_in_one_block * identifier_size)",
         ],
         lemmas=["joinr_len", "all_len_append"],
         locals={"result": BL},
         loops={0: dict(invariant=[
             "block_size_bytes >= entry_count_in_one_block * identifier_size",
             "block_size_bytes == (old(block_size_bytes) if old(block_size_bytes) != 0 "
             "else entry_count_in_one_block * identifier_size)",
             "result + part_from(identifier_list, entry_count_in_one_block, block_size_bytes, i) == "
             "part(identifier_list, entry_count_in_one_block, block_size_bytes)",
             "len(result) == it",
             "all_len(result, block_size_bytes)",
         ])},
         witness=[dict(identifier_list=[b"ab", b"cd", b"ef"], entry_count_in_one_block=2, identifier_size=2,
                       block_size_bytes=5)],
         props=["C17", "C01", "C05"])

# ---- more spec functions ----------------------------------------------------------------------------
ILS = sort(TList(TInt))
BLLS = sort(TList(BL))
il = z3.Const("il", ILS)
all_nonneg_upto = specfn("all_nonneg_upto", [TList(TInt), TInt], TBool, py=lambda xs, k: all(x >= 0 for x in xs[:max(k, 0)]))
all_nonneg_upto.define = lambda xs, k: z3.If(k <= 0, True, z3.And(xs[k - 1] >= 0, all_nonneg_upto(xs, k - 1)))
all_nonneg = specfn("all_nonneg", [TList(TInt)], TBool, py=lambda xs: all(x >= 0 for x in xs), macro=True)
all_nonneg.define = lambda xs: all_nonneg_upto(xs, Len(xs))
pieces = specfn("pieces", [TBytes, TList(TInt), TInt], BL,
                py=lambda x, ls, k: [x[sum(ls[:j]):sum(ls[:j + 1])] for j in range(max(k, 0))],
                doc="the first k pieces of x cut at the prefix sums of ls")
pieces.define = lambda x, ls, k: z3.If(
    k <= 0, z3.Empty(BLS),
    z3.Concat(pieces(x, ls, k - 1), z3.Unit(Ext(x, psum_upto(ls, k - 1), ls[k - 1]))))
chunks_from = specfn("chunks_from", [BL, TInt, TInt], TList(BL),
                     py=lambda xs, n, i: [xs[j:j + n] for j in range(max(i, 0), len(xs), n)] if n > 0 else [])
chunks_from.define = lambda xs, n, i: z3.If(
    z3.Or(n <= 0, i < 0, i >= Len(xs)), z3.Empty(BLLS),
    z3.Concat(z3.Unit(Ext(xs, i, n)), chunks_from(xs, n, i + n)))

k = z3.Int("k")
lemma("psum_full", [il], psum_upto(il, Len(il)) == isum(il), patterns=None)
lemma("psum_nonneg", [il, k], Imp(And(all_nonneg_upto(il, k)), psum_upto(il, k) >= 0),
      patterns=[psum_upto(il, k)], induct=("int", k), inst=[[il, k - 1]])
lemma("psum_mono", [il, k, l], Imp(And(all_nonneg_upto(il, l), 0 <= k, k <= l), psum_upto(il, k) <= psum_upto(il, l)),
      patterns=None, induct=("int", l), inst=[[il, k, l - 1]])
lemma("nonneg_mono", [il, k, l], Imp(And(all_nonneg_upto(il, l), k <= l), all_nonneg_upto(il, k)),
      patterns=None, induct=("int", l), inst=[[il, k, l - 1]])
xb = z3.Const("xb", BYTES)
# the first k pieces join to the prefix of x of length psum(k), provided the cuts stay inside x
lemma("pieces_join", [xb, il, k],
      Imp(And(0 <= k, k <= Len(il), all_nonneg_upto(il, k), psum_upto(il, k) <= Len(xb)),
          And(Len(pieces(xb, il, k)) == k, join(pieces(xb, il, k)) == Ext(xb, 0, psum_upto(il, k)))),
      patterns=None, induct=("int", k), inst=[[xb, il, k - 1]], uses=["psum_nonneg", "joinr_snoc"],
      use_inst=[("joinr_snoc", [pieces(xb, il, k - 1), Ext(xb, psum_upto(il, k - 1), il[k - 1])])])

# ---- bytes_utils ------------------------------------------------------------------------------------
xa, xb = z3.Consts("xa xb", BYTES)
k = z3.Int("k")


def _xor_upto_py(a, b, k):
    k = max(0, min(k, len(a), len(b)))
    return bytes(x ^ y for x, y in zip(a[:k], b[:k])) + a[k:]


xor_upto = specfn("xor_upto", [TBytes, TBytes, TInt], TBytes, py=_xor_upto_py,
                  doc="a with its first k bytes xored with the first k bytes of b (0 <= k <= min(len a, len b))")
xor_upto.define = lambda a, b, k: z3.If(
    k <= 0, a,
    z3.Concat(Ext(xor_upto(a, b, k - 1), 0, k - 1),
              z3.Unit(xor_upto(a, b, k - 1)[k - 1] ^ b[k - 1]),
              Ext(xor_upto(a, b, k - 1), k, Len(a) - k)))

lemma("xor_upto_len", [xa, xb, k], Imp(k <= Len(xa), Len(xor_upto(xa, xb, k)) == Len(xa)),
      patterns=[xor_upto(xa, xb, k)], induct=("int", k), inst=[[xa, xb, k - 1]])

contract(BU + "bytes_xor",
         params=dict(a=TBytes, b=TBytes), returns=TBytes,
         raises={"IndexError": dict(when="len(b) > len(a)", iff=True)},
         ensures=["result == xor_upto(a, b, len(b))", "len(result) == len(a)"],
         lemmas=["xor_upto_len"],
         loops={0: dict(invariant=["result == xor_upto(a, b, it)", "len(result) == len(a)", "it <= len(a)"])},
         witness=[dict(a=b"abc", b=b"xy")], props=["C17", "C15"])

contract(BU + "int_to_bytes",
         params=dict(x=TInt, output_len=TInt), returns=TBytes, domains=dict(output_len=SMALL),
         requires=["output_len >= -1"],
         raises={"OverflowError": dict(when="x < 0 or (output_len != -1 and x >= pow2(8 * output_len))", iff=True)},
         ensures=["result == i2b(x, output_len if output_len != -1 else (bitlen(x) + 7) // 8)",
                  "len(result) == (output_len if output_len != -1 else (bitlen(x) + 7) // 8)",
                  "b2i(result) == x"],
         lemmas=["bitlen_bound", "pow2_mono", "b2i_i2b"],
         witness=[dict(x=258, output_len=-1), dict(x=0, output_len=0)], props=["C17"])

contract(BU + "int_from_bytes",
         params=dict(xbytes=TBytes), returns=TInt,
         ensures=["result == b2i(xbytes)", "result >= 0"],
         witness=[dict(xbytes=b"\x01\x02")], props=["C17"])

contract(BU + "add_leading_zeros",
         params=dict(xbytes=TBytes, output_len=TInt), returns=TBytes, domains=dict(output_len=SMALL),
         ensures=["result == zeros(output_len - len(xbytes)) + xbytes",
                  "len(result) == (output_len if output_len > len(xbytes) else len(xbytes))"],
         witness=[dict(xbytes=b"ab", output_len=4)], props=["C17", "C02"])

IL = TList(TInt)
contract(BU + "split_bytes_given_slice_len",
         params=dict(xbytes=TBytes, slice_len_list=IL), returns=BL, gen=lambda rnd: _gen_split(rnd),
         requires=["all_nonneg(slice_len_list)"],
         raises={"ValueError": dict(when="len(xbytes) != isum(slice_len_list)", iff=True)},
         ensures=["len(result) == len(slice_len_list)",
                  "result == pieces(xbytes, slice_len_list, len(slice_len_list))",
                  "join(result) == xbytes"],
         locals={"result": BL},
         lemmas=["psum_full", "psum_nonneg", "pieces_join"],
         hints=[("psum_full", ["slice_len_list"]),
                ("pieces_join", ["xbytes", "slice_len_list", "len(slice_len_list)"])],
         loops={1: dict(hints=[("nonneg_mono", ["slice_len_list", "it + 1", "len(slice_len_list)"]),
                               ("nonneg_mono", ["slice_len_list", "it", "len(slice_len_list)"])],
                        invariant=[
             "len(result) == it",
             "c == psum_upto(slice_len_list, it)",
             "result == pieces(xbytes, slice_len_list, it)",
         ])},
         witness=[dict(xbytes=b"abcde", slice_len_list=[2, 3])], props=["C17"])

contract("toolkit/list_utils.py:chunks",
         params=dict(lst=BL, n=TInt), returns=TList(BL), domains=dict(n=SMALL),
         requires=["n > 0"],
         ensures=["result == chunks_from(lst, n, 0)"],
         loops={0: dict(invariant=["result + chunks_from(lst, n, i) == chunks_from(lst, n, 0)"])},
         witness=[dict(lst=[b"a", b"b", b"c"], n=2)], props=["C17", "C01"])

# ---- the round trip parse(partition(ids)) == ids -----------------------------------------------------------------------
ids_ = z3.Const("ids_", BLS)
i_, j_, p_, s_ = z3.Ints("i_ j_ p_ s_")
nz_upto = specfn("nz_upto", [BL, TInt], TBool, py=lambda xs, k: all(x != bytes(len(x)) for x in xs[:max(k, 0)]),
                 doc="none of the first k identifiers is all-zero")
nz_upto.define = lambda xs, k: z3.If(k <= 0, True, z3.And(xs[k - 1] != zeros(Len(xs[k - 1])), nz_upto(xs, k - 1)))
lemma("nz_nth", [ids_, k, i_], Imp(And(nz_upto(ids_, k), 0 <= i_, i_ < k), ids_[i_] != zeros(Len(ids_[i_]))),
      patterns=None, induct=("int", k), inst=[[ids_, k - 1, i_]])
lemma("nz_mono", [ids_, k, i_], Imp(And(nz_upto(ids_, k), i_ <= k), nz_upto(ids_, i_)), patterns=None, induct=("int", k),
      inst=[[ids_, k - 1, i_]])
lemma("zeros_prefix", [n, l], Imp(And(0 <= l, l <= n), Ext(zeros(n), 0, l) == zeros(l)), patterns=None, uses=["zeros_add"],
      use_inst=[("zeros_add", [l, n - l])])
# the k-th entry of a joined run of equal-sized identifiers
lemma("join_at", [ids_, s_, i_, j_, k],
      Imp(And(all_len_upto(ids_, s_, j_), 0 <= i_, 0 <= k, i_ + k < j_, j_ <= Len(ids_), s_ >= 0),
          Ext(joinr(ids_, i_, j_), k * s_, s_) == ids_[i_ + k]),
      patterns=None, induct=("int", j_), inst=[[ids_, s_, i_, j_ - 1, k]],
      uses=["joinr_len", "all_len_nth", "all_len_upto_mono", "mul_mono"],
      use_inst=[("joinr_len", [ids_, s_, j_, i_, j_ - 1]), ("all_len_nth", [ids_, s_, j_, j_ - 1]),
                ("all_len_upto_mono", [ids_, s_, j_, j_ - 1]), ("mul_mono", [k + 1, j_ - 1 - i_, s_])],
      cases=[i_ + k < j_ - 1, i_ + k == j_ - 1])
ba_, bb_ = z3.Consts("ba_ bb_", BYTES)
o_ = z3.Int("o_")
lemma("ext_concat_left", [ba_, bb_, o_, l], Imp(And(0 <= o_, l >= 0, o_ + l <= Len(ba_)), Ext(z3.Concat(ba_, bb_), o_, l) == Ext(ba_, o_, l)),
      patterns=None)
lemma("ext_cons", [ids_, o_, l], Imp(And(0 <= o_, l >= 1, o_ + l <= Len(ids_)),
                                   Ext(ids_, o_, l) == z3.Concat(z3.Unit(ids_[o_]), Ext(ids_, o_ + 1, l - 1))), patterns=None)
X_ = lambda: z3.Concat(joinr(ids_, i_, j_), zeros(p_))
lemma("parse_pad", [ids_, s_, i_, j_, p_, k],
      Imp(And(all_len_upto(ids_, s_, j_), nz_upto(ids_, j_), 0 <= i_, 0 <= k, i_ + k <= j_, j_ <= Len(ids_), p_ >= 0, s_ > 0),
          parse_from(X_(), s_, k * s_) == Ext(ids_, i_ + k, j_ - (i_ + k))),
      patterns=None, induct=("int", j_ - i_ - k), inst=[[ids_, s_, i_, j_, p_, k + 1]],
      uses=["join_at", "joinr_len", "nz_nth", "zeros_prefix", "all_len_nth", "mul_mono", "ext_concat_left", "ext_cons"],
      use_inst=[("ext_concat_left", [joinr(ids_, i_, j_), zeros(p_), k * s_, s_]), ("ext_cons", [ids_, i_ + k, j_ - (i_ + k)]),
                ("join_at", [ids_, s_, i_, j_, k]), ("joinr_len", [ids_, s_, j_, i_, j_]), ("nz_nth", [ids_, j_, i_ + k]),
                ("all_len_nth", [ids_, s_, j_, i_ + k]), ("mul_mono", [k + 1, j_ - i_, s_]),
                ("zeros_prefix", [p_, z3.If(p_ < s_, p_, s_)])],
      cases=[i_ + k < j_, And(i_ + k == j_, p_ == 0), And(i_ + k == j_, p_ > 0)])
cap_, bs_, t_ = z3.Ints("cap_ bs_ t_")
mn = lambda a_, b_: z3.If(a_ <= b_, a_, b_)
blk = lambda ids, cap, bs, i: pad(joinr(ids, i, mn(i + cap, Len(ids))), bs)
lemma("part_len", [ids_, cap_, bs_, i_],
      Imp(And(cap_ > 0, 0 <= i_, i_ <= Len(ids_)), Len(part_from(ids_, cap_, bs_, i_)) == (Len(ids_) - i_ + cap_ - 1) / cap_),
      patterns=None, induct=("int", Len(ids_) - i_), inst=[[ids_, cap_, bs_, mn(i_ + cap_, Len(ids_))]])
lemma("part_nth", [ids_, cap_, bs_, i_, t_],
      Imp(And(cap_ > 0, 0 <= i_, 0 <= t_, i_ + t_ * cap_ < Len(ids_)),
          part_from(ids_, cap_, bs_, i_)[t_] == blk(ids_, cap_, bs_, i_ + t_ * cap_)),
      patterns=None, induct=("int", t_), inst=[[ids_, cap_, bs_, i_ + cap_, t_ - 1]], uses=["part_len", "div_lower"],
      use_inst=[("part_len", [ids_, cap_, bs_, i_ + cap_]),
                ("div_lower", [Len(ids_) - (i_ + cap_) + cap_ - 1, t_, cap_])],
      cases=[t_ == 0, t_ > 0])
# one block parses back to its identifiers
lemma("parse_block", [ids_, s_, cap_, bs_, i_],
      Imp(And(all_len_upto(ids_, s_, Len(ids_)), nz_upto(ids_, Len(ids_)), 0 <= i_, i_ < Len(ids_), cap_ > 0, s_ > 0, bs_ >= cap_ * s_),
          parse(blk(ids_, cap_, bs_, i_), s_) == Ext(ids_, i_, mn(i_ + cap_, Len(ids_)) - i_)),
      patterns=None,
      uses=["parse_pad", "joinr_len", "all_len_upto_mono", "nz_mono", "mul_mono"],
      use_inst=[("parse_pad", [ids_, s_, i_, mn(i_ + cap_, Len(ids_)),
                               z3.If(bs_ > s_ * (mn(i_ + cap_, Len(ids_)) - i_), bs_ - s_ * (mn(i_ + cap_, Len(ids_)) - i_), 0), z3.IntVal(0)]),
                ("joinr_len", [ids_, s_, Len(ids_), i_, mn(i_ + cap_, Len(ids_))]),
                ("all_len_upto_mono", [ids_, s_, Len(ids_), mn(i_ + cap_, Len(ids_))]),
                ("nz_mono", [ids_, Len(ids_), mn(i_ + cap_, Len(ids_))]),
                ("mul_mono", [mn(i_ + cap_, Len(ids_)) - i_, cap_, s_])])
lemma("ext_append", [ids_, i_, j_], Imp(And(0 <= i_, 0 <= j_, i_ + j_ <= Len(ids_)),
                                      z3.Concat(Ext(ids_, 0, i_), Ext(ids_, i_, j_)) == Ext(ids_, 0, i_ + j_)), patterns=None)

# C17: parse(partition(ids)) == ids, as verified client code over the two contracts and the block lemmas
contract("ghost:partition_parse_roundtrip", params=dict(ids=BL, cap=TInt, size=TInt, bs=TInt), returns=BL,
         ghost_scope="toolkit/database_utils.py",
         body="""def partition_parse_roundtrip(ids, cap, size, bs):
    blocks = partition_identifiers_to_blocks(ids, cap, size, bs)
    out = []
    for b in blocks:
        out.extend(parse_identifiers_from_block_given_identifier_size(b, size))
    return out
""",
         requires=["cap > 0", "size > 0", "bs >= cap * size", "all_len(ids, size)", "nz_upto(ids, len(ids))"],
         ensures=["result == ids"], locals={"out": BL},
         loops={0: dict(invariant=["out == ids[:min(it * cap, len(ids))]", "blocks == part(ids, cap, bs)",
                                   "n_iter == (len(ids) + cap - 1) // cap"],
                        hints=[("mul_mono", ["it + 1", "(len(ids) + cap - 1) // cap", "cap"]),
                               ("part_nth", ["ids", "cap", "bs", "0", "it"]),
                               ("parse_block", ["ids", "size", "cap", "bs", "it * cap"]),
                               ("ext_append", ["ids", "it * cap", "min(it * cap + cap, len(ids)) - it * cap"])])},
         hints=[("part_len", ["ids", "cap", "bs", "0"])],
         props=["C17", "C01"])
