"""Contracts for toolkit/database_utils.py, toolkit/bytes_utils.py, toolkit/list_utils.py  (property C17)."""
from pyvc.api import *
import z3

BL = TList(TBytes)
BLS = sort(BL)
BLL = TList(BL)
Len = z3.Length


def Ext(s, a, l):
    return z3.Extract(s, a, l)


def tail(s, k):
    return z3.Extract(s, k, Len(s) - k)


# ---- spec functions -------------------------------------------------------------------------------
# Index-recursive definitions (recursion on a cursor into the same sequence, guarded so that every
# definition is a terminating recursion: the cursor strictly increases towards len).
def _parse_py(b, s, i=0):
    out = []
    if s <= 0:
        return out
    for j in range(max(i, 0), len(b), s):
        e = b[j:j + s]
        if e == bytes(len(e)):
            break
        out.append(e)
    return out


parse_from = specfn("parse_from", [TBytes, TInt, TInt], BL, py=_parse_py,
                    doc="entries of `size` bytes of b starting at offset i, up to (excluding) the first all-zero entry")
parse_from.define = lambda b, s, i: z3.If(
    z3.Or(s <= 0, i < 0, i >= Len(b)), z3.Empty(BLS),
    z3.If(Ext(b, i, s) == zeros(Len(Ext(b, i, s))), z3.Empty(BLS),
          z3.Concat(z3.Unit(Ext(b, i, s)), parse_from(b, s, i + s))))
parse = specfn("parse", [TBytes, TInt], BL, py=lambda b, s: _parse_py(b, s, 0))
parse.define = lambda b, s: parse_from(b, s, 0)

pad = specfn("pad", [TBytes, TInt], TBytes, py=lambda b, n: b + b"\x00" * max(0, n - len(b)),
             doc="right-pad with NUL bytes to n bytes (unchanged when already >= n)")
pad.define = lambda b, n: z3.If(Len(b) < n, z3.Concat(b, zeros(n - Len(b))), b)


def _part_py(ids, cap, bs, i=0):
    if cap <= 0:
        return []
    return [b"".join(ids[j:j + cap]) + b"\x00" * max(0, bs - len(b"".join(ids[j:j + cap])))
            for j in range(max(i, 0), len(ids), cap)]


part_from = specfn("part_from", [BL, TInt, TInt, TInt], BL, py=_part_py,
                   doc="blocks of ids[i:]: consecutive groups of cap identifiers, joined and zero-padded to bs bytes")
part_from.define = lambda ids, cap, bs, i: z3.If(
    z3.Or(cap <= 0, i < 0, i >= Len(ids)), z3.Empty(BLS),
    z3.Concat(z3.Unit(pad(joinr(ids, i, z3.If(i + cap <= Len(ids), i + cap, Len(ids))), bs)), part_from(ids, cap, bs, i + cap)))
part = specfn("part", [BL, TInt, TInt], BL, py=lambda ids, cap, bs: _part_py(ids, cap, bs, 0))
part.define = lambda ids, cap, bs: part_from(ids, cap, bs, 0)


# ---- contracts ------------------------------------------------------------------------------------
DB = "toolkit/database_utils.py:"
BU = "toolkit/bytes_utils.py:"

contract(DB + "parse_identifiers_from_block_given_identifier_size",
         params=dict(block=TBytes, identifier_size=TInt),
         returns=BL,
         requires=["identifier_size > 0"],
         ensures=["result == parse(block, identifier_size)"],
         locals={"result": BL},
         loops={0: dict(invariant=[
             "0 <= i",
             "result + parse_from(block, identifier_size, i) == parse(block, identifier_size)",
         ])},
         witness=[dict(block=b"ab\x00\x00", identifier_size=2)],
         props=["C17", "C01"])

contract(DB + "parse_identifiers_from_block_given_entry_count_in_one_block",
         params=dict(block=TBytes, entry_count_in_one_block=TInt),
         returns=BL,
         requires=["entry_count_in_one_block > 0", "len(block) // entry_count_in_one_block > 0"],
         ensures=["result == parse(block, len(block) // entry_count_in_one_block)"],
         witness=[dict(block=b"abcd\x00\x00", entry_count_in_one_block=3)],
         props=["C17", "C01"])

contract(DB + "partition_identifiers_to_blocks",
         params=dict(identifier_list=BL, entry_count_in_one_block=TInt, identifier_size=TInt, block_size_bytes=TInt),
         returns=BL,
         requires=["entry_count_in_one_block > 0", "identifier_size > 0", "block_size_bytes >= 0",
                   "all_len(identifier_list, identifier_size)"],
         raises={"ValueError": dict(
             when="block_size_bytes != 0 and block_size_bytes < entry_count_in_one_block * identifier_size", iff=True)},
         ensures=[
             "result == part(identifier_list, entry_count_in_one_block, "
             "block_size_bytes if block_size_bytes != 0 else entry_count_in_one_block * identifier_size)",
             "len(result) == (len(identifier_list) + entry_count_in_one_block - 1) // entry_count_in_one_block",
             "all_len(result, block_size_bytes if block_size_bytes != 0 else entry_count_in_one_block * identifier_size)",
         ],
         lemmas=["joinr_len", "all_len_append"],
         locals={"result": BL},
         loops={0: dict(invariant=[
             "block_size_bytes >= entry_count_in_one_block * identifier_size",
             "block_size_bytes == (old(block_size_bytes) if old(block_size_bytes) != 0 "
             "else entry_count_in_one_block * identifier_size)",
             "result + part_from(identifier_list, entry_count_in_one_block, block_size_bytes, i) == "
             "part(identifier_list, entry_count_in_one_block, block_size_bytes)",
             "len(result) == it",
             "all_len(result, block_size_bytes)",
         ])},
         witness=[dict(identifier_list=[b"ab", b"cd", b"ef"], entry_count_in_one_block=2, identifier_size=2,
                       block_size_bytes=5)],
         props=["C17", "C01", "C05"])
