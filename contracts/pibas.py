"""CJJ14.PiBas: contracts for structures, config, construction."""
from pyvc.api import *
from pyvc.engine import ClassRef
from contracts.sse_common import *

S = "schemes/CJJ14/PiBas/"
CFG = S + "config.py:PiBasConfig"
KEY = S + "structures.py:PiBasKey"
EDB = S + "structures.py:PiBasEncryptedDatabase"
TOK = S + "structures.py:PiBasToken"
RES = S + "structures.py:PiBasResult"
SCH = S + "construction.py:PiBas"
CFGT, KEYT, EDBT, TOKT, REST, SCHT = (TObj(x) for x in (CFG, KEY, EDB, TOK, RES, SCH))
CONSTS["HEADER_PIBAS"] = b"\x93\x94Cash2014PiBas"

klass(EDB, fields=dict(D=TBL))
table_builder(EDB + ".build_from_list", returns_obj=EDBT, params=dict(cls=TAny, kv_pairs=PL, config=TAny))
CONTRACTS[EDB + ".build_from_list"].param_values = {"cls": ClassRef(EDB)}
inline(EDB + ".__init__")
inline("schemes/interface/objects.py:SSEObject.__init__")

# ---- configuration ---------------------------------------------------------------------------------------------
# class invariant = what _parse_config establishes (for every accepted configuration dict)
klass(CFG, fields=dict(param_lambda=TInt, prf_f_output_length=TInt, prf_f=PRFT, ske=AEST),
      invariant=["self.prf_f.key_length == self.param_lambda", "self.prf_f.output_length == self.prf_f_output_length",
                 "self.prf_f.message_length == -1", "self.prf_f.hash_func_name == 'sha1'",
                 "self.ske.key_length == self.param_lambda", "self.ske.message_length == -1", "self.ske.cipher_length == -1",
                 "self.prf_f_output_length > 0"],
      gen=lambda rnd: _gen_cfg(rnd))
klass(SCH, fields=dict(config=CFGT), gen=lambda rnd: dict(config=obj(CFG, **_gen_cfg(rnd))))


def _gen_cfg(rnd):
    lam = rnd.choice([16, 24, 32])
    out = rnd.choice([lam, lam, lam, 20])
    return dict(param_lambda=lam, prf_f_output_length=out,
                prf_f=obj(PRF, output_length=out, key_length=lam, message_length=-1, hash_func_name="sha1"),
                ske=obj(AES, key_length=lam, cipher_length=-1, message_length=-1))


# ---- structures: wire formats (C03) ------------------------------------------------------------------------------
klass(KEY, fields=dict(K=TBytes), construct="PiBasKey({K})")
klass(TOK, fields=dict(K1=TBytes, K2=TBytes), construct="PiBasToken({K1}, {K2})")
klass(RES, fields=dict(result=BL), construct="PiBasResult({result})")
CLASSES[EDB].construct = "PiBasEncryptedDatabase({D})"
for c_ in (KEY, TOK, RES):
    inline(c_ + ".__init__")

contract(KEY + ".serialize", params=dict(self=KEYT), returns=TBytes, ensures=["result == self.K"], props=["C03"])
contract(KEY + ".deserialize", params=dict(cls=TAny, xbytes=TBytes, config=CFGT), returns=KEYT,
         param_values={"cls": ClassRef(KEY)},
         raises={"ValueError": dict(when="len(xbytes) != config.param_lambda", iff=True)},
         ensures=["result.K == xbytes"], props=["C03"])
contract(TOK + ".serialize", params=dict(self=TOKT), returns=TBytes, ensures=["result == self.K1 + self.K2"], props=["C03"])
contract(TOK + ".deserialize", params=dict(cls=TAny, xbytes=TBytes, config=CFGT), returns=TOKT,
         param_values={"cls": ClassRef(TOK)},
         requires=["config.param_lambda >= 0"],
         raises={"ValueError": dict(when="len(xbytes) != 2 * config.param_lambda", iff=True)},
         ensures=["result.K1 == xbytes[:config.param_lambda]", "result.K2 == xbytes[config.param_lambda:]"], props=["C03"])
contract(RES + ".serialize", params=dict(self=REST), returns=TBytes,
         ensures=["result == pickled_list(self.result)"], props=["C03"])
contract(RES + ".deserialize", params=dict(cls=TAny, xbytes=TBytes, config=TAny), returns=REST,
         param_values={"cls": ClassRef(RES)}, locals={"result": BL},
         ensures=["result.result == unpickled_list(xbytes)"], no_runtime=True, props=["C03"])
contract(EDB + ".serialize", params=dict(self=EDBT), returns=TBytes,
         ensures=["result == HEADER_PIBAS + pickled_tbl(dmap(self.D))"], props=["C03"])
contract(EDB + ".deserialize", params=dict(cls=TAny, xbytes=TBytes, config=TAny), returns=EDBT,
         param_values={"cls": ClassRef(EDB)}, locals={"D": TBL},
         raises={"ValueError": dict(when="xbytes[:len(HEADER_PIBAS)] != HEADER_PIBAS", iff=True)},
         ensures=["dmap(result.D) == unpickled_tbl(xbytes[len(HEADER_PIBAS):])"], no_runtime=True, props=["C03"])

# round trips as verified client code over the contracts (+ P1)
RT = """def {n}(x, config):
    return {cls}.deserialize(x.serialize(), config)
"""
contract("ghost:pibas_key_roundtrip", params=dict(x=KEYT, config=CFGT), returns=KEYT, ghost_scope=S + "structures.py",
         body=RT.format(n="pibas_key_roundtrip", cls="PiBasKey"),
         requires=["len(x.K) == config.param_lambda"],   # established by _Gen (len K == param_lambda)
         ensures=["result.K == x.K"], props=["C03"])
contract("ghost:pibas_token_roundtrip", params=dict(x=TOKT, config=CFGT), returns=TOKT, ghost_scope=S + "structures.py",
         body=RT.format(n="pibas_token_roundtrip", cls="PiBasToken"),
         # established by _Trap: both components are PRF outputs; and the PRF output length equals param_lambda
         # whenever an index could be built (prf_f's key length is param_lambda, see _Enc's exception freedom)
         requires=["len(x.K1) == config.param_lambda", "len(x.K2) == config.param_lambda"],
         ensures=["result.K1 == x.K1", "result.K2 == x.K2"], props=["C03"])
contract("ghost:pibas_result_roundtrip", params=dict(x=REST, config=CFGT), returns=REST, ghost_scope=S + "structures.py",
         body=RT.format(n="pibas_result_roundtrip", cls="PiBasResult"),
         ensures=["result.result == x.result"], props=["C03"])
contract("ghost:pibas_edb_roundtrip", params=dict(x=EDBT, config=CFGT), returns=EDBT, ghost_scope=S + "structures.py",
         body=RT.format(n="pibas_edb_roundtrip", cls="PiBasEncryptedDatabase"),
         ensures=["dmap(result.D) == dmap(x.D)"], props=["C03"])
