"""CJJ14.PiPack: contracts for structures, config, construction."""
from pyvc.api import *
from pyvc.engine import ClassRef
from contracts.sse_common import *

S = "schemes/CJJ14/PiPack/"
CFG = S + "config.py:PiPackConfig"
KEY = S + "structures.py:PiPackKey"
EDB = S + "structures.py:PiPackEncryptedDatabase"
TOK = S + "structures.py:PiPackToken"
RES = S + "structures.py:PiPackResult"
SCH = S + "construction.py:PiPack"
CFGT, KEYT, EDBT, TOKT, REST, SCHT = (TObj(x) for x in (CFG, KEY, EDB, TOK, RES, SCH))
CONSTS["HEADER_PIPACK"] = b"\x93\x94Cash2014PiPack"

klass(EDB, fields=dict(D=TBL))
table_builder(EDB + ".build_from_list", returns_obj=EDBT, params=dict(cls=TAny, kv_pairs=PL, config=TAny))
CONTRACTS[EDB + ".build_from_list"].param_values = {"cls": ClassRef(EDB)}
inline(EDB + ".__init__")
inline("schemes/interface/objects.py:SSEObject.__init__")

# ---- configuration ---------------------------------------------------------------------------------------------
# class invariant = what _parse_config establishes (for every accepted configuration dict)
klass(CFG, fields=dict(param_lambda=TInt, param_B=TInt, prf_f_output_length=TInt, param_identifier_size=TInt, prf_f=PRFT, ske=AEST),
      invariant=["self.prf_f.key_length == self.param_lambda", "self.prf_f.output_length == self.prf_f_output_length",
                 "self.prf_f.message_length == -1", "self.prf_f.hash_func_name == 'sha1'",
                 "self.ske.key_length == self.param_lambda", "self.ske.message_length == -1", "self.ske.cipher_length == -1",
                 "self.prf_f_output_length > 0"],
      gen=lambda rnd: _gen_cfg(rnd))
klass(SCH, fields=dict(config=CFGT), gen=lambda rnd: dict(config=obj(CFG, **_gen_cfg(rnd))))


def _gen_cfg(rnd):
    lam = rnd.choice([16, 24, 32])
    out = rnd.choice([lam, lam, lam, 20])
    return dict(param_lambda=lam, prf_f_output_length=out, param_B=rnd.choice([1, 2, 4, 64]), param_identifier_size=rnd.choice([1, 4, 8]),
                prf_f=obj(PRF, output_length=out, key_length=lam, message_length=-1, hash_func_name="sha1"),
                ske=obj(AES, key_length=lam, cipher_length=-1, message_length=-1))


# ---- structures: wire formats (C03) ------------------------------------------------------------------------------
klass(KEY, fields=dict(K=TBytes), construct="PiPackKey({K})")
klass(TOK, fields=dict(K1=TBytes, K2=TBytes), construct="PiPackToken({K1}, {K2})")
klass(RES, fields=dict(result=BL), construct="PiPackResult({result})")
CLASSES[EDB].construct = "PiPackEncryptedDatabase({D})"
for c_ in (KEY, TOK, RES):
    inline(c_ + ".__init__")

contract(KEY + ".serialize", params=dict(self=KEYT), returns=TBytes, ensures=["result == self.K"], props=["C03"])
contract(KEY + ".deserialize", params=dict(cls=TAny, xbytes=TBytes, config=CFGT), returns=KEYT,
         param_values={"cls": ClassRef(KEY)},
         raises={"ValueError": dict(when="len(xbytes) != config.param_lambda", iff=True)},
         ensures=["result.K == xbytes"], props=["C03"])
contract(TOK + ".serialize", params=dict(self=TOKT), returns=TBytes, ensures=["result == self.K1 + self.K2"], props=["C03"])
contract(TOK + ".deserialize", params=dict(cls=TAny, xbytes=TBytes, config=CFGT), returns=TOKT,
         param_values={"cls": ClassRef(TOK)},
         requires=["config.param_lambda >= 0"],
         raises={"ValueError": dict(when="len(xbytes) != 2 * config.param_lambda", iff=True)},
         ensures=["result.K1 == xbytes[:config.param_lambda]", "result.K2 == xbytes[config.param_lambda:]"], props=["C03"])
contract(RES + ".serialize", params=dict(self=REST), returns=TBytes,
         ensures=["result == pickled_list(self.result)"], props=["C03"])
contract(RES + ".deserialize", params=dict(cls=TAny, xbytes=TBytes, config=TAny), returns=REST,
         param_values={"cls": ClassRef(RES)}, locals={"result": BL},
         ensures=["result.result == unpickled_list(xbytes)"], no_runtime=True, props=["C03"])
contract(EDB + ".serialize", params=dict(self=EDBT), returns=TBytes,
         ensures=["result == HEADER_PIPACK + pickled_tbl(dmap(self.D))"], props=["C03"])
contract(EDB + ".deserialize", params=dict(cls=TAny, xbytes=TBytes, config=TAny), returns=EDBT,
         param_values={"cls": ClassRef(EDB)}, locals={"D": TBL},
         raises={"ValueError": dict(when="xbytes[:len(HEADER_PIPACK)] != HEADER_PIPACK", iff=True)},
         ensures=["dmap(result.D) == unpickled_tbl(xbytes[len(HEADER_PIPACK):])"], no_runtime=True, props=["C03"])

# round trips as verified client code over the contracts (+ P1)
RT = """def {n}(x, config):
    return {cls}.deserialize(x.serialize(), config)
"""
contract("ghost:pipack_key_roundtrip", params=dict(x=KEYT, config=CFGT), returns=KEYT, ghost_scope=S + "structures.py",
         body=RT.format(n="pipack_key_roundtrip", cls="PiPackKey"),
         requires=["len(x.K) == config.param_lambda"],   # established by _Gen (len K == param_lambda)
         ensures=["result.K == x.K"], props=["C03"])
contract("ghost:pipack_token_roundtrip", params=dict(x=TOKT, config=CFGT), returns=TOKT, ghost_scope=S + "structures.py",
         body=RT.format(n="pipack_token_roundtrip", cls="PiPackToken"),
         # established by _Trap: both components are PRF outputs; and the PRF output length equals param_lambda
         # whenever an index could be built (prf_f's key length is param_lambda, see _Enc's exception freedom)
         requires=["len(x.K1) == config.param_lambda", "len(x.K2) == config.param_lambda"],
         ensures=["result.K1 == x.K1", "result.K2 == x.K2"], props=["C03"])
contract("ghost:pipack_result_roundtrip", params=dict(x=REST, config=CFGT), returns=REST, ghost_scope=S + "structures.py",
         body=RT.format(n="pipack_result_roundtrip", cls="PiPackResult"),
         ensures=["result.result == x.result"], props=["C03"])
contract("ghost:pipack_edb_roundtrip", params=dict(x=EDBT, config=CFGT), returns=EDBT, ghost_scope=S + "structures.py",
         body=RT.format(n="pipack_edb_roundtrip", cls="PiPackEncryptedDatabase"),
         ensures=["dmap(result.D) == dmap(x.D)"], props=["C03"])

# ---- construction ----------------------------------------------------------------------------------------------
B01 = z3.Unit(z3.BitVecVal(1, 8))
B02 = z3.Unit(z3.BitVecVal(2, 8))
_dkD = speclib.dkeys_fn(DBT)
_kpD = speclib.dkpos_fn(DBT)


def i2b_min(c):
    return i2b(c, (bitlen(c) + 7) / 8)


def pk_core(out, K, DB, l, B, idsz):
    """l is the label of the stored pair (w, c):  returns (core condition, w, c)"""
    key = prf_kinv(l)
    msg = prf_minv(l)
    km = prf_minv(key)
    w = z3.Extract(km, 1, Len(km) - 1)
    c = b2i(msg)
    core = z3.And(l == prf(SHA1, out, key, msg), key == prf(SHA1, out, K, z3.Concat(B01, w)), db_has(DB, w),
                  msg == i2b_min(c), c < Len(_pay(DB, w, B, idsz)))
    return core, w, c


from contracts.toolkit_bytes import part, part_from, parse, nz_upto


def _pay(DB, w, B, idsz):
    return part(db_list(DB, w), B, B * idsz)


def _pk_inv(M, out, K, DB, kidx, ccur, B, idsz):
    l = z3.Const("l_", BYTES)
    core, w, c = pk_core(out, K, DB, l, B, idsz)
    okk = z3.And(core, z3.Or(_kpD(DB, w) < kidx, z3.And(_kpD(DB, w) == kidx, c < ccur)))
    cell = z3.Select(M, l)
    body = z3.And(z3.Not(OB.is_none(cell)) == okk,
                  z3.Implies(okk, is_enc(prf(SHA1, out, K, z3.Concat(B02, w)), _pay(DB, w, B, idsz)[c], OB.val(cell))))
    return z3.ForAll([l], body, patterns=[z3.Select(M, l)])


pk_inv = specfn("pk_inv", [TBL, TInt, TBytes, DBT, TInt, TInt, TInt, TInt], TBool,
                doc="the pair list so far is exactly the encrypted postings of keywords before position kidx, plus the "
                    "first ccur postings of keyword kidx")
pk_inv.define = _pk_inv
pk_repr = specfn("pk_repr", [TBL, TInt, TBytes, DBT, TInt, TInt], TBool,
                 doc="Repr: the table represents DB under K: label(w,c) -> an encryption of DB[w][c], nothing else")
pk_repr.define = lambda M, out, K, DB, B, idsz: _pk_inv(M, out, K, DB, Len(_dkD(DB)), z3.IntVal(0), B, idsz)

from contracts.toolkit_bytes import all_len  # noqa
B_, id_ = z3.Ints("B_ id_")
valid_db = specfn("valid_db", [DBT, TInt], TBool,
                  py=lambda db, s: all(all(len(i) == s and i != bytes(s) for i in v) for v in db.values()),
                  doc="every posting list consists of identifiers of exactly s bytes that are not all-zero")


def _valid_db(DB, s):
    w = z3.Const("vw_", BYTES)
    return z3.ForAll([w], z3.Implies(db_has(DB, w), z3.And(all_len_upto(db_list(DB, w), s, Len(db_list(DB, w))),
                                                          nz_upto(db_list(DB, w), Len(db_list(DB, w))))),
                     patterns=[z3.Select(DB, w)])


valid_db.define = _valid_db
blocks_upto = specfn("blocks_upto", [DBT, TInt, TInt], TInt,
                     py=lambda db, k, B: sum(-(-len(v) // B) for v in list(db.values())[:max(k, 0)]),
                     doc="number of blocks of the first k keywords")
blocks_upto.define = lambda db, k, B: z3.If(k <= 0, 0, blocks_upto(db, k - 1, B) +
                                            (Len(ODB.val(z3.Select(db, _dkD(db)[k - 1]))) + B - 1) / B)

CFGP = "self.config.param_lambda, {K}, {DB}, {a}, {b}, self.config.param_B, self.config.param_identifier_size"
VALID_CFG = ["self.config.prf_f_output_length == self.config.param_lambda", "self.config.param_lambda >= 8",
             "self.config.param_B > 0", "self.config.param_identifier_size > 0"]
contract(SCH + "._Gen", modifies_ghost=["rng_n"], params=dict(self=SCHT), returns=KEYT,
         requires=["self.config.param_lambda >= 0"],
         ensures=["len(result.K) == self.config.param_lambda", "result.K == draw(old(rng_n))", "rng_n == old(rng_n) + 1"], props=["C01", "C03"])
contract(SCH + "._Trap", params=dict(self=SCHT, K=KEYT, keyword=TBytes), returns=TOKT,
         requires=VALID_CFG + ["len(K.K) == self.config.param_lambda"],
         ensures=["result.K1 == prf('sha1', self.config.param_lambda, K.K, b'\\x01' + keyword)",
                  "result.K2 == prf('sha1', self.config.param_lambda, K.K, b'\\x02' + keyword)",
                  "len(result.K1) == self.config.param_lambda", "len(result.K2) == self.config.param_lambda"],
         props=["C01", "C02", "C03", "C07"])
contract(SCH + "._Enc", modifies_ghost=["rng_n"], params=dict(self=SCHT, K=KEYT, database=DBT), returns=EDBT,
         requires=VALID_CFG + ["len(K.K) == self.config.param_lambda", "valid_db(database, self.config.param_identifier_size)"],
         ensures=["pk_repr(dmap(result.D), self.config.param_lambda, K.K, database, self.config.param_B, self.config.param_identifier_size)",
                  "len(result.D) == blocks_upto(database, len(database), self.config.param_B)",
                  "asc_bl(dkeys(result.D), len(result.D))"],      # C06: labels in ascending order whatever the input order
         locals={"L": PL},
         lemmas=["A2_prf_injective", "A6_prf_len", "lmapf_frame", "distinct_frame", "dec_enc", "firsts_asc", "B3_sort_len"],
         loops={0: dict(exit_hints=[("firsts_asc", ["sorted_pairs(L)", "len(L)"])], invariant=[
                    "pk_inv(lmapf(L, len(L)), " + CFGP.format(K="K", DB="database", a="it", b="0") + ")",
                    "distinct_upto(L, len(L))", "len(L) == blocks_upto(database, it, self.config.param_B)"]),
                1: dict(invariant=[
                    "pk_inv(lmapf(L, len(L)), " + CFGP.format(K="K", DB="database", a="_it0", b="it") + ")",
                    "distinct_upto(L, len(L))", "len(L) == blocks_upto(database, _it0, self.config.param_B) + it",
                    "block_list == part(database[keyword], self.config.param_B, self.config.param_B * self.config.param_identifier_size)",
                    "len(block_list) == (len(database[keyword]) + self.config.param_B - 1) // self.config.param_B",
                    "K1 == prf('sha1', self.config.param_lambda, K, b'\\x01' + keyword)",
                    "K2 == prf('sha1', self.config.param_lambda, K, b'\\x02' + keyword)"])},
         props=["C01", "C02", "C05", "C07"])
NB = "((len(gDB[gq]) + self.config.param_B - 1) // self.config.param_B if gq in gDB else 0)"
contract(SCH + "._Search", params=dict(self=SCHT, edb=EDBT, tk=TOKT), returns=REST,
         ghost=dict(gK=TBytes, gDB=DBT, gq=TBytes),
         requires=VALID_CFG + ["pk_repr(dmap(edb.D), self.config.param_lambda, gK, gDB, self.config.param_B, self.config.param_identifier_size)",
                               "valid_db(gDB, self.config.param_identifier_size)",
                               "tk.K1 == prf('sha1', self.config.param_lambda, gK, b'\\x01' + gq)",
                               "tk.K2 == prf('sha1', self.config.param_lambda, gK, b'\\x02' + gq)"],
         ensures=["result.result == (gDB[gq] if gq in gDB else [])"],
         locals={"result": BL},
         lemmas=["A2_prf_injective", "A6_prf_len", "dec_enc"],
         loops={0: dict(invariant=["c >= 0", "c <= " + NB,
                                   "result == (gDB[gq][:min(c * self.config.param_B, len(gDB[gq]))] if gq in gDB else [])"],
                        hints=[("part_nth", ["gDB[gq]", "self.config.param_B", "self.config.param_B * self.config.param_identifier_size", "0", "c"]),
                               ("part_len", ["gDB[gq]", "self.config.param_B", "self.config.param_B * self.config.param_identifier_size", "0"]),
                               ("parse_block", ["gDB[gq]", "self.config.param_identifier_size", "self.config.param_B",
                                                "self.config.param_B * self.config.param_identifier_size", "c * self.config.param_B"]),
                               ("ext_append", ["gDB[gq]", "c * self.config.param_B",
                                               "min(c * self.config.param_B + self.config.param_B, len(gDB[gq])) - c * self.config.param_B"]),
                               ("mul_mono", ["c + 1", "(len(gDB[gq]) + self.config.param_B - 1) // self.config.param_B", "self.config.param_B"]),
                               ("div_bounds", ["len(gDB[gq]) + self.config.param_B - 1", "self.config.param_B"])])},
         unfold_only=["pk_repr", "pk_inv", "valid_db", "part", "is_enc", "dec", "dec_ok"],
         props=["C01", "C02", "C07"])

# ---- configuration parsing, scheme construction, public wrappers ----------------------------------------------------
inline("toolkit/prf/__init__.py:get_prf_implementation", "toolkit/symmetric_encryption/__init__.py:get_symmetric_encryption_implementation",
       "schemes/interface/config.py:SSEConfig.__init__", "schemes/interface/config.py:SSEConfig.check_param_exist",
       "schemes/interface/inverted_index_sse.py:InvertedIndexSSE.__init__")
CFGD = TPyDict(dict(scheme="CJJ14.PiPack", param_lambda=TInt, param_B=TInt, prf_f_output_length=TInt, param_identifier_size=TInt,
                    prf_f="HmacPRF", ske="AES-CBC"))
inline(CFG + ".__init__")
contract(CFG + "._parse_config", params=dict(self=CFGT, config_dict=CFGD), modifies=["self"],
         requires=["config_dict['prf_f_output_length'] >= 0"],
         raises={"ValueError": dict(when="config_dict['param_lambda'] == -1 or config_dict['prf_f_output_length'] == -1 or "
                                         "config_dict['param_B'] == -1 or config_dict['param_identifier_size'] == -1 or "
                                         "not (config_dict['param_lambda'] == 16 or config_dict['param_lambda'] == 24 or "
                                         "config_dict['param_lambda'] == 32)", iff=True)},
         ensures=["self.param_lambda == config_dict['param_lambda']", "self.param_B == config_dict['param_B']",
                  "self.param_identifier_size == config_dict['param_identifier_size']",
                  "self.prf_f_output_length == config_dict['prf_f_output_length']",
                  "self.prf_f.key_length == self.param_lambda",
                  "self.prf_f.output_length == (self.prf_f_output_length if self.prf_f_output_length != 0 else 20)",
                  "self.prf_f.message_length == -1", "self.prf_f.hash_func_name == 'sha1'",
                  "self.ske.key_length == self.param_lambda", "self.ske.message_length == -1", "self.ske.cipher_length == -1"],
         lemmas=["X4_sha1_avail"], no_runtime=True, props=["C08", "C03", "C07"])
for m_ in ("KeyGen", "EDBSetup", "TokenGen", "Search"):
    inline(SCH + "." + m_)

# C01 / C02 for PiPack: verified client code over the contracts of _Enc, _Trap, _Search (public wrappers inlined)
contract("ghost:pipack_search_correct", modifies_ghost=["rng_n"], params=dict(sse=SCHT, key=KEYT, database=DBT, keyword=TBytes), returns=REST,
         body="""def pipack_search_correct(sse, key, database, keyword):
    gK = key.K
    gDB = database
    gq = keyword
    edb = sse.EDBSetup(key, database)
    tk = sse.TokenGen(key, keyword)
    return sse.Search(edb, tk)
""",
         requires=[r.replace("self.", "sse.") for r in VALID_CFG] + ["len(key.K) == sse.config.param_lambda",
                                                                     "valid_db(database, sse.config.param_identifier_size)"],
         ensures=["result.result == (database[keyword] if keyword in database else [])"], props=["C01", "C02"])
