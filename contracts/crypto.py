"""Contracts for the PRF / hash / AES-CBC wrappers (properties C16, C14) and the assumed contracts of the
external libraries they sit on (hmac, hashlib, functools.partial, cryptography).  Everything registered with
`external(...)` or `axiom(...)` here is an ASSUMPTION about a dependency (X1-X4 in DESIGN.md), listed in evidence.
"""
from pyvc.api import *
from pyvc.engine import Ref, Opaque, ExtRef, SV, PyRaise, Unsupported, z3_int
from pyvc.ty import lift
import z3
import contracts.toolkit_bytes

Len = z3.Length
Imp, And, Or, Not, MP = z3.Implies, z3.And, z3.Or, z3.Not, z3.MultiPattern
STR = z3.StringSort()
nm = z3.Const("nm", STR)
ky, ms, dt, iv = z3.Consts("ky ms dt iv", BYTES)
k, n, o = z3.Ints("k n o")


# ---- X4: hmac / hashlib -------------------------------------------------------------------------------
def _hmac_py(name, key, msg):
    import hmac
    return hmac.new(key, msg, name).digest()


def _hash_py(name, msg):
    import hashlib
    return hashlib.new(name, msg).digest()


def _dsize_py(name):
    import hashlib
    return hashlib.new(name).digest_size


HMAC = specfn("HMAC", [TStr, TBytes, TBytes], TBytes, py=_hmac_py, doc="hmac.new(key, msg, name).digest()")
HASH = specfn("HASH", [TStr, TBytes], TBytes, py=_hash_py, doc="hashlib.new(name, msg).digest()")
dsize = specfn("dsize", [TStr], TInt, py=_dsize_py, doc="digest size of the named hash")
XOF = specfn("XOF", [TStr, TBytes, TInt], TBytes, py=lambda name, msg, n: __import__("hashlib").new(name, msg).digest(n),
             doc="hashlib.new(name, msg).digest(n) for the SHAKE functions")
hash_available = specfn("hash_available", [TStr], TBool, py=lambda name: name in __import__("hashlib").algorithms_available)
str_lower = specfn("str_lower", [TStr], TStr, py=lambda s: s.lower())

axiom("X4_hmac_len", [nm, ky, ms], Len(HMAC(nm, ky, ms)) == dsize(nm), patterns=[HMAC(nm, ky, ms)], auto=True,
      note="X4: an HMAC digest has digest_size bytes")
axiom("X4_hash_len", [nm, ms], Len(HASH(nm, ms)) == dsize(nm), patterns=[HASH(nm, ms)], auto=True,
      note="X4: a hash digest has digest_size bytes")
axiom("X4_dsize_pos", [nm], Imp(And(hash_available(nm), nm != z3.StringVal("shake_128"), nm != z3.StringVal("shake_256")),
                                dsize(nm) > 0), patterns=[dsize(nm)], auto=True,
      note="X4: digest_size > 0 for every available hash other than the SHAKE functions (which report 0 and are "
           "handled by the XOF branch of the wrapper)")
axiom("X4_sha1_size", [], dsize(z3.StringVal("sha1")) == 20, auto=True, note="X4: hashlib.sha1().digest_size == 20")
axiom("X4_sha1_avail", [], And(hash_available(z3.StringVal("sha1")), hash_available(z3.StringVal("sha256")),
                               hash_available(z3.StringVal("md5")), hash_available(z3.StringVal("sha512"))), auto=True,
      note="X4: sha1, sha256, sha512, md5 are in hashlib.algorithms_available")
axiom("X4_xof_len", [nm, ms, n], Imp(n >= 0, Len(XOF(nm, ms, n)) == n), patterns=[XOF(nm, ms, n)], auto=True,
      note="X4: SHAKE digest(n) has n bytes")


def _is_str(v):
    return isinstance(v, str) or (isinstance(v, SV) and v.ty == TStr)


@external("hashlib.algorithms_available.__contains__")
def _avail(E, a, kw, fr, node):
    raise Unsupported("unused")


@external("functools.partial", "functools.partial(f, *args, **kw) calls f with the stored arguments prepended / merged")
def _partial(E, a, kw, fr, node):
    return E.alloc(("ext", "partial", (a[0], tuple(a[1:]), dict(kw))))


@external("partial.__call__")
def _partial_call(E, a, kw, fr, node):
    from pyvc.builtins_ import apply
    f, pargs, pkw = E.cell(a[0])[2]
    kws = dict(pkw)
    kws.update(kw)
    return apply(E, f, list(pargs) + list(a[1:]), kws, fr, node)


@external("hmac.new", "X4: hmac.new(key, msg, digestmod=name) is a pure function object of (name, key, msg)")
def _hmac_new(E, a, kw, fr, node):
    key = a[0]
    msg = a[1] if len(a) > 1 else kw.get("msg", b"")
    name = a[2] if len(a) > 2 else kw.get("digestmod")
    if name is None or not _is_str(name):
        if isinstance(name, ExtRef):   # hashlib.sha1 etc.
            name = name.name.split(".")[-1]
        else:
            raise Unsupported("hmac.new digestmod %r" % (name,))
    if not is_byteslike_(key) or not is_byteslike_(msg):
        raise PyRaise("TypeError", getattr(node, "lineno", 0))
    return E.alloc(("ext", "hmac", (lift(name), lift(key), lift(msg))))


def is_byteslike_(v):
    return isinstance(v, (bytes, bytearray)) or (isinstance(v, SV) and v.ty == TBytes)


@external("hmac.digest")
def _hmac_digest(E, a, kw, fr, node):
    name, key, msg = E.cell(a[0])[2]
    return SV(HMAC(name.t, key.t, msg.t), TBytes)


@external("hmac.hexdigest")
def _hmac_hexdigest(E, a, kw, fr, node):
    name, key, msg = E.cell(a[0])[2]
    from pyvc.containers import hexfn
    return SV(hexfn()(HMAC(name.t, key.t, msg.t)), TStr)


@external("hashlib.new", "X4: hashlib.new(name, msg) is a pure function object of (name, msg)")
def _hashlib_new(E, a, kw, fr, node):
    name = a[0]
    msg = a[1] if len(a) > 1 else kw.get("data", b"")
    return E.alloc(("ext", "hash", (lift(name), lift(msg))))


@external("hash.digest")
def _hash_digest(E, a, kw, fr, node):
    name, msg = E.cell(a[0])[2]
    if len(a) > 1:
        n = z3_int(a[1])
        E.may_raise("ValueError", n < 0, getattr(node, "lineno", 0))
        return SV(XOF(name.t, msg.t, n), TBytes)
    return SV(HASH(name.t, msg.t), TBytes)


def ext_attr(E, obj, attr):
    """attribute reads on external objects"""
    c = E.cell(obj)
    if c[1] == "hmac" and attr == "digest_size":
        return SV(dsize(c[2][0].t), TInt)
    if c[1] == "hash" and attr == "digest_size":
        return SV(dsize(c[2][0].t), TInt)
    return None


import pyvc.builtins_ as _B
_B.EXT_ATTR.append(ext_attr)
_B.CONTAINS_EXT["hashlib.algorithms_available"] = lambda E, x: hash_available(lift(x).t)


@external("hashlib.algorithms_available")
def _algs(E, a, kw, fr, node):
    raise Unsupported("hashlib.algorithms_available is only supported in membership tests")


# ---- spec of RFC 5246 P_hash ---------------------------------------------------------------------------
def _A_py(name, key, msg, i):
    a = msg
    for _ in range(max(i, 0)):
        a = _hmac_py(name, key, a)
    return a


A_iter = specfn("A_iter", [TStr, TBytes, TBytes, TInt], TBytes, py=_A_py,
                doc="RFC 5246 section 5: A(0) = seed, A(i) = HMAC_hash(secret, A(i-1))")
A_iter.define = lambda name, key, msg, i: z3.If(i <= 0, msg, HMAC(name, key, A_iter(name, key, msg, i - 1)))


def _P_py(name, key, msg, k):
    return b"".join(_hmac_py(name, key, _A_py(name, key, msg, j) + msg) for j in range(1, max(k, 0) + 1))


P_upto = specfn("P_upto", [TStr, TBytes, TBytes, TInt], TBytes, py=_P_py,
                doc="RFC 5246 P_hash: HMAC(secret, A(1)+seed) + ... + HMAC(secret, A(k)+seed)")
P_upto.define = lambda name, key, msg, k: z3.If(
    k <= 0, z3.Empty(BYTES),
    z3.Concat(P_upto(name, key, msg, k - 1), HMAC(name, key, z3.Concat(A_iter(name, key, msg, k), msg))))

lemma("P_upto_len", [nm, ky, ms, k], Len(P_upto(nm, ky, ms, k)) == z3.If(k <= 0, 0, k * dsize(nm)),
      patterns=[P_upto(nm, ky, ms, k)], induct=("int", k), inst=[[nm, ky, ms, k - 1]])

PRFM = "toolkit/prf/hmac_prf.py:"
P_RESULT = "P_upto(hash_func_name, key, message, (output_len + dsize(hash_func_name) - 1) // dsize(hash_func_name))[:output_len]"
contract(PRFM + "_tls_p_hash",
         params=dict(key=TBytes, message=TBytes, output_len=TInt, hash_func_name=TStr), returns=TBytes,
         requires=["output_len >= 0", "not hash_available(hash_func_name) or dsize(hash_func_name) > 0"],
         raises={"ValueError": dict(when="not hash_available(hash_func_name)", iff=True)},
         ensures=["result == " + P_RESULT, "len(result) == output_len"],
         lemmas=["P_upto_len"],
         loops={0: dict(invariant=[
             "hash_len == dsize(hash_func_name)", "n >= 0", "n == (output_len + hash_len - 1) // hash_len - it",
             "res == P_upto(hash_func_name, key, message, it)",
             "a == A_iter(hash_func_name, key, message, it + 1)"],
             variant="n")},
         gen=lambda rnd: dict(key=bytes(rnd.getrandbits(8) for _ in range(rnd.choice([0, 1, 16, 20, 32, 63, 64, 65, 80]))),
                              message=bytes(rnd.getrandbits(8) for _ in range(rnd.choice([0, 1, 5, 32, 200]))),
                              output_len=rnd.choice([0, 1, 15, 16, 19, 20, 21, 32, 40, 41, 64, 65, 200]),
                              hash_func_name=rnd.choice(["sha1", "sha256", "sha512", "md5", "nosuchhash"])),
         props=["C16"])

PRF = PRFM + "HmacPRF"
PRFT = TObj(PRF)
klass("toolkit/prf/abstraction.py:AbstractPRF", fields=dict(output_length=TInt, key_length=TInt, message_length=TInt))
klass(PRF, fields=dict(output_length=TInt, key_length=TInt, message_length=TInt, hash_func_name=TStr),
      bases=["toolkit/prf/abstraction.py:AbstractPRF"],
      invariant=["hash_available(self.hash_func_name)", "dsize(self.hash_func_name) > 0", "self.output_length > 0", "self.key_length >= -1",
                 "self.message_length >= -1"],
      construct="HmacPRF(output_length={output_length}, key_length={key_length}, message_length={message_length}, "
                "hash_func_name={hash_func_name})",
      gen=lambda rnd: dict(output_length=rnd.choice([1, 8, 16, 20, 21, 32, 64, 100]), key_length=rnd.choice([-1, 16, 32]),
                           message_length=rnd.choice([-1, -1, 8]), hash_func_name=rnd.choice(["sha1", "sha256", "md5", "sha512"])))
inline("toolkit/prf/abstraction.py:AbstractPRF.__init__")

contract(PRF + ".__init__",
         params=dict(self=PRFT, output_length=TInt, key_length=TInt, message_length=TInt, hash_func_name=TStr),
         modifies=["self"],
         requires=["not hash_available(hash_func_name) or dsize(hash_func_name) > 0"],
         raises={"ValueError": dict(when="not hash_available(hash_func_name)", iff=True)},
         ensures=["self.output_length == (output_length if output_length != 0 else dsize(hash_func_name))",
                  "self.key_length == key_length", "self.message_length == message_length",
                  "self.hash_func_name == hash_func_name"],
         no_runtime=True, props=["C16", "C08"])

prf = specfn("prf", [TStr, TInt, TBytes, TBytes], TBytes,
             py=lambda name, out, key, msg: _P_py(name, key, msg, (out + _dsize_py(name) - 1) // _dsize_py(name))[:out],
             doc="the PRF computed by HmacPRF: P_hash(key, msg) truncated to `out` bytes")
prf.define = lambda name, out, key, msg: z3.Extract(P_upto(name, key, msg, (out + dsize(name) - 1) / dsize(name)), 0, out)

contract(PRF + ".__call__", params=dict(self=PRFT, key=TBytes, message=TBytes), returns=TBytes,
         raises={"ValueError": dict(when="(self.key_length != -1 and len(key) != self.key_length) or "
                                         "(self.message_length != -1 and len(message) != self.message_length)", iff=True)},
         ensures=["result == prf(self.hash_func_name, self.output_length, key, message)",
                  "len(result) == self.output_length"],
         reveal=["prf"], props=["C16", "C01", "C04"])

# ---- variable-length hash wrapper ------------------------------------------------------------------------
HW = "toolkit/hash.py:HashlibHashVariableOutputLengthWrapper"
HWT = TObj(HW)
klass("toolkit/hash.py:AbstractHash", fields=dict(output_length=TInt))
def _hash_func_call(E, recv, args, kwargs, fr, node):
    """class invariant of the wrapper: self.hash_func == functools.partial(hashlib.new, self.hash_func_name)"""
    name = E.cell(recv)[2]["hash_func_name"]
    return _hashlib_new(E, [name] + list(args), kwargs, fr, node)


klass(HW, fields=dict(output_length=TInt, hash_func_name=TStr, hash_func=TAny), bases=["toolkit/hash.py:AbstractHash"],
      invariant=["self.output_length >= 0", "hash_available(self.hash_func_name)"], virtual={"hash_func": _hash_func_call},
      construct="HashlibHashVariableOutputLengthWrapper(output_length={output_length}, hash_func_name={hash_func_name})",
      gen=lambda rnd: dict(output_length=rnd.choice([1, 15, 16, 20, 21, 32, 64, 65, 129, 161, 200]),
                           hash_func_name=rnd.choice(["sha1", "sha256", "md5", "sha512", "shake_128", "shake_256"])))
inline("toolkit/hash.py:AbstractHash.__init__")


def _ctr_py(name, msg, k):
    return b"".join(_hash_py(name, msg + (c.to_bytes((c.bit_length() + 7) // 8, "big"))) for c in range(1, max(k, 0) + 1))


ctr_upto = specfn("ctr_upto", [TStr, TBytes, TInt], TBytes, py=_ctr_py,
                  doc="counter-mode expansion: Hash(msg || 1) + Hash(msg || 2) + ... + Hash(msg || k), counters minimal big-endian")
ctr_upto.define = lambda name, msg, k: z3.If(
    k <= 0, z3.Empty(BYTES),
    z3.Concat(ctr_upto(name, msg, k - 1), HASH(name, z3.Concat(msg, i2b(k, (bitlen(k) + 7) / 8)))))
lemma("ctr_upto_len", [nm, ms, k], Len(ctr_upto(nm, ms, k)) == z3.If(k <= 0, 0, k * dsize(nm)),
      patterns=[ctr_upto(nm, ms, k)], induct=("int", k), inst=[[nm, ms, k - 1]])

contract(HW + "._ctr_expand", params=dict(self=HWT, message=TBytes), returns=TBytes,
         requires=["dsize(self.hash_func_name) > 0"],
         ensures=["len(result) == self.output_length",
                  "result == ctr_upto(self.hash_func_name, message, "
                  "(self.output_length + dsize(self.hash_func_name) - 1) // dsize(self.hash_func_name))[:self.output_length]"],
         lemmas=["ctr_upto_len", "div_mod_unique"],
         loops={0: dict(invariant=["c == it + 1", "result == ctr_upto(self.hash_func_name, message, it)",
                                   "it == 0 or (it - 1) * dsize(self.hash_func_name) < self.output_length"],
                        exit_hints=[("div_mod_unique", ["self.output_length + dsize(self.hash_func_name) - 1",
                                                        "dsize(self.hash_func_name)", "it",
                                                        "self.output_length + dsize(self.hash_func_name) - 1 - it * dsize(self.hash_func_name)"])])},
         props=["C16"])

contract(HW + ".__init__", params=dict(self=HWT, output_length=TInt, hash_func_name=TStr), modifies=["self"],
         raises={"ValueError": dict(when="not hash_available(str_lower(hash_func_name))", iff=True)},
         ensures=["self.output_length == (output_length if output_length != 0 else dsize(hash_func_name))",
                  "self.hash_func_name == hash_func_name"],
         no_runtime=True, props=["C16", "C08"])
contract(HW + ".__call__", params=dict(self=HWT, message=TBytes), returns=TBytes,
         ensures=["len(result) == self.output_length",
                  "result == (XOF(self.hash_func_name, message, self.output_length) "
                  "if (self.hash_func_name == 'shake_128' or self.hash_func_name == 'shake_256') else "
                  "ctr_upto(self.hash_func_name, message, (self.output_length + dsize(self.hash_func_name) - 1) // "
                  "dsize(self.hash_func_name))[:self.output_length])"],
         props=["C16", "C01"])

# ---- X1-X3: cryptography (PKCS7 padding, AES-CBC) ---------------------------------------------------------
pd = z3.Const("pd", BYTES)


def _pkcs7_py(m, kk):
    p = kk - len(m) % kk
    return m + bytes([p]) * p


pkcs7 = specfn("pkcs7", [TBytes, TInt], TBytes, py=_pkcs7_py, doc="PKCS#7 padding of m to a multiple of k bytes (RFC 5652 6.3)")
pkcs7.define = lambda m, kk: z3.Concat(m, brepeat(z3.Unit(z3.Int2BV(kk - Len(m) % kk, 8)), kk - Len(m) % kk))
pkcs7_valid = specfn("pkcs7_valid", [TBytes, TInt], TBool,
                     py=lambda d, kk: len(d) > 0 and len(d) % kk == 0 and 1 <= d[-1] <= kk and d.endswith(bytes([d[-1]]) * d[-1]))
unpad7 = specfn("unpad7", [TBytes, TInt], TBytes, py=lambda d, kk: d[:len(d) - d[-1]] if d else d)


def _cbc_enc_py(key, iv, data):
    from cryptography.hazmat.primitives.ciphers import Cipher, algorithms, modes
    e = Cipher(algorithms.AES(key), modes.CBC(iv)).encryptor()
    return e.update(data) + e.finalize()


def _cbc_dec_py(key, iv, data):
    from cryptography.hazmat.primitives.ciphers import Cipher, algorithms, modes
    e = Cipher(algorithms.AES(key), modes.CBC(iv)).decryptor()
    return e.update(data) + e.finalize()


cbc_enc = specfn("cbc_enc", [TBytes, TBytes, TBytes], TBytes, py=_cbc_enc_py, doc="AES-CBC encryption of a whole number of blocks")
cbc_dec = specfn("cbc_dec", [TBytes, TBytes, TBytes], TBytes, py=_cbc_dec_py, doc="AES-CBC decryption of a whole number of blocks")
axiom("X1_pad_valid", [pd, k], Imp(And(k >= 1, k <= 255), And(pkcs7_valid(pkcs7(pd, k), k), unpad7(pkcs7(pd, k), k) == pd)),
      patterns=[pkcs7(pd, k)], note="X1: PKCS7 unpadder accepts what the padder produced and returns the message", auto=False)
axiom("X2_cbc_len", [ky, iv, dt], And(Len(cbc_enc(ky, iv, dt)) == Len(dt), Len(cbc_dec(ky, iv, dt)) == Len(dt)),
      patterns=[cbc_enc(ky, iv, dt), cbc_dec(ky, iv, dt)], note="X2: CBC is length preserving on whole blocks")
axiom("X2_cbc_inv", [ky, iv, dt], cbc_dec(ky, iv, cbc_enc(ky, iv, dt)) == dt,
      patterns=[cbc_enc(ky, iv, dt)], note="X2: the decryptor inverts the encryptor for the same key and IV")
lemma("pkcs7_len", [pd, k], Imp(k >= 1, Len(pkcs7(pd, k)) == k * (Len(pd) / k + 1)), patterns=[pkcs7(pd, k)])


@external("cryptography.hazmat.primitives.padding.PKCS7", "X1")
def _PKCS7(E, a, kw, fr, node):
    return E.alloc(("ext", "PKCS7", (a[0],)))


@external("PKCS7.padder")
def _padder(E, a, kw, fr, node):
    return E.alloc(("ext", "padder", (E.cell(a[0])[2][0], None)))


@external("PKCS7.unpadder")
def _unpadder(E, a, kw, fr, node):
    return E.alloc(("ext", "unpadder", (E.cell(a[0])[2][0], None)))


def _split_out(E, obj, total):
    """update() returns the first j bytes of the total output, finalize() the rest (only their concatenation is
    specified by the library; j is an arbitrary split point)"""
    j = E.fresh("split", TInt)
    E.assume(z3.And(j.t >= 0, j.t <= Len(total)))
    return SV(z3.Extract(total, 0, j.t), TBytes)


@external("padder.update", "X1: padder.update(m) + padder.finalize() == pkcs7(m, block_bytes)")
def _padder_update(E, a, kw, fr, node):
    bits, st = E.cell(a[0])[2]
    if st is not None:
        raise Unsupported("second update of a padder")
    bs = z3_int(bits) / 8
    total = pkcs7(lift(a[1]).t, bs)
    u = _split_out(E, a[0], total)
    E.setcell(a[0], ("ext", "padder", (bits, (total, u))))
    return u


@external("padder.finalize")
def _padder_finalize(E, a, kw, fr, node):
    bits, st = E.cell(a[0])[2]
    total, u = st
    return SV(z3.Extract(total, Len(u.t), Len(total) - Len(u.t)), TBytes)


@external("unpadder.update", "X1: unpadder.update(d) + unpadder.finalize() == unpad7(d) when d is validly padded, else finalize raises ValueError")
def _unpadder_update(E, a, kw, fr, node):
    bits, st = E.cell(a[0])[2]
    bs = z3_int(bits) / 8
    d = lift(a[1]).t
    total = unpad7(d, bs)
    u = _split_out(E, a[0], total)
    E.setcell(a[0], ("ext", "unpadder", (bits, (total, u, d, bs))))
    return u


@external("unpadder.finalize")
def _unpadder_finalize(E, a, kw, fr, node):
    bits, st = E.cell(a[0])[2]
    total, u, d, bs = st
    E.may_raise("ValueError", z3.Not(pkcs7_valid(d, bs)), getattr(node, "lineno", 0), "invalid padding")
    return SV(z3.Extract(total, Len(u.t), Len(total) - Len(u.t)), TBytes)


@external("cryptography.hazmat.primitives.ciphers.algorithms.AES", "X2: AES(key) raises ValueError unless len(key) in {16, 24, 32}")
def _AES(E, a, kw, fr, node):
    key = lift(a[0])
    n = Len(key.t)
    E.may_raise("ValueError", z3.Not(z3.Or(n == 16, n == 24, n == 32)), getattr(node, "lineno", 0), "invalid AES key size")
    return E.alloc(("ext", "AES", (key,)))


@external("cryptography.hazmat.primitives.ciphers.modes.CBC", "X2: CBC(iv) raises ValueError unless len(iv) == 16")
def _CBC(E, a, kw, fr, node):
    ivv = lift(a[0])
    E.alloc(("ext", "CBC", (ivv,)))
    return E.alloc(("ext", "CBC", (ivv,)))


@external("cryptography.hazmat.primitives.ciphers.Cipher", "X2")
def _Cipher(E, a, kw, fr, node):
    key = E.cell(a[0])[2][0]
    ivv = E.cell(a[1])[2][0]
    E.may_raise("ValueError", Len(ivv.t) != 16, getattr(node, "lineno", 0), "invalid IV size for CBC")
    return E.alloc(("ext", "Cipher", (key, ivv)))


@external("Cipher.encryptor")
def _encryptor(E, a, kw, fr, node):
    key, ivv = E.cell(a[0])[2]
    return E.alloc(("ext", "cryptor", (key, ivv, "enc", None)))


@external("Cipher.decryptor")
def _decryptor(E, a, kw, fr, node):
    key, ivv = E.cell(a[0])[2]
    return E.alloc(("ext", "cryptor", (key, ivv, "dec", None)))


@external("cryptor.update", "X2: update(d) + finalize() == cbc_enc/cbc_dec(key, iv, d); finalize raises ValueError unless len(d) % 16 == 0")
def _cryptor_update(E, a, kw, fr, node):
    key, ivv, mode, st = E.cell(a[0])[2]
    d = lift(a[1]).t
    total = (cbc_enc if mode == "enc" else cbc_dec)(key.t, ivv.t, d)
    u = _split_out(E, a[0], total)
    E.setcell(a[0], ("ext", "cryptor", (key, ivv, mode, (total, u, d))))
    return u


@external("cryptor.finalize")
def _cryptor_finalize(E, a, kw, fr, node):
    key, ivv, mode, st = E.cell(a[0])[2]
    total, u, d = st
    E.may_raise("ValueError", Len(d) % 16 != 0, getattr(node, "lineno", 0), "data not a multiple of the block length")
    return SV(z3.Extract(total, Len(u.t), Len(total) - Len(u.t)), TBytes)


from pyvc.externals import EXT_CONSTS
EXT_CONSTS["cryptography.hazmat.primitives.ciphers.algorithms.AES.block_size"] = 128   # X3


SP = "toolkit/symmetric_padding.py:"
contract(SP + "pkcs7_pad", params=dict(message=TBytes, block_size=TInt), returns=TBytes,
         requires=["block_size >= 8", "block_size <= 2040", "block_size % 8 == 0"],
         ensures=["result == pkcs7(message, block_size // 8)"], domains=dict(block_size=SMALL),
         gen=lambda rnd: dict(message=bytes(rnd.getrandbits(8) for _ in range(rnd.choice([0, 1, 15, 16, 17, 31, 32, 33, 80]))), block_size=128),
         props=["C14"])
contract(SP + "pkcs7_unpad", params=dict(padded_message=TBytes, block_size=TInt), returns=TBytes,
         requires=["block_size >= 8", "block_size <= 2040", "block_size % 8 == 0"],
         raises={"ValueError": dict(when="not pkcs7_valid(padded_message, block_size // 8)", iff=True)},
         ensures=["result == unpad7(padded_message, block_size // 8)"],
         gen=lambda rnd: dict(padded_message=rnd.choice([
             _pkcs7_py(bytes(rnd.getrandbits(8) for _ in range(rnd.choice([0, 1, 15, 16, 17, 40]))), 16),
             bytes(rnd.getrandbits(8) for _ in range(rnd.choice([0, 16, 32, 5])))]), block_size=128),
         props=["C14"])

AES = "toolkit/symmetric_encryption/aes.py:AESxCBC"
AEST = TObj(AES)
ABS = "toolkit/symmetric_encryption/abstraction.py:AbstractSymmetricEncryption"
klass(ABS, fields=dict(cipher_length=TInt, key_length=TInt, message_length=TInt))
klass(AES, fields=dict(cipher_length=TInt, key_length=TInt, message_length=TInt), bases=[ABS],
      invariant=["self.key_length == 16 or self.key_length == 24 or self.key_length == 32",
                 "self.cipher_length == -1 or self.cipher_length % 16 == 0"],
      construct="AESxCBC(key_length={key_length}, cipher_length={cipher_length}, message_length={message_length})",
      gen=lambda rnd: dict(key_length=rnd.choice([16, 24, 32]), cipher_length=rnd.choice([-1, -1, 32, 48]),
                           message_length=rnd.choice([-1, -1, 0, 8, 16])))
inline(ABS + ".__init__")
contract(AES + ".__init__", params=dict(self=AEST, key_length=TInt, cipher_length=TInt, message_length=TInt),
         modifies=["self"],
         raises={"ValueError": dict(when="not (key_length == 16 or key_length == 24 or key_length == 32) or "
                                         "(cipher_length != -1 and cipher_length % 16 != 0)", iff=True)},
         ensures=["self.key_length == key_length", "self.cipher_length == cipher_length",
                  "self.message_length == message_length", "inv(self)"],
         no_runtime=True, props=["C14", "C08"])
contract(AES + ".KeyGen", params=dict(self=AEST), returns=TBytes, modifies_ghost=["rng_n"],
         ensures=["len(result) == self.key_length", "result == draw(old(rng_n))", "rng_n == old(rng_n) + 1"], props=["C14"])
_genkm = lambda rnd: None
contract(AES + ".Encrypt", params=dict(self=AEST, key=TBytes, message=TBytes), returns=TBytes, modifies_ghost=["rng_n"],
         raises={"ValueError": dict(when="(self.message_length != -1 and len(message) != self.message_length) or "
                                         "len(key) != self.key_length", iff=True)},
         ensures=["len(result) == 16 + 16 * (len(message) // 16 + 1)",
                  "result[16:] == cbc_enc(key, result[:16], pkcs7(message, 16))",
                  # fresh randomness: the IV is the value the random source hands out during THIS call, whatever
                  # state the object is in (A1: different draws differ) -- no pool, no counter, no reuse
                  "result[:16] == draw(old(rng_n))", "rng_n == old(rng_n) + 1"],
         lemmas=["X2_cbc_len"], hints=[("pkcs7_len", ["message", "16"])],
         gen=lambda rnd: _gen_enc(rnd),
         props=["C14", "C01", "C04", "C05"])
contract(AES + ".Decrypt", params=dict(self=AEST, key=TBytes, cipher_text=TBytes), returns=TBytes,
         raises={"ValueError": dict(when="(self.cipher_length != -1 and len(cipher_text) != self.cipher_length) or "
                                         "len(key) != self.key_length or len(cipher_text) < 16 or len(cipher_text) % 16 != 0 or "
                                         "not pkcs7_valid(cbc_dec(key, cipher_text[:16], cipher_text[16:]), 16)", iff=True)},
         ensures=["result == unpad7(cbc_dec(key, cipher_text[:16], cipher_text[16:]), 16)"],
         lemmas=["X2_cbc_len"],
         gen=lambda rnd: _gen_dec(rnd),
         props=["C14", "C01", "C02"])


def _gen_enc(rnd):
    kl = rnd.choice([16, 24, 32])
    ml = rnd.choice([-1, -1, -1, 8])
    n = rnd.choice([0, 1, 8, 15, 16, 17, 31, 32, 33, 48, 80, 200])
    return dict(self=obj(AES, key_length=kl, cipher_length=-1, message_length=ml),
                key=bytes(rnd.getrandbits(8) for _ in range(rnd.choice([kl, kl, kl, 16]))),
                message=bytes(rnd.getrandbits(8) for _ in range(n)))


def _gen_dec(rnd):
    kl = rnd.choice([16, 24, 32])
    key = bytes(rnd.getrandbits(8) for _ in range(kl))
    m = bytes(rnd.getrandbits(8) for _ in range(rnd.choice([0, 1, 15, 16, 17, 40])))
    ivb = bytes(rnd.getrandbits(8) for _ in range(16))
    ct = ivb + _cbc_enc_py(key, ivb, _pkcs7_py(m, 16))
    r = rnd.random()
    if r < 0.2:
        ct = ct[:-1]
    elif r < 0.35:
        ct = bytes(rnd.getrandbits(8) for _ in range(len(ct)))
    elif r < 0.45:
        key = bytes(rnd.getrandbits(8) for _ in range(kl))
    return dict(self=obj(AES, key_length=kl, cipher_length=rnd.choice([-1, -1, len(ct) if len(ct) % 16 == 0 else -1]), message_length=-1), key=key, cipher_text=ct)


# Decrypt(k, Encrypt(k, m)) == m, as ghost client code over the two contracts (A3 is thereby proved from X1, X2)
contract("ghost:aes_roundtrip", modifies_ghost=["rng_n"], params=dict(ske=AEST, key=TBytes, message=TBytes), returns=TBytes,
         body="def aes_roundtrip(ske, key, message):\n    return ske.Decrypt(key, ske.Encrypt(key, message))\n",
         requires=["len(key) == ske.key_length", "ske.message_length == -1 or len(message) == ske.message_length",
                   "ske.cipher_length == -1 or ske.cipher_length == 16 + 16 * (len(message) // 16 + 1)"],
         ensures=["result == message"], lemmas=["X2_cbc_inv", "X2_cbc_len"],
         hints=[("pkcs7_len", ["message", "16"]), ("X1_pad_valid", ["message", "16"])], props=["C14", "C01"])


# two encryptions on one object differ, however far apart in the object's history (the call in between stands for
# any use of the object: its contract does not say where the random tape stands afterwards, only that it never rewinds)
contract("ghost:aes_fresh_iv", params=dict(ske=AEST, key=TBytes, m1=TBytes, m2=TBytes, other=TBytes), returns=TBool,
         body="def aes_fresh_iv(ske, key, m1, m2, other):\n    c1 = ske.Encrypt(key, m1)\n    k2 = ske.KeyGen()\n"
              "    c0 = ske.Encrypt(k2, other)\n    c2 = ske.Encrypt(key, m2)\n    return c1 != c2 and c0 != c2 and c1 != c0\n",
         requires=["len(key) == ske.key_length", "ske.message_length == -1",
                   ],
         ensures=["result == True"], lemmas=["X2_cbc_len", "A1_fresh"], modifies_ghost=["rng_n"],
         hints=[("pkcs7_len", ["m1", "16"]), ("pkcs7_len", ["m2", "16"]), ("pkcs7_len", ["other", "16"])], props=["C14", "C04"])


# ---- bounded stand-ins (run-time, labelled bounded in evidence; never counted as proved) ----------------------
def rt_iv_fresh(rnd, tier):
    """Histories: many encryptions on ONE cipher object -- all ciphertexts and all IVs pairwise distinct.
    (The per-call fact `IV == the fresh draw of this call` is proved; this covers state carried between calls.)"""
    from toolkit.symmetric_encryption.aes import AESxCBC
    n = 700 if tier == "quick" else 20000
    viol = []
    cases = 0
    for kl in (16, 24, 32):
        ske = AESxCBC(key_length=kl)
        key = bytes(rnd.getrandbits(8) for _ in range(kl))
        for m in (b"", b"0123456789abcdef"):
            seen = {}
            for i in range(n):
                c = ske.Encrypt(key, m)
                cases += 1
                ivb = c[:16]
                if ivb in seen:
                    viol.append({"clause": "two encryptions on one object reuse an IV (calls #%d and #%d)" % (seen[ivb], i),
                                 "input": {"key_length": kl, "message": m.hex(), "calls": i + 1}})
                    break
                seen[ivb] = i
    return {"cases": cases, "bound": "%d consecutive Encrypt calls per (key length, message) on one object" % n, "violations": viol}
