"""The file managers of the client and of the server against the ghost file system with directories (pyvc/paths.py).

These are the functions the handler contracts of contracts/frontend.py use through their effect handlers (assumption D1).
Here each of them is verified on its own: what it writes, under which name, what it refuses, and that nothing else on
the disk changes.  D1 is thereby reduced to "the effect handler restates this contract" for every function below; delete_sid_folder (rmtree; nothing in the repository calls it) stays outside; the config.json functions are verified with the
configuration as an opaque value (the file receives json_bytes(config); reading yields json_parse(utf8_text(bytes))).
"""
from pyvc.api import *
from pyvc import files, paths, externals
import z3
import pickle as _pickle

paths.install()
HOME = paths.HOME
SI = TDict(TStr, TInt)
FGH = ["fs", "fh_state", "fh_path", "fh_pos"]
_pk, _unpk = externals.pickle_fns(SI)
pickled_si = specfn("pickled_si", [SI], TBytes, py=lambda d: _pickle.dumps(d))
unpickled_si = specfn("unpickled_si", [TBytes], SI, py=lambda b: _pickle.loads(b))
pickled_si.decl, unpickled_si.decl = _pk, _unpk
_s, _n = z3.String("sid"), z3.String("nm")
_S = lambda x: z3.StringVal(x)

cdir = specfn("cdir", [TStr], TStr, macro=True, doc="the client's directory of a service")
cdir.define = lambda sid: z3.Concat(HOME, _S("/"), _S(".sse/client"), _S("/"), sid)
cfile = specfn("cfile", [TStr, TStr], TStr, macro=True, doc="a file in the client's directory of a service")
cfile.define = lambda sid, nm: z3.Concat(HOME, _S("/"), _S(".sse/client"), _S("/"), sid, _S("/"), nm)
from pyvc.registry import CONSTS
from pyvc.engine import SV
CONSTS["croot"] = SV(z3.Concat(HOME, _S("/"), _S(".sse/client")), TStr)
sdir = specfn("sdir", [TStr], TStr, macro=True, doc="the server's directory of a service")
sdir.define = lambda sid: z3.Concat(HOME, _S("/"), _S(".sse"), _S("/"), sid)
sfile = specfn("sfile", [TStr, TStr], TStr, macro=True)
sfile.define = lambda sid, nm: z3.Concat(HOME, _S("/"), _S(".sse"), _S("/"), sid, _S("/"), nm)
CONSTS["sroot"] = SV(z3.Concat(HOME, _S("/"), _S(".sse")), TStr)

CFM = "frontend/client/services/file_manager.py:"
SFM = "frontend/server/services/file_manager.py:"
DIRS_SAME = ["dirs == old(dirs)"]
FS_SAME = ["fs == old(fs)"]
P = ["C11", "C13", "C09", "C10"]

# ---------------------------------------------------------------- client
contract(CFM + "create_sid_folder", params=dict(sid=TStr), requires=["croot in dirs"],
         raises={"FileExistsError": dict(when="cdir(sid) in old(dirs) or cdir(sid) in old(fs)", iff=True)},
         raise_ensures={"FileExistsError": FS_SAME + DIRS_SAME},
         ensures=["dirs == dput(old(dirs), cdir(sid), 1)"] + FS_SAME, modifies_ghost=["dirs"], no_runtime=True, props=P)
contract(CFM + "check_sid_local_file_valid", params=dict(sid=TStr), returns=TBool,
         ensures=["result == ((cdir(sid) in dirs or cdir(sid) in fs) and (cfile(sid, 'config.json') in fs or cfile(sid, 'config.json') in dirs) "
                  "and (cfile(sid, 'service_meta') in fs or cfile(sid, 'service_meta') in dirs))"], no_runtime=True, props=P)
for fn_, nm_ in (("write_key", "key"), ("write_encrypted_database", "edb")):
    contract(CFM + fn_, params={"sid": TStr, ("key_bytes" if nm_ == "key" else "edb_bytes"): TBytes}, requires=["cdir(sid) in dirs"],
             # no refusal: the step that writes this file must be repeatable after a crash (C13) -- whatever is there is replaced
             ensures=["fs == dput(old(fs), cfile(sid, '%s'), %s)" % (nm_, "key_bytes" if nm_ == "key" else "edb_bytes")] + DIRS_SAME,
             modifies_ghost=FGH, no_runtime=True, props=P)
for fn_, nm_ in (("read_key", "key"), ("read_encrypted_database", "edb")):
    contract(CFM + fn_, params=dict(sid=TStr), returns=TBytes,
             raises={"FileNotFoundError": dict(when="cfile(sid, '%s') not in fs" % nm_, iff=True)},
             ensures=["result == fs[cfile(sid, '%s')]" % nm_], no_runtime=True, props=P)
contract(CFM + "delete_encrypted_database", params=dict(sid=TStr),
         ensures=["fs == ddel(old(fs), cfile(sid, 'edb'))"] + DIRS_SAME, modifies_ghost=["fs"], no_runtime=True, props=P)
contract(CFM + "write_service_meta", params=dict(sid=TStr, meta=SI), requires=["cdir(sid) in dirs"],
         ensures=["fs == ddel(dput(old(fs), cfile(sid, 'service_meta'), pickled_si(meta)), cfile(sid, 'service_meta.tmp'))"] + DIRS_SAME,
         # the record is replaced atomically: at every point it is the old record or the new one, never a torn one
         crash_invariant=["(cfile(sid, 'service_meta') in fs) == (cfile(sid, 'service_meta') in old(fs)) or fs[cfile(sid, 'service_meta')] == pickled_si(meta)",
                          "implies(cfile(sid, 'service_meta') in fs, fs[cfile(sid, 'service_meta')] == pickled_si(meta) or "
                          "(cfile(sid, 'service_meta') in old(fs) and fs[cfile(sid, 'service_meta')] == old(fs)[cfile(sid, 'service_meta')]))"],
         modifies_ghost=FGH, no_runtime=True, props=P)
contract(CFM + "read_service_meta", params=dict(sid=TStr), returns=SI,
         raises={"FileNotFoundError": dict(when="cfile(sid, 'service_meta') not in fs", iff=True),
                 "UnpicklingError": "True"},
         ensures=["result == unpickled_si(fs[cfile(sid, 'service_meta')])"], no_runtime=True, props=P)

# ---------------------------------------------------------------- server
contract(SFM + "check_sid_folder_exist", params=dict(sid=TStr), returns=TBool,
         ensures=["result == (sfile(sid, 'service_meta') in fs or sfile(sid, 'service_meta') in dirs)"], no_runtime=True, props=P)
contract(SFM + "create_sid_folder", params=dict(sid=TStr), requires=["sroot in dirs"],
         raises={"FileExistsError": dict(when="sdir(sid) in old(fs)", iff=True)},
         raise_ensures={"FileExistsError": FS_SAME + DIRS_SAME},
         ensures=["sdir(sid) in dirs", "implies(sdir(sid) in old(dirs), dirs == old(dirs))",
                  "implies(sdir(sid) not in old(dirs), dirs == dput(old(dirs), sdir(sid), 1))"] + FS_SAME,
         modifies_ghost=["dirs"], no_runtime=True, props=P)
contract(SFM + "write_encrypted_database", params=dict(sid=TStr, edb_bytes=TBytes), requires=["implies(sdir(sid) in fs, sdir(sid) not in dirs)"],
         ensures=["implies(sdir(sid) in old(dirs), fs == dput(old(fs), sfile(sid, 'edb'), edb_bytes))",
                  "implies(sdir(sid) not in old(dirs) and sdir(sid) not in old(fs), fs == old(fs))"] + DIRS_SAME,
         raises={"FileNotFoundError": dict(when="sdir(sid) in old(fs)", iff=True)},      # a plain file where the directory should be
         modifies_ghost=FGH, no_runtime=True, props=P)
contract(SFM + "write_service_meta", params=dict(sid=TStr, meta=SI), requires=["implies(sdir(sid) in fs, sdir(sid) not in dirs)"],
         ensures=["implies(sdir(sid) in old(dirs), fs == ddel(dput(old(fs), sfile(sid, 'service_meta'), pickled_si(meta)), sfile(sid, 'service_meta.tmp')))",
                  "implies(sdir(sid) not in old(dirs) and sdir(sid) not in old(fs), fs == old(fs))"] + DIRS_SAME,
         raises={"FileNotFoundError": dict(when="sdir(sid) in old(fs)", iff=True)},
         crash_invariant=["implies(sfile(sid, 'service_meta') in fs, fs[sfile(sid, 'service_meta')] == pickled_si(meta) or "
                          "(sfile(sid, 'service_meta') in old(fs) and fs[sfile(sid, 'service_meta')] == old(fs)[sfile(sid, 'service_meta')]))"],
         modifies_ghost=FGH, no_runtime=True, props=P)
contract(SFM + "read_service_meta", params=dict(sid=TStr), returns=SI,
         raises={"FileNotFoundError": dict(when="sfile(sid, 'service_meta') not in fs", iff=True), "UnpicklingError": "True"},
         ensures=["result == unpickled_si(fs[sfile(sid, 'service_meta')])"], no_runtime=True, props=P)
contract(SFM + "read_encrypted_database", params=dict(sid=TStr), returns=TBytes,
         raises={"FileNotFoundError": dict(when="sfile(sid, 'edb') not in fs", iff=True)},
         ensures=["result == fs[sfile(sid, 'edb')]"], no_runtime=True, props=P)


# ---- config.json: written in text mode through json.dump; the configuration is an opaque value here and the file receives a
# function of it (json_bytes).  What matters for C13: the file is (re)written whenever the directory exists -- an interrupted earlier
# attempt is repaired by the retry -- and nothing else changes.
json_bytes = specfn("json_bytes", [TBytes], TBytes, doc="the text json.dump produces for a configuration, as bytes (abstract)")
json_bytes.decl = files.JSON_BYTES
contract(SFM + "write_service_config", params=dict(sid=TStr, config=TBytes), requires=["implies(sdir(sid) in fs, sdir(sid) not in dirs)"],
         ensures=["implies(sdir(sid) in old(dirs), fs == dput(old(fs), sfile(sid, 'config.json'), json_bytes(config)))",
                  "implies(sdir(sid) not in old(dirs) and sdir(sid) not in old(fs), fs == old(fs))"] + DIRS_SAME,
         raises={"FileNotFoundError": dict(when="sdir(sid) in old(fs)", iff=True)},
         modifies_ghost=FGH, no_runtime=True, props=P)
contract(CFM + "write_service_config", params=dict(sid=TStr, config=TBytes), requires=["cdir(sid) in dirs"],
         ensures=["fs == dput(old(fs), cfile(sid, 'config.json'), json_bytes(config))"] + DIRS_SAME,
         modifies_ghost=FGH, no_runtime=True, props=P)

utf8_text = specfn("utf8_text", [TBytes], TStr, doc="the text a file's bytes decode to (abstract)")
utf8_text.decl = paths.UTF8_TEXT
json_parse = specfn("json_parse", [TStr], TBytes, doc="the value json.loads builds from a text (an opaque token)")
json_parse.decl = paths.JSON_PARSE
for FM_, pf_ in ((SFM, "sfile"), (CFM, "cfile")):
    contract(FM_ + "read_service_config", params=dict(sid=TStr), returns=TBytes,
             raises={"FileNotFoundError": dict(when="%s(sid, 'config.json') not in fs" % pf_, iff=True),
                     "UnicodeDecodeError": "True", "JSONDecodeError": "True"},
             ensures=["result == json_parse(utf8_text(fs[%s(sid, 'config.json')]))" % pf_], no_runtime=True, props=P)
