"""Contracts for the format-preserving cipher and the PRPs (property C15)."""
from pyvc.api import *
from pyvc.engine import Ref, SV, Unsupported, PyRaise, z3_int
from pyvc.ty import lift
from pyvc.externals import EXT_CONSTS
import z3, struct
import contracts.bits
import contracts.crypto
from contracts.crypto import HMAC, dsize
from contracts.bits import BITS, B

Len = z3.Length
Imp, And, Or, Not, MP = z3.Implies, z3.And, z3.Or, z3.Not, z3.MultiPattern
SHA1 = z3.StringVal("sha1")
W = 160   # bits per HMAC-SHA1 block: hashlib.sha1().digest_size * 8 (X4, concrete for the default digest)

# X5: struct.pack is a pure function of its arguments
packbits = specfn("packbits", [TInt, TInt, TInt], TBytes,
                  py=lambda i, v, L: struct.pack("I%sI" % L, i, *[bool((v >> (L - p - 1)) & 1) for p in range(L)]),
                  doc="struct.pack('I%dI' % L, i, *bits(v, L))")


@external("struct.pack", "X5: struct.pack is a pure function of the format and the packed values")
def _pack(E, a, kw, fr, node):
    if len(a) == 2 and a[0] == "I" and isinstance(a[1], int):
        return struct.pack("I", a[1])
    if len(a) == 3 and isinstance(a[2], tuple) and a[2][0] == "star":
        bs = a[2][1]
        f = E.cell(bs)[2]
        return SV(packbits(z3_int(a[1]), z3_int(f["value"]), z3_int(f["length"])), TBytes)
    raise Unsupported("struct.pack form")


from pyvc.engine import ExtRef

FFX = "toolkit/symmetric_encryption/fpe.py:BitwiseFFX"
FFXT = TObj(FFX)
klass(FFX, fields=dict(rounds=TInt, digest_mod=TAny, digest_size=TInt),
      invariant=["self.rounds >= 0", "self.rounds % 2 == 0", "self.digest_size == 20"],
      construct="BitwiseFFX(rounds={rounds})", gen=lambda rnd: dict(rounds=rnd.choice([0, 2, 4, 10]), digest_size=20),
      consts={"digest_mod": ExtRef("hashlib.sha1")})

ky = z3.Const("ky", BYTES)
i, v, L, o, k, j, R = z3.Ints("i v L o k j R")
av, al, bv, bl = z3.Ints("av al bv bl")


def _D_py(key, i, sv, sl):
    import hmac, hashlib
    return int(hmac.new(key, packbits.py(i, sv, sl) + struct.pack("I", 0), hashlib.sha1).hexdigest(), 16)


Dval = specfn("Dval", [TBytes, TInt, TInt, TInt], TInt, py=_D_py,
              doc="the 160-bit HMAC-SHA1 block of one Feistel round as an integer")
Dval.define = lambda key, i, sv, sl: b2i(HMAC(SHA1, key, z3.Concat(packbits(i, sv, sl), bytes_const(struct.pack("I", 0)))))
rep = specfn("rep", [TInt, TInt], TInt, py=lambda d, k: sum(d << (W * t) for t in range(max(k, 0))),
             doc="k copies of the 160-bit block d, concatenated")
rep.define = lambda d, k: z3.If(k <= 0, 0, rep(d, k - 1) * pow2(W) + d)


def _RV_py(key, i, sv, sl, olen):
    kk = max(1, -(-olen // W))
    return rep.py(_D_py(key, i, sv, sl), kk) >> (kk * W - olen)


RV = specfn("RV", [TBytes, TInt, TInt, TInt, TInt], TInt, py=_RV_py,
            doc="value of BitwiseFFX.round(key, i, s, olen): the higher olen bits of enough copies of the HMAC block")
kk_of = lambda olen: z3.If(olen <= W, 1, (olen + W - 1) / W)
RV.define = lambda key, i, sv, sl, olen: rep(Dval(key, i, sv, sl), kk_of(olen)) / pow2(kk_of(olen) * W - olen)

d_ = z3.Int("d_")
lemma("rep_bound", [d_, k], Imp(And(0 <= d_, d_ < pow2(W), k >= 0), And(0 <= rep(d_, k), rep(d_, k) < pow2(k * W))),
      patterns=None, induct=("int", k), inst=[[d_, k - 1]], uses=["concat_fits"],
      use_inst=[("concat_fits", [rep(d_, k - 1), d_, (k - 1) * W, z3.IntVal(W)])])

contract(FFX + ".round", params=dict(self=FFXT, key=TBytes, i=TInt, s=BITS, output_len=TInt), returns=BITS,
         requires=["output_len >= 0", "i >= 0", "i < 4294967296"],
         ensures=["result.length == (output_len if output_len != 0 else s.length)",
                  "result.value == RV(key, i, s.value, s.length, output_len if output_len != 0 else s.length)",
                  "inv(result)"],
         lemmas=["b2i_bound", "bitlen_le", "X4_hmac_len", "div_mod_unique", "div_pow2_lt"],
         loops={0: dict(invariant=[
             "it >= 0", "output_len_per_hash == 160", "i == 0",
             "output_len == (old(output_len) if old(output_len) != 0 else s.length)",
             "pre == packbits(old(i), s.value, s.length)",
             "result.length == it * 160", "inv(result)",
             "result.value == rep(Dval(key, old(i), s.value, s.length), it)",
             "it == 0 or it * 160 < output_len"],
             hints=[("rep_bound", ["Dval(key, old(i), s.value, s.length)", "it + 1"])])},
         domains=dict(i=SMALL, output_len=SMALL),
         props=["C15", "C04"])

# ---- Feistel state functions (forward) and the backward walk of decrypt ------------------------------------
# forward: state(0) = (av, al, bv, bl);  state(j+1) = (b_j, a_j ^ F_j(b_j, len a_j))     (all lengths >= 1)
SIG = [TBytes, TInt, TInt, TInt, TInt, TInt]
fav = specfn("fav", SIG, TInt, doc="value of the left half after j rounds")
fal = specfn("fal", SIG, TInt, doc="length of the left half after j rounds")
fbv = specfn("fbv", SIG, TInt, doc="value of the right half after j rounds")
fbl = specfn("fbl", SIG, TInt, doc="length of the right half after j rounds")
fal.define = lambda key, j, av, al, bv, bl: z3.If(j <= 0, al, fbl(key, j - 1, av, al, bv, bl))
fbl.define = lambda key, j, av, al, bv, bl: z3.If(j <= 0, bl, fal(key, j - 1, av, al, bv, bl))
fav.define = lambda key, j, av, al, bv, bl: z3.If(j <= 0, av, fbv(key, j - 1, av, al, bv, bl))
fbv.define = lambda key, j, av, al, bv, bl: z3.If(
    j <= 0, bv,
    bxor(fav(key, j - 1, av, al, bv, bl),
         RV(key, j - 1, fbv(key, j - 1, av, al, bv, bl), fbl(key, j - 1, av, al, bv, bl), fal(key, j - 1, av, al, bv, bl))))


def _fstate_py(key, j, av, al, bv, bl):
    a, la, b, lb = av, al, bv, bl
    for r in range(max(j, 0)):
        a, la, b, lb = b, lb, a ^ _RV_py(key, r, b, lb, la), la
    return a, la, b, lb


fav.py = lambda *x: _fstate_py(*x)[0]
fal.py = lambda *x: _fstate_py(*x)[1]
fbv.py = lambda *x: _fstate_py(*x)[2]
fbl.py = lambda *x: _fstate_py(*x)[3]

# backward: after k steps of decrypt's loop started from (av, al, bv, bl) with R rounds in total
DSIG = [TBytes, TInt, TInt, TInt, TInt, TInt, TInt]
dav = specfn("dav", DSIG, TInt)
dal = specfn("dal", DSIG, TInt)
dbv = specfn("dbv", DSIG, TInt)
dbl = specfn("dbl", DSIG, TInt)
dal.define = lambda key, k, R, av, al, bv, bl: z3.If(k <= 0, al, dbl(key, k - 1, R, av, al, bv, bl))
dbl.define = lambda key, k, R, av, al, bv, bl: z3.If(k <= 0, bl, dal(key, k - 1, R, av, al, bv, bl))
dbv.define = lambda key, k, R, av, al, bv, bl: z3.If(k <= 0, bv, dav(key, k - 1, R, av, al, bv, bl))
dav.define = lambda key, k, R, av, al, bv, bl: z3.If(
    k <= 0, av,
    bxor(dbv(key, k - 1, R, av, al, bv, bl),
         RV(key, R - k, dav(key, k - 1, R, av, al, bv, bl), dal(key, k - 1, R, av, al, bv, bl), dbl(key, k - 1, R, av, al, bv, bl))))


def _dstate_py(key, k, R, av, al, bv, bl):
    a, la, b, lb = av, al, bv, bl
    for s in range(1, max(k, 0) + 1):
        a, la, b, lb = b ^ _RV_py(key, R - s, a, la, lb), lb, a, la
    return a, la, b, lb


dav.py = lambda *x: _dstate_py(*x)[0]
dal.py = lambda *x: _dstate_py(*x)[1]
dbv.py = lambda *x: _dstate_py(*x)[2]
dbl.py = lambda *x: _dstate_py(*x)[3]

F = lambda f, jj: f(ky, jj, av, al, bv, bl)
lemma("RV_bound", [ky, i, v, L, o], Imp(o >= 1, And(0 <= RV(ky, i, v, L, o), RV(ky, i, v, L, o) < pow2(o))),
      patterns=[RV(ky, i, v, L, o)], uses=["rep_bound", "div_pow2_lt", "b2i_bound", "b2i_nonneg"],
      use_inst=[("rep_bound", [Dval(ky, i, v, L), kk_of(o)]),
                ("div_pow2_lt", [rep(Dval(ky, i, v, L), kk_of(o)), kk_of(o) * W - o, o])])
# lengths alternate and stay >= 1; values stay in range
lemma("f_lengths", [ky, j, av, al, bv, bl],
      Imp(And(al >= 1, bl >= 1, j >= 0),
          And(F(fal, j) >= 1, F(fbl, j) >= 1, F(fal, j) + F(fbl, j) == al + bl,
              Imp(j % 2 == 0, And(F(fal, j) == al, F(fbl, j) == bl)),
              Imp(j % 2 == 1, And(F(fal, j) == bl, F(fbl, j) == al)))),
      patterns=[fal(ky, j, av, al, bv, bl)], induct=("int", j), inst=[[ky, j - 1, av, al, bv, bl]])
lemma("f_values", [ky, j, av, al, bv, bl],
      Imp(And(al >= 1, bl >= 1, j >= 0, 0 <= av, av < pow2(al), 0 <= bv, bv < pow2(bl)),
          And(0 <= F(fav, j), F(fav, j) < pow2(F(fal, j)), 0 <= F(fbv, j), F(fbv, j) < pow2(F(fbl, j)))),
      patterns=[fav(ky, j, av, al, bv, bl)], induct=("int", j), inst=[[ky, j - 1, av, al, bv, bl]],
      uses=["f_lengths", "RV_bound", "bxor_bound"],
      use_inst=[("f_lengths", [ky, j - 1, av, al, bv, bl])])
# decrypt walks the forward states backwards:  d-state(k ; start = f-state(R)) == f-state(R - k)
G = lambda g, kk: g(ky, kk, R, F(fav, R), F(fal, R), F(fbv, R), F(fbl, R))
lemma("feistel_inverse", [ky, k, R, av, al, bv, bl],
      Imp(And(al >= 1, bl >= 1, 0 <= k, k <= R, 0 <= av, av < pow2(al), 0 <= bv, bv < pow2(bl)),
          And(G(dav, k) == F(fav, R - k), G(dal, k) == F(fal, R - k), G(dbv, k) == F(fbv, R - k), G(dbl, k) == F(fbl, R - k))),
      patterns=None, induct=("int", k), inst=[[ky, k - 1, R, av, al, bv, bl]],
      uses=["bxor_cancel", "f_values", "f_lengths", "RV_bound"],
      use_inst=[("f_values", [ky, R - k, av, al, bv, bl]), ("f_lengths", [ky, R - k, av, al, bv, bl]),
                ("bxor_cancel", [F(fav, R - k),
                                 RV(ky, R - k, F(fbv, R - k), F(fbl, R - k), F(fal, R - k))])])

lemma("f_zero", [ky, av, al, bv, bl], And(F(fav, 0) == av, F(fal, 0) == al, F(fbv, 0) == bv, F(fbl, 0) == bl),
      patterns=[fav(ky, 0, av, al, bv, bl), fal(ky, 0, av, al, bv, bl), fbv(ky, 0, av, al, bv, bl), fbl(ky, 0, av, al, bv, bl)])
D = lambda g, kk: g(ky, kk, R, av, al, bv, bl)
lemma("d_lengths", [ky, k, R, av, al, bv, bl],
      Imp(And(al >= 1, bl >= 1, k >= 0), And(D(dal, k) >= 1, D(dbl, k) >= 1, D(dal, k) + D(dbl, k) == al + bl)),
      patterns=[dal(ky, k, R, av, al, bv, bl)], induct=("int", k), inst=[[ky, k - 1, R, av, al, bv, bl]])

inline(FFX + ".split")
HALF = "(v.length + 1) // 2"
A0 = "v.value // pow2(%s), v.length - %s, v.value %% pow2(%s), %s" % (HALF, HALF, HALF, HALF)
contract(FFX + ".encrypt", params=dict(self=FFXT, key=TBytes, v=BITS), returns=BITS,
         requires=["v.length >= 2", "self.rounds < 4294967296"],
         ensures=["result.length == v.length",
                  "result.value == fav(key, self.rounds, %s) * pow2(fbl(key, self.rounds, %s)) + fbv(key, self.rounds, %s)" % (A0, A0, A0),
                  "inv(result)"],
         lemmas=["f_lengths", "f_values", "RV_bound"],
         loops={0: dict(invariant=[
             "a.value == fav(key, it, %s)" % A0, "a.length == fal(key, it, %s)" % A0,
             "b.value == fbv(key, it, %s)" % A0, "b.length == fbl(key, it, %s)" % A0,
             "inv(a)", "inv(b)", "a.length >= 1", "b.length >= 1"],
             hints=[("f_lengths", ["key", "it", "v.value // pow2(%s)" % HALF, "v.length - %s" % HALF,
                                   "v.value %% pow2(%s)" % HALF, HALF])])},
         hints=[("f_lengths", ["key", "self.rounds", "v.value // pow2(%s)" % HALF, "v.length - %s" % HALF,
                               "v.value %% pow2(%s)" % HALF, HALF]),
                ("f_values", ["key", "self.rounds", "v.value // pow2(%s)" % HALF, "v.length - %s" % HALF,
                              "v.value %% pow2(%s)" % HALF, HALF])],
         gen=lambda rnd: _gen_ffx(rnd), props=["C15", "C04"])
D0 = "self.rounds, " + A0
contract(FFX + ".decrypt", params=dict(self=FFXT, key=TBytes, v=BITS), returns=BITS,
         requires=["v.length >= 2", "self.rounds < 4294967296"],
         ensures=["result.value == dav(key, self.rounds, %s) * pow2(dbl(key, self.rounds, %s)) + dbv(key, self.rounds, %s)" % (D0, D0, D0),
                  "result.length == dal(key, self.rounds, %s) + dbl(key, self.rounds, %s)" % (D0, D0)],
         lemmas=["RV_bound", "d_lengths"],
         loops={0: dict(invariant=[
             "a.value == dav(key, it, %s)" % D0, "a.length == dal(key, it, %s)" % D0,
             "b.value == dbv(key, it, %s)" % D0, "b.length == dbl(key, it, %s)" % D0,
             "inv(a)", "inv(b)", "a.length >= 1", "b.length >= 1"])},
         gen=lambda rnd: _gen_ffx(rnd), props=["C15"])


def _gen_ffx(rnd):
    n = rnd.choice([2, 3, 4, 5, 7, 8, 9, 12, 16, 17, 159, 160, 161, 320, 321])
    return dict(self=obj(FFX, rounds=rnd.choice([0, 2, 4, 10]), digest_size=20),
                key=bytes(rnd.getrandbits(8) for _ in range(rnd.choice([0, 1, 16, 32]))),
                v=obj(B, value=rnd.getrandbits(n), length=n))


# decrypt(k, encrypt(k, v)) == v  for every key, every width >= 2 and every even round count: ghost client code over
# the two contracts + the Feistel-inverse lemma + split/concat lemmas
contract("ghost:ffx_roundtrip", params=dict(ffx=FFXT, key=TBytes, v=BITS), returns=BITS,
         body="""def ffx_roundtrip(ffx, key, v):
    R = ffx.rounds
    h = (v.length + 1) // 2
    a0 = v.value // pow2(h)
    b0 = v.value % pow2(h)
    w = ffx.encrypt(key, v)
    assert fbl(key, R, a0, v.length - h, b0, h) == h
    assert fal(key, R, a0, v.length - h, b0, h) == v.length - h
    assert w.value == fav(key, R, a0, v.length - h, b0, h) * pow2(h) + fbv(key, R, a0, v.length - h, b0, h)
    assert 0 <= fbv(key, R, a0, v.length - h, b0, h)
    assert fbv(key, R, a0, v.length - h, b0, h) < pow2(h)
    assert 0 <= fav(key, R, a0, v.length - h, b0, h)
    assert w.value // pow2(h) == fav(key, R, a0, v.length - h, b0, h)
    assert w.value % pow2(h) == fbv(key, R, a0, v.length - h, b0, h)
    r = ffx.decrypt(key, w)
    assert dav(key, R, R, w.value // pow2(h), v.length - h, w.value % pow2(h), h) == a0
    assert dbv(key, R, R, w.value // pow2(h), v.length - h, w.value % pow2(h), h) == b0
    assert dbl(key, R, R, w.value // pow2(h), v.length - h, w.value % pow2(h), h) == h
    assert r.value == a0 * pow2(h) + b0
    return r
""",
         requires=["v.length >= 2", "ffx.rounds < 4294967296"],
         ensures=["result.value == v.value", "result.length == v.length"],
         hints=[("feistel_inverse", ["key", "ffx.rounds", "ffx.rounds", "v.value // pow2(%s)" % HALF, "v.length - %s" % HALF,
                                     "v.value %% pow2(%s)" % HALF, HALF]),
                ("f_lengths", ["key", "ffx.rounds", "v.value // pow2(%s)" % HALF, "v.length - %s" % HALF,
                               "v.value %% pow2(%s)" % HALF, HALF]),
                ("f_values", ["key", "ffx.rounds", "v.value // pow2(%s)" % HALF, "v.length - %s" % HALF,
                              "v.value %% pow2(%s)" % HALF, HALF]),
                ("div_pow2_lt", ["v.value", HALF, "v.length - %s" % HALF]),
                ("concat_high", ["fav(key, ffx.rounds, %s)" % A0, "fbv(key, ffx.rounds, %s)" % A0, "fbl(key, ffx.rounds, %s)" % A0]),
                ("concat_low", ["fav(key, ffx.rounds, %s)" % A0, "fbv(key, ffx.rounds, %s)" % A0, "fbl(key, ffx.rounds, %s)" % A0])],
         lemmas=["d_lengths", "f_zero"], depth=0, props=["C15"])


@external("hashlib.sha1", "X4: hashlib.sha1() is the SHA-1 hash object (digest_size 20)")
def _sha1(E, a, kw, fr, node):
    from contracts.crypto import _hashlib_new
    return _hashlib_new(E, ["sha1"] + list(a), kw, fr, node)


contract(FFX + ".__init__", params=dict(self=FFXT, rounds=TInt, digest_mod=TAny), modifies=["self"],
         requires=["rounds >= 0", "rounds % 2 == 0"],
         ensures=["self.rounds == rounds", "self.digest_size == 20"],
         no_runtime=True, trusted=True, note="digest_mod is the default hashlib.sha1 at the only construction site",
         props=["C15"])

# DEFAULT_ROUNDS must be even (odd round counts leave the halves swapped on odd widths)
contract("ghost:default_rounds_even", params=dict(), returns=TInt,
         body="def default_rounds_even():\n    return DEFAULT_ROUNDS\n", ghost_scope="toolkit/symmetric_encryption/fpe.py",
         ensures=["result >= 0", "result % 2 == 0", "result < 4294967296"], props=["C15"])

BPRP = "toolkit/prp/bitwise_fpe_prp.py:BitwiseFPEPRP"
BPRPT = TObj(BPRP)
ABP = "toolkit/prp/abstraction.py:AbstractBitwisePRP"
klass(ABP, fields=dict(key_bit_length=TInt, message_bit_length=TInt))
klass(BPRP, fields=dict(key_bit_length=TInt, message_bit_length=TInt, underlying_fpe=FFXT), bases=[ABP],
      invariant=["self.message_bit_length >= 2", "self.key_bit_length >= 0", "self.underlying_fpe.rounds < 4294967296"],
      construct="BitwiseFPEPRP(message_bit_length={message_bit_length}, key_bit_length={key_bit_length})",
      gen=lambda rnd: dict(key_bit_length=rnd.choice([8, 128, 256]), message_bit_length=rnd.choice([2, 3, 8, 9, 16, 161]),
                           underlying_fpe=obj(FFX, rounds=10, digest_size=20)))
inline(ABP + ".__init__")
# the value of the PRP as one specification function (what callers reason with): the Feistel state formula above
prp_value = specfn("prp_value", [TBytes, TInt, TInt, TInt], TInt, macro=True, opaque=True,
                   py=lambda kb, R, n, v: (lambda h: fav.py(kb, R, v >> h, n - h, v & ((1 << h) - 1), h) * (1 << fbl.py(kb, R, v >> h, n - h, v & ((1 << h) - 1), h))
                                           + fbv.py(kb, R, v >> h, n - h, v & ((1 << h) - 1), h))((n + 1) // 2),
                   doc="value of BitwiseFPEPRP(key bytes kb, R rounds) on the n-bit message with value v")


def _prp_value_def(kb, R, n, v):
    h = (n + 1) / 2
    a0 = (v / pow2(h), n - h, v % pow2(h), h)
    return fav(kb, R, *a0) * pow2(fbl(kb, R, *a0)) + fbv(kb, R, *a0)


prp_value.define = _prp_value_def
contract(BPRP + ".__call__", reveal=["prp_value"], params=dict(self=BPRPT, key=BITS, message=BITS), returns=BITS,
         raises={"ValueError": dict(when="key.length != self.key_bit_length or message.length != self.message_bit_length", iff=True)},
         ensures=["result.length == message.length", "inv(result)",
                  "result.value == fav(i2b(key.value, (key.length + 7) // 8), self.underlying_fpe.rounds, {a}) * "
                  "pow2(fbl(i2b(key.value, (key.length + 7) // 8), self.underlying_fpe.rounds, {a})) + "
                  "fbv(i2b(key.value, (key.length + 7) // 8), self.underlying_fpe.rounds, {a})".format(a=A0.replace("v.", "message.")),
                  "result.value == prp_value(i2b(key.value, (key.length + 7) // 8), self.underlying_fpe.rounds, message.length, message.value)"],
         gen=lambda rnd: _gen_bprp(rnd), props=["C15", "C01", "C04"])


def _gen_bprp(rnd):
    kb = rnd.choice([8, 128])
    mb = rnd.choice([2, 3, 8, 9, 16, 161])
    bad = rnd.random() < 0.2
    return dict(self=obj(BPRP, key_bit_length=kb, message_bit_length=mb, underlying_fpe=obj(FFX, rounds=10, digest_size=20)),
                key=obj(B, value=rnd.getrandbits(kb), length=kb),
                message=obj(B, value=rnd.getrandbits(mb), length=mb + (1 if bad else 0)))

# ---- Luby-Rackoff PRPs ----------------------------------------------------------------------------------------
from contracts.crypto import PRFT, PRF, prf
LR = "toolkit/prp/luby_rackoff_prp.py:LubyRackoffPRP"
LRT = TObj(LR)
AP = "toolkit/prp/abstraction.py:AbstractPRP"
klass(AP, fields=dict(key_length=TInt, message_length=TInt))
klass(LR, fields=dict(key_length=TInt, message_length=TInt, underlying_prf=PRFT), bases=[AP],
      invariant=["self.underlying_prf.key_length * 3 == self.key_length",
                 "self.underlying_prf.message_length == self.underlying_prf.output_length",
                 "self.underlying_prf.message_length * 2 == self.message_length", "self.key_length >= 3"],
      gen=lambda rnd: _gen_lr_fields(rnd))
inline(AP + ".__init__")


def _gen_lr_fields(rnd):
    h = rnd.choice([1, 2, 3, 8, 16, 32])
    kk = rnd.choice([1, 8, 16])
    return dict(key_length=3 * kk, message_length=2 * h,
                underlying_prf=obj(PRF, output_length=h, key_length=kk, message_length=h, hash_func_name=rnd.choice(["sha1", "sha256"])))


def _construct_lr(f):
    return None


from pyvc.registry import CLASSES
CLASSES[LR].construct = ("LubyRackoffPRP(message_length={message_length}, key_length={key_length}, "
                         "underlying_prf={underlying_prf})")
CLASSES[PRF].repr_construct = True

contract(LR + ".__call__", params=dict(self=LRT, key=TBytes, message=TBytes), returns=TBytes,
         raises={"ValueError": dict(when="len(key) != self.key_length or len(message) != self.message_length", iff=True)},
         ensures=["len(result) == self.message_length"],
         lemmas=["all_len_append", "xor_upto_len", "all_len_upto_frame"],
         loops={0: dict(elem=TBytes, hints=[("mul_mono", ["3", "it", "self.key_length // 3"])],
                        invariant=["len(_acc) == it", "all_len_upto(_acc, self.key_length // 3, it)",
                                   "i == it * (self.key_length // 3)", "it <= 3"],
                        exit_hints=[("all_len_nth", ["_acc", "self.key_length // 3", "it", "0"]),
                                    ("all_len_nth", ["_acc", "self.key_length // 3", "it", "1"]),
                                    ("all_len_nth", ["_acc", "self.key_length // 3", "it", "2"])])},
         gen=lambda rnd: _gen_lr(rnd), props=["C15"])


def _gen_lr(rnd):
    f = _gen_lr_fields(rnd)
    bad = rnd.random() < 0.25
    return dict(self=obj(LR, **f), key=bytes(rnd.getrandbits(8) for _ in range(f["key_length"] + (1 if bad and rnd.random() < 0.5 else 0))),
                message=bytes(rnd.getrandbits(8) for _ in range(f["message_length"] - (1 if bad else 0))))
