"""Bounded stand-ins for the persistence properties C19 / C20: seeded operation histories on the real classes against
a plain list / dict reference model, with close+reopen at arbitrary points and directory listing checks.
Labelled `bounded` in the evidence; never counted as proved."""
import os, shutil, tempfile, random


def _viol(out, clause, **inp):
    out.append({"clause": clause, "input": inp})


def rt_c19(rnd, tier):
    from data_persistence.persistent_array import SPFLBArray
    viol, cases = [], 0
    nseq = 220 if tier == "quick" else 2500
    root = tempfile.mkdtemp(prefix="c19-")
    try:
        for s in range(nseq):
            alen = rnd.choice([1, 2, 3, 5, 7, 10, 16, 40])
            isz = rnd.choice([1, 2, 3, 9])
            per = rnd.choice([1, 2, 3, alen - 1 or 1, alen, alen + 2])
            d = os.path.join(root, "a%d" % s)
            os.mkdir(d)
            path = os.path.join(d, "arr")
            model = [bytes(isz)] * alen
            arr = SPFLBArray.create(path, item_size=isz, array_len=alen, item_num_in_one_file=per)
            hist = []

            def item(short_ok=True):
                n = rnd.choice([isz, isz, isz - 1 if isz > 1 else isz, 0]) if short_ok else isz
                return bytes(rnd.getrandbits(8) for _ in range(n))

            def pad(b):
                return bytes(isz - len(b)) + b
            ok = True
            for step in range(rnd.choice([5, 15, 40])):
                op = rnd.choice(["get", "set", "getslice", "setslice", "del", "delslice", "iter", "contains", "reopen", "badset",
                                 "badindex", "clear", "len", "closed_use"])
                hist.append(op)
                cases += 1
                try:
                    if op == "get":
                        i = rnd.randrange(-alen, alen)
                        got, want = arr[i], model[i]
                    elif op == "set":
                        i = rnd.randrange(-alen, alen)
                        v = item()
                        arr[i] = v
                        model[i] = pad(v)
                        got = want = None
                    elif op == "getslice":
                        sl = _slice(rnd, alen)
                        got, want = list(arr[sl]), model[sl]
                    elif op == "setslice":
                        sl = _slice(rnd, alen)
                        vals = [item() for _ in range(rnd.choice([0, 1, 2, 3, alen]))]
                        arr[sl] = vals
                        idx = list(range(*sl.indices(alen)))
                        for k, v in zip(idx, vals):
                            model[k] = pad(v)
                        got = want = None
                    elif op == "del":
                        i = rnd.randrange(-alen, alen)
                        del arr[i]
                        model[i] = bytes(isz)
                        got = want = None
                    elif op == "delslice":
                        sl = _slice(rnd, alen)
                        del arr[sl]
                        for k in range(*sl.indices(alen)):
                            model[k] = bytes(isz)
                        got = want = None
                    elif op == "iter":
                        got, want = list(arr), list(model)
                    elif op == "contains":
                        v = rnd.choice(model + [b"\x01" * isz])
                        got, want = (v in arr), (v in model)
                    elif op == "len":
                        got, want = len(arr), alen
                    elif op == "reopen":
                        arr.close()
                        arr = SPFLBArray.open(path)
                        mode = rnd.choice(["full", "one", "none", "clear"])   # a full read would touch (and cache) every chunk file
                        if mode == "full":
                            got, want = list(arr), list(model)
                        elif mode == "one":
                            i = rnd.randrange(alen)
                            got, want = arr[i], model[i]
                        elif mode == "clear":
                            arr.clear()
                            model = [bytes(isz)] * alen
                            got, want = list(arr), list(model)
                        else:
                            got = want = None
                    elif op == "clear":
                        if rnd.random() < 0.3:
                            arr.clear()
                            model = [bytes(isz)] * alen
                        got = want = None
                    elif op == "badset":
                        before = list(arr)
                        kind = rnd.choice(["long", "type", "slice-mid"])
                        try:
                            if kind == "long":
                                arr[rnd.randrange(alen)] = bytes(isz + 1)
                            elif kind == "type":
                                arr[rnd.randrange(alen)] = "text"
                            else:
                                arr[0:alen] = [bytes([7]) * isz] * (alen // 2) + [bytes(isz + 3)] + [bytes([9]) * isz] * alen
                                if alen // 2 >= alen:
                                    raise ValueError("no oversized element reached")
                            _viol(viol, "an oversized / non-bytes item was accepted (%s)" % kind, array_len=alen, item_size=isz,
                                  items_per_file=per, history=hist[-6:])
                            ok = False
                            break
                        except (ValueError, TypeError):
                            pass
                        got, want = list(arr), before
                        if got != want:
                            _viol(viol, "a failing write (%s) changed the array" % kind, array_len=alen, item_size=isz,
                                  items_per_file=per, history=hist[-6:])
                            ok = False
                            break
                        got = want = None
                    elif op == "badindex":
                        before = list(arr)
                        i = rnd.choice([alen, -alen - 1, alen + 5])
                        for what in ("get", "set", "del"):
                            try:
                                if what == "get":
                                    arr[i]
                                elif what == "set":
                                    arr[i] = bytes(isz)
                                else:
                                    del arr[i]
                                _viol(viol, "index %d on an array of length %d was accepted by %s" % (i, alen, what),
                                      array_len=alen, item_size=isz, items_per_file=per)
                                ok = False
                            except IndexError:
                                pass
                        got, want = list(arr), before
                    elif op == "closed_use":
                        if rnd.random() < 0.15:
                            arr.close()
                            for what in ("get", "set", "len", "iter"):
                                try:
                                    if what == "get":
                                        arr[0]
                                    elif what == "set":
                                        arr[0] = bytes(isz)
                                    elif what == "len":
                                        len(arr)
                                    else:
                                        list(arr)
                                    _viol(viol, "%s on a closed array did not raise" % what, array_len=alen)
                                    ok = False
                                except ValueError:
                                    pass
                            arr = SPFLBArray.open(path)
                        got, want = list(arr), list(model)
                except Exception as ex:
                    _viol(viol, "operation %s raised %s: %s" % (op, type(ex).__name__, str(ex)[:60]), array_len=alen, item_size=isz,
                          items_per_file=per, history=hist[-8:])
                    ok = False
                    break
                if got != want:
                    _viol(viol, "operation %s returned a value different from the list model" % op, array_len=alen, item_size=isz,
                          items_per_file=per, history=hist[-8:])
                    ok = False
                    break
            if ok:
                try:
                    arr.close()
                except Exception:
                    pass
                nf = -(-alen // per)
                allowed = {"arr_meta"} | {"arr_%d" % k for k in range(nf)}
                extra = set(os.listdir(d)) - allowed
                if extra:
                    _viol(viol, "files other than the array's own were created: %s" % sorted(extra), array_len=alen, item_size=isz,
                          items_per_file=per, history=hist[-8:])
            else:
                try:
                    arr.close()
                except Exception:
                    pass
            shutil.rmtree(d, ignore_errors=True)
    finally:
        shutil.rmtree(root, ignore_errors=True)
    return {"cases": cases, "bound": "%d seeded histories of up to 40 operations, array_len <= 40, item_size <= 9" % nseq, "violations": viol}


def _slice(rnd, n):
    pick = lambda: rnd.choice([None, 0, 1, 2, n - 1, n, n + 3, -1, -2, -n, -n - 2])
    return slice(pick(), pick(), rnd.choice([None, 1, 2, 3, -1, -2]))


def rt_c20(rnd, tier):
    from data_persistence.persistent_dict import PickledDict, DBMDict
    viol, cases = [], 0
    nseq = 250 if tier == "quick" else 3000
    root = tempfile.mkdtemp(prefix="c20-")
    keys = [b"a", b"b", b"c", b"dd", b""]
    try:
        for s in range(nseq):
            kind = "pickled" if s % 3 else "dbm"
            cls = PickledDict if kind == "pickled" else DBMDict
            path = os.path.join(root, "d%d" % s)
            model = {}
            hist = []
            try:
                if rnd.random() < 0.3:
                    src = {rnd.choice(keys): bytes([rnd.getrandbits(8)]) for _ in range(3)}
                    d = cls.from_dict(src, path)
                    model = dict(src)
                    src[b"later"] = b"x"
                    src.pop(next(iter(model)), None) if model else None
                else:
                    d = cls.create(path)
            except Exception as ex:
                if kind == "dbm":
                    continue    # the dbm backend of this machine (see the always-failing DBMDict tests) -- one-session part only
                _viol(viol, "create/from_dict raised %s" % type(ex).__name__, kind=kind)
                continue
            ok = True
            for step in range(rnd.choice([5, 20, 50])):
                op = rnd.choice(["set", "get", "del", "in", "len", "iter", "getdefault", "clear", "sync", "reopen", "badvalue", "closed"])
                if kind == "dbm" and op in ("reopen", "closed"):
                    op = "len"
                hist.append(op)
                cases += 1
                k = rnd.choice(keys)
                try:
                    if op == "set":
                        v = bytes(rnd.getrandbits(8) for _ in range(rnd.choice([0, 1, 5])))
                        d[k] = v
                        model[k] = v
                        got = want = None
                    elif op == "get":
                        try:
                            got = d[k]
                        except KeyError:
                            got = KeyError
                        want = model.get(k, KeyError)
                    elif op == "del":
                        try:
                            del d[k]
                            got = None
                        except KeyError:
                            got = KeyError
                        want = None if k in model else KeyError
                        model.pop(k, None)
                    elif op == "in":
                        got, want = (k in d), (k in model)
                    elif op == "len":
                        got, want = len(d), len(model)
                    elif op == "iter":
                        got, want = sorted(d), sorted(model)
                    elif op == "getdefault":
                        got, want = d.get(k, b"dflt"), model.get(k, b"dflt")
                    elif op == "clear":
                        if rnd.random() < 0.3:
                            d.clear()
                            model.clear()
                        got, want = len(d), len(model)
                    elif op == "sync":
                        d.sync()
                        got = want = None
                    elif op == "reopen":
                        d.close()
                        d = cls.open(path)
                        got, want = {x: d[x] for x in d}, dict(model)
                    elif op == "badvalue":
                        try:
                            d[k] = "text"
                            got = "accepted"
                        except TypeError:
                            got = None
                        want = None
                        if got is None and (k in d) != (k in model):
                            got = "refused value had an effect"
                    elif op == "closed":
                        if rnd.random() < 0.2:
                            d.close()
                            for what in ("get", "set", "len", "iter", "in", "clear", "getdefault"):
                                try:
                                    if what == "get":
                                        d[k]
                                    elif what == "set":
                                        d[k] = b"v"
                                    elif what == "len":
                                        len(d)
                                    elif what == "iter":
                                        list(d)
                                    elif what == "in":
                                        k in d
                                    elif what == "clear":
                                        d.clear()
                                    else:
                                        d.get(k, None)
                                    _viol(viol, "%s on a closed %s did not raise ValueError" % (what, kind), history=hist[-6:])
                                    ok = False
                                except ValueError:
                                    pass
                                except KeyError:
                                    _viol(viol, "%s on a closed %s raised KeyError instead of ValueError" % (what, kind), history=hist[-6:])
                                    ok = False
                            d = cls.open(path)
                        got, want = {x: d[x] for x in d}, dict(model)
                except Exception as ex:
                    _viol(viol, "%s: operation %s raised %s: %s" % (kind, op, type(ex).__name__, str(ex)[:60]), history=hist[-8:])
                    ok = False
                    break
                if got != want:
                    _viol(viol, "%s: operation %s gave an observation different from the dict model" % (kind, op), history=hist[-8:],
                          got=repr(got)[:80], want=repr(want)[:80])
                    ok = False
                    break
            try:
                d.close()
            except Exception:
                pass
            if kind == "pickled" and ok:
                for fn, exc in ((lambda: cls.create(path), FileExistsError), (lambda: cls.open(path + ".missing"), FileNotFoundError)):
                    try:
                        x = fn()
                        x.close()
                        _viol(viol, "create over an existing path / open of a missing path was accepted", kind=kind)
                    except exc:
                        pass
                    except Exception as ex:
                        _viol(viol, "create/open refusal raised %s instead of %s" % (type(ex).__name__, exc.__name__), kind=kind)
    finally:
        shutil.rmtree(root, ignore_errors=True)
    return {"cases": cases, "bound": "%d seeded histories of up to 50 operations over 5 keys (PickledDict full life cycle, DBMDict one session)" % nseq,
            "violations": viol}
