"""Shared scaffolding of the nine scheme sidecars: label tables built from (label, value) pair lists,
ideal-primitive predicates for the symmetric cipher, database well-formedness, table-builder contracts.
"""
from pyvc.api import *
from pyvc.engine import Ref, SV, Unsupported, LambdaV
from pyvc import externals
import z3, ast
import contracts.toolkit_bytes
import contracts.crypto
from contracts.crypto import cbc_enc, cbc_dec, pkcs7, pkcs7_valid, unpad7, prf, AES, AEST, PRF, PRFT

Len = z3.Length
Imp, And, Or, Not, MP = z3.Implies, z3.And, z3.Or, z3.Not, z3.MultiPattern
PAIR = TTuple(TBytes, TBytes)
PL = TList(PAIR)
PLS = sort(PL)
PS = sort(PAIR)
TBL = TDict(TBytes, TBytes)
OB = sort(TOpt(TBytes))
BL = TList(TBytes)
BLS = sort(BL)
DBT = TDict(TBytes, BL)
ODB = sort(TOpt(BL))
fst = PS.accessor(0, 0)
snd = PS.accessor(0, 1)
ps, qs = z3.Consts("ps qs", PLS)
k, j, n = z3.Ints("k j n")
lb, vb = z3.Consts("lb vb", BYTES)

prf.opaque = True   # schemes treat the PRF as an (assumed collision-free) function symbol

# ---- pair lists as finite maps --------------------------------------------------------------------------
lmapf = specfn("lmapf", [PL, TInt], TBL, py=lambda L, k: dict(L[:max(k, 0)]),
               doc="the map induced by the first k (label, value) pairs, later pairs overriding earlier ones")
lmapf.define = lambda L, k: z3.If(k <= 0, z3.K(BYTES, OB.none),
                                  z3.Store(lmapf(L, k - 1), fst(L[k - 1]), OB.some(snd(L[k - 1]))))
distinct_upto = specfn("distinct_upto", [PL, TInt], TBool,
                       py=lambda L, k: len({p[0] for p in L[:max(k, 0)]}) == len(L[:max(k, 0)]),
                       doc="the first k labels are pairwise distinct")
distinct_upto.define = lambda L, k: z3.If(
    k <= 0, True, z3.And(OB.is_none(z3.Select(lmapf(L, k - 1), fst(L[k - 1]))), distinct_upto(L, k - 1)))
firsts = specfn("firsts", [PL, TInt], BL, py=lambda L, k: [p[0] for p in L[:max(k, 0)]], doc="labels of the first k pairs")
firsts.define = lambda L, k: z3.If(k <= 0, z3.Empty(BLS), z3.Concat(firsts(L, k - 1), z3.Unit(fst(L[k - 1]))))
strict_asc_upto = specfn("strict_asc_upto", [PL, TInt], TBool,
                         py=lambda L, k: all(L[i][0] < L[i + 1][0] for i in range(max(min(k, len(L)), 1) - 1)),
                         doc="the first k labels are strictly ascending (bytes order)")
strict_asc_upto.define = lambda L, k: z3.If(
    k <= 1, True, z3.And(bytes_lt(fst(L[k - 2]), fst(L[k - 1])), strict_asc_upto(L, k - 1)))
sorted_pairs = specfn("sorted_pairs", [PL], PL, py=lambda L: sorted(L, key=lambda p: p[0]),
                      doc="list.sort(key=first component): abstract, characterised by the B3 axioms")

axiom("B3_sort_len", [ps], Len(sorted_pairs(ps)) == Len(ps), patterns=[sorted_pairs(ps)], auto=True,
      note="B3: list.sort keeps the length")
axiom("B3_sort_map", [ps], Imp(distinct_upto(ps, Len(ps)), And(lmapf(sorted_pairs(ps), Len(ps)) == lmapf(ps, Len(ps)),
                                                                distinct_upto(sorted_pairs(ps), Len(ps)),
                                                                strict_asc_upto(sorted_pairs(ps), Len(ps)))),
      patterns=[sorted_pairs(ps)], auto=True,
      note="B3: sorting pairs with pairwise distinct labels by label gives a permutation (same induced map, still "
           "distinct) in strictly ascending label order")

lemma("lmapf_frame", [ps, qs, k], Imp(k <= Len(ps), lmapf(z3.Concat(ps, qs), k) == lmapf(ps, k)),
      patterns=[lmapf(z3.Concat(ps, qs), k)], induct=("int", k), inst=[[ps, qs, k - 1]])
lemma("distinct_frame", [ps, qs, k], Imp(k <= Len(ps), distinct_upto(z3.Concat(ps, qs), k) == distinct_upto(ps, k)),
      patterns=[distinct_upto(z3.Concat(ps, qs), k)], induct=("int", k), inst=[[ps, qs, k - 1]], uses=["lmapf_frame"])
lemma("distinct_mono", [ps, k, j], Imp(And(distinct_upto(ps, k), j <= k), distinct_upto(ps, j)),
      patterns=None, induct=("int", k), inst=[[ps, k - 1, j]])
lemma("asc_mono", [ps, k, j], Imp(And(strict_asc_upto(ps, k), j <= k), strict_asc_upto(ps, j)),
      patterns=None, induct=("int", k), inst=[[ps, k - 1, j]])
lemma("firsts_len", [ps, k], Len(firsts(ps, k)) == z3.If(k <= 0, 0, k), patterns=[firsts(ps, k)], induct=("int", k),
      inst=[[ps, k - 1]], auto=True)


# ---- scheme-level form of C06: the keys of a table built from a pair list are in strictly ascending order ---------------------------
bl_, bl2_ = z3.Consts("bl_ bl2_", BLS)
asc_bl = specfn("asc_bl", [BL, TInt], TBool, py=lambda xs, k: all(xs[i] < xs[i + 1] for i in range(max(min(k, len(xs)), 1) - 1)),
                doc="the first k byte strings are strictly ascending")
asc_bl.define = lambda xs, k: z3.If(k <= 1, True, z3.And(bytes_lt(xs[k - 2], xs[k - 1]), asc_bl(xs, k - 1)))
lemma("asc_bl_frame", [bl_, bl2_, k], Imp(k <= Len(bl_), asc_bl(z3.Concat(bl_, bl2_), k) == asc_bl(bl_, k)), patterns=None,
      induct=("int", k), inst=[[bl_, bl2_, k - 1]])
lemma("firsts_nth", [ps, k, j], Imp(And(0 <= j, j < k), firsts(ps, k)[j] == fst(ps[j])), patterns=None, induct=("int", k),
      inst=[[ps, k - 1, j]], uses=["firsts_len"])
lemma("firsts_asc", [ps, k], Imp(strict_asc_upto(ps, k), asc_bl(firsts(ps, k), k)), patterns=None, induct=("int", k), inst=[[ps, k - 1]],
      uses=["firsts_len", "firsts_nth", "asc_bl_frame"],
      use_inst=[("firsts_nth", [ps, k - 1, k - 2]), ("asc_bl_frame", [firsts(ps, k - 1), z3.Unit(fst(ps[k - 1])), k - 1])])

# list.sort(key=lambda pair: pair[0]) on a pair list is `sorted_pairs`
def _sort_hook(E, ref, key, fr, node):
    sv = E.list_sv(ref)
    if sv.ty != PL or not isinstance(key, LambdaV):
        return False
    body = key.node.body if isinstance(key.node, ast.Lambda) else None
    arg = key.node.args.args[0].arg if isinstance(key.node, ast.Lambda) else None
    if not (isinstance(body, ast.Subscript) and isinstance(body.value, ast.Name) and body.value.id == arg
            and isinstance(body.slice, ast.Constant) and body.slice.value == 0):
        return False
    E.setcell(ref, ("seq", SV(sorted_pairs(sv.t), PL)))
    E.trusted_used.add("ext:list.sort(key=first component) [B3]")
    return True


externals.SORT_HOOKS.append(_sort_hook)


def table_builder(key, returns_obj=None, params=None, props=("C06", "C05", "C01")):
    """contract of  kv_pairs.sort(key=label); D = {k: v for k, v in kv_pairs}  (three spellings in the repository)"""
    post_d = "result.D" if returns_obj else "result"
    contract(key, params=params, returns=returns_obj or TBL, modifies=["kv_pairs"],
             requires=["distinct_upto(kv_pairs, len(kv_pairs))"],
             ensures=["dmap(%s) == lmapf(old(kv_pairs), len(old(kv_pairs)))" % post_d,
                      "dkeys(%s) == firsts(sorted_pairs(old(kv_pairs)), len(old(kv_pairs)))" % post_d,
                      "strict_asc_upto(sorted_pairs(old(kv_pairs)), len(old(kv_pairs)))",
                      "len(%s) == len(old(kv_pairs))" % post_d],
             lemmas=["B3_sort_map", "B3_sort_len"],
             loops={0: dict(dict=TBL,
                            invariant=["kv_pairs == sorted_pairs(old(kv_pairs))",
                                       "dmap(_acc) == lmapf(kv_pairs, it)", "dkeys(_acc) == firsts(kv_pairs, it)"],
                            hints=[("distinct_mono", ["kv_pairs", "len(kv_pairs)", "it + 1"])])},
             gen=lambda rnd: _gen_pairs(rnd, params), props=list(props))


def _gen_pairs(rnd, params):
    n_ = rnd.choice([0, 1, 2, 3, 5, 8])
    labels = set()
    while len(labels) < n_:
        labels.add(bytes(rnd.getrandbits(8) for _ in range(rnd.choice([1, 2, 4]))))
    pairs = [(l, bytes(rnd.getrandbits(8) for _ in range(3))) for l in labels]
    rnd.shuffle(pairs)
    d = {p: None for p in params}
    d["kv_pairs"] = pairs
    if "cls" in d:
        d["cls"] = "CLASS"
    return d


# ---- symmetric cipher predicates --------------------------------------------------------------------------
ky, ms, ct = z3.Consts("ky ms ct", BYTES)
is_enc = specfn("is_enc", [TBytes, TBytes, TBytes], TBool,
                py=lambda key, m, c: len(c) == 16 + 16 * (len(m) // 16 + 1) and c[16:] == cbc_enc.py(key, c[:16], pkcs7.py(m, 16)),
                doc="c is an AES-CBC/PKCS7 encryption of m under key (any IV)", macro=True)
is_enc.define = lambda key, m, c: z3.And(Len(c) == 16 + 16 * (Len(m) / 16 + 1),
                                         z3.Extract(c, 16, Len(c) - 16) == cbc_enc(key, z3.Extract(c, 0, 16), pkcs7(m, 16)))
dec = specfn("dec", [TBytes, TBytes], TBytes, py=lambda key, c: unpad7.py(cbc_dec.py(key, c[:16], c[16:]), 16),
             doc="AES-CBC/PKCS7 decryption", macro=True)
dec.define = lambda key, c: unpad7(cbc_dec(key, z3.Extract(c, 0, 16), z3.Extract(c, 16, Len(c) - 16)), 16)
dec_ok = specfn("dec_ok", [TBytes, TBytes], TBool,
                py=lambda key, c: len(c) >= 16 and len(c) % 16 == 0 and pkcs7_valid.py(cbc_dec.py(key, c[:16], c[16:]), 16),
                doc="Decrypt(key, c) does not raise for a cipher without a declared ciphertext length", macro=True)
dec_ok.define = lambda key, c: z3.And(Len(c) >= 16, Len(c) % 16 == 0,
                                      pkcs7_valid(cbc_dec(key, z3.Extract(c, 0, 16), z3.Extract(c, 16, Len(c) - 16)), 16))
lemma("dec_enc", [ky, ms, ct], Imp(is_enc(ky, ms, ct), And(dec_ok(ky, ct), dec(ky, ct) == ms)),
      patterns=[is_enc(ky, ms, ct)], uses=["X1_pad_valid", "X2_cbc_inv", "X2_cbc_len", "pkcs7_len"],
      use_inst=[("X1_pad_valid", [ms, z3.IntVal(16)]), ("pkcs7_len", [ms, z3.IntVal(16)])])
lemma("enc_len", [ky, ms, ct], Imp(is_enc(ky, ms, ct), Len(ct) == 16 + 16 * (Len(ms) / 16 + 1)),
      patterns=[is_enc(ky, ms, ct)])

# ---- databases -------------------------------------------------------------------------------------------
db_ = z3.Const("db_", sort(DBT))
w_ = z3.Const("w_", BYTES)


def db_has(db, w):
    return z3.Not(ODB.is_none(z3.Select(db, w)))


def db_list(db, w):
    return ODB.val(z3.Select(db, w))


# ---- pickle as abstract mutually inverse maps (P1) ------------------------------------------------------------------
def pickle_spec(suffix, ty, py_ok=True):
    import pickle
    pk, unpk = externals.pickle_fns(ty)
    f = specfn("pickled_" + suffix, [ty], TBytes, py=(lambda x: pickle.dumps(x)))
    g = specfn("unpickled_" + suffix, [TBytes], ty, py=(lambda b: pickle.loads(b)))
    f.decl, g.decl = pk, unpk   # the same symbols the engine uses for pickle.dumps / pickle.loads
    xv = z3.Const("pkx_" + suffix, sort(ty))
    axiom("P1_" + suffix, [xv], unpk(pk(xv)) == xv, patterns=[pk(xv)], auto=True,
          note="P1: pickle.loads(pickle.dumps(x)) == x")
    return f, g


pickled_list, unpickled_list = pickle_spec("list", BL)
pickled_tbl, unpickled_tbl = pickle_spec("tbl", TBL)

# ---- A2: the PRF as an ideal (collision-free) keyed function, given by inverse functions --------------------------
SHA1 = z3.StringVal("sha1")
prf_kinv = specfn("prf_kinv", [TBytes], TBytes, doc="A2: the key a PRF output was computed under")
prf_minv = specfn("prf_minv", [TBytes], TBytes, doc="A2: the message a PRF output was computed from")
o_ = z3.Int("o_")
axiom("A2_prf_injective", [o_, ky, ms], Imp(o_ >= 8, And(prf_kinv(prf(SHA1, o_, ky, ms)) == ky, prf_minv(prf(SHA1, o_, ky, ms)) == ms)),
      patterns=[prf(SHA1, o_, ky, ms)],
      note="A2 (ideal primitive, Dolev-Yao style): HMAC-PRF outputs of >= 8 bytes determine (key, message); "
           "this is the formal reading of 'except with negligible probability' in the property text")
axiom("A6_prf_len", [o_, ky, ms], Imp(o_ >= 0, Len(prf(SHA1, o_, ky, ms)) == o_), patterns=[prf(SHA1, o_, ky, ms)],
      note="A6: output length (proved for HmacPRF.__call__ in C16; restated because prf is opaque here)")

total_upto = specfn("total_upto", [DBT, TInt], TInt,
                    py=lambda db, k: sum(len(v) for v in list(db.values())[:max(k, 0)]),
                    doc="number of postings of the first k keywords (insertion order)")
_dk = speclib.dkeys_fn(DBT)
total_upto.define = lambda db, k: z3.If(k <= 0, 0, total_upto(db, k - 1) + Len(ODB.val(z3.Select(db, _dk(db)[k - 1]))))
lemma("total_nonneg", [db_, k], total_upto(db_, k) >= 0, patterns=[total_upto(db_, k)], induct=("int", k), inst=[[db_, k - 1]],
      auto=True)
