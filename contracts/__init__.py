"""Sidecar contracts. PROPS maps each claimed property to the contract modules that decide it and to the
assumptions / bounded stand-ins its evidence must always list."""

A_ENGINE = [
    "S1: python int = mathematical integer (exact); S2: &,|,^,<<,>> on non-negative ints are the mathematical bit operations",
    "S3: classes and modules are not monkey-patched; S4: KeyboardInterrupt/MemoryError are not modelled",
    "engine: the pyvc translator (AST -> VCs), ground instantiation of spec-function definitions, z3/cvc5 are trusted; "
    "mitigated by canary + CPython cross-check + seeded mutants",
]

PROPS = {
    "C17": dict(modules=["toolkit_bytes"], assumptions=A_ENGINE + [
        "B1: int.to_bytes / int.from_bytes (big endian) are the functions i2b / b2i; OverflowError iff x<0 or x>=256**w",
        "B2: bytes.fromhex / bytes.hex / str.encode / bytes.decode are abstract (uninterpreted) mutually inverse maps",
    ], bounded=[]),
    "C18": dict(modules=["bits"], assumptions=A_ENGINE, bounded=[]),
}
