"""Sidecar contracts. PROPS maps each claimed property to the contract modules that decide it and to the
assumptions / bounded stand-ins its evidence must always list."""

A_ENGINE = [
    "S1: python int = mathematical integer (exact); S2: &,|,^,<<,>> on non-negative ints are the mathematical bit operations",
    "S3: classes and modules are not monkey-patched; S4: KeyboardInterrupt/MemoryError are not modelled",
    "engine: the pyvc translator (AST -> VCs), ground instantiation of spec-function definitions, z3/cvc5 are trusted; "
    "mitigated by canary + CPython cross-check + seeded mutants",
]

A_SSE = A_ENGINE + [
    "A1: os.urandom / random.* return fresh values (ghost RNG tape)",
    "A2 (ideal primitive, Dolev-Yao style): HMAC-PRF outputs of >= 8 bytes determine (key, message) -- the formal reading of "
    "'except with negligible probability'; strictly inconsistent with a finite codomain, no obligation uses cardinality",
    "A6: PRF / hash output lengths (proved in C16, restated because the PRF is opaque at scheme level)",
    "X1-X3: cryptography's PKCS7 and AES-CBC (see C14); Dec(k, Enc(k, m)) == m is proved from them",
    "B3: list.sort(key=label) on pairs with pairwise distinct labels is a permutation in strictly ascending label order",
    "B4: dict preserves insertion order; keys of a dict are pairwise distinct (positions dkpos)",
    "P1: pickle.loads(pickle.dumps(x)) == x",
    "schemes not yet under contract for this property are covered only by the bounded stand-in (real code, real crypto, boundary grid)",
]

PARTIAL = {
    "C01": "proved for all inputs: for all nine schemes the public operations keep no state between calls (KeyGen/EDBSetup/TokenGen/Search and everything they call mutate nothing reachable from self or their arguments -- ownership pass), so a search depends only on (index, token) and a token only on (key, keyword), whatever was done before; CJJ14.PiBas, CJJ14.PiPack and CGKO06.SSE2 (Enc |- Repr, Repr |- Search == DB[w], composed client lemma Search(EDBSetup(K, DB), TokenGen(K, w)) == DB.get(w, [])) and the shared toolkit callees; for SSE-2 the injectivity of the PRP is the fact C15 proves about the real cipher, restated as an inverse function (axiom PRP_inverse), and keyword -> integer injectivity (no leading NUL) is a proved lemma; bounded stand-in only: the other six schemes",
    "C02": "proved for all inputs: for all nine schemes the public operations keep no state between calls (ownership pass: a token depends only on (key, keyword), whatever tokens were issued before); CJJ14.PiBas, CJJ14.PiPack, CGKO06.SSE2 (absent keyword => empty result, no exception); bounded stand-in only: the other six schemes",
    "C03": "proved for all inputs: key / token / result / encrypted-database serialize + deserialize of all nine schemes (exact ValueError conditions, field layout, deserialize(serialize(x)) == x for every well-formed object; modulo P1 for the pickled parts) except the SSE-1 / SSE-2 key parsers (star-args over a computed list: bounded only); CJJ14.PiBas / PiPack config parsing; bounded stand-in only: the server-side composition through JSON config + wire formats and the two key parsers",
    "C05": "proved for all inputs: CJJ14.PiBas |D| == N, CJJ14.PiPack |D| == number of blocks, and the table builders' sizes (|table| == number of pairs) for PiPtr, Pi2Lev, CT14.Pi and ANSS16.Scheme3 as well; bounded stand-in only: the shape of the whole index for the other seven schemes and value-length uniformity",
    "C06": "proved for all inputs: the label-table builders of CJJ14.PiBas / PiPack / PiPtr / Pi2Lev, CT14.Pi and ANSS16.Scheme3 store labels in strictly ascending order whatever the order of their input (modulo B3); bounded stand-in only: that every table of an index is built through these builders, the DP17 / SSE-1 / SSE-2 layouts, and array placement",
    "C07": "proved for all inputs: for all nine schemes, KeyGen/EDBSetup/TokenGen/Search and _Gen/_Enc/_Trap/_Search (with every function they call, transitively) mutate nothing reachable from their arguments or from self -- frame contracts decided by the ownership pass (pyvc/own.py: abstract interpretation of the real AST, one obligation per mutating statement); for CJJ14.PiBas / PiPack the same frame obligations are also discharged by the SMT engine together with the functional contracts; bounded stand-in only: the history claim (results independent of earlier operations) and value-level equality of arguments before/after",
    "C08": "proved for all inputs: the last clause for all nine schemes -- for every key that a scheme's _parse_config reads from the dictionary (read from the real source on every run), a configuration without that key is refused with ValueError while the configuration is built (125 contract variants); CJJ14.PiBas / PiPack _parse_config exact refusal conditions and, through C01, correct searches for every accepted configuration of those two schemes; bounded stand-in only: 'setup completes => every search is correct' over the configuration grid for the other seven schemes",
}

PARTIAL["C04"] = "proved: for all nine schemes, every byte string reachable from what _Enc returns (the index) and from what _Trap returns (the token) is the output of a PRF/PRP/SKE under a secret (key-derived) key, a hash of such an output, an XOR mask with one, random bytes or a public value -- provenance contracts decided by the labelled ownership pass over the real AST (SSE-2 index values may be identifiers, as the property allows; key material itself never flows into index or token); AESxCBC.Encrypt's output is iv || CBC(pkcs7(m)) with a fresh 16-byte IV (C14); CJJ14.PiBas/PiPack additionally by the SMT engine (Repr). NOT decided (assumed A2/A4): that such outputs do not contain a keyword by chance. Bounded stand-in: substring absence and ciphertext-block freshness over all nine schemes"
PARTIAL["C10"] = "proved for all inputs: the loader Service.__init__ reports exactly the recorded state in the init echo and changes nothing on disk; Service.handle_upload_config / handle_upload_encrypted_database / handle_search_token / close_service against a ghost disk and message trace (exact guards, effects, frame, invariant mem.state == disk.state, refused requests change nothing and reply ok=False); trusted: FileManager functions (D1 model), lazy loaders; bounded stand-in: message histories against the 3-state model on the real connection handler"
PARTIAL["C11"] = "proved for all inputs: the ten ClientServiceState flag helpers (set/clear/test exactly one bit), the server-state resynchronisation (touches only the two upload flags), and the synchronous client handlers handle_create_key / handle_encrypt_database / handle_upload_config_echo / handle_upload_encrypted_database_echo over a ghost client disk: exact prerequisite guards, a refused operation changes neither the persisted state nor any file, exactly one flag changes on success and the state record is rewritten, the key file is written only where none existed and no other handler touches it; trusted: client FileManager functions (D1 model), lazy loaders, the scheme calls; bounded stand-in: client operation histories against the 5-flag reference model with a live loopback server (including the asynchronous upload / search operations and handle_create_config), key write-once on the real files, rejected configurations"
PARTIAL["C13"] = "proved for all inputs: crash-prefix obligations -- after EVERY file-system mutation of the server handlers (create directory, write config, write state record, write index) and of the synchronous client handlers (write key, write index, write / delete files, write state record) the disk satisfies the recovery invariant 'the recorded state never promises a file that is not there' (server: record => directory and config, state 2 => index; client: key flag => key file, built-but-not-uploaded => local index); from that invariant the server loader (under contract) reports exactly the recorded state and changes nothing, and the client resynchronisation recovers both upload flags from the init echo; handlers keep mem.state == recorded state. Trusted: each FileManager function is one atomic mutation (D1; the state record is replaced by rename). Bounded stand-in: every file-system mutation of the seven persisting steps killed before/after on the real code, restart, finish the workflow (in-process kill simulation), including the asynchronous steps"
PARTIAL["C09"] = "proved for all inputs: server handlers store exactly the received bytes and report/guard by the recorded state; client resynchronisation; bounded stand-in: the documented workflow over loopback websockets for all nine schemes with client re-creation and server restarts; the end-to-end composition lemma is not mechanised"
PARTIAL["C19"] = "proved for all array lengths, item sizes, chunk sizes, indices and slices over the ghost file system (D2): index -> (file, offset) mapping and lazy file cache, int reads/writes with negative indices against the abstract view (a list of left-zero-padded items; unwritten regions read as zeros), slice reads, slice assignment (element-wise up to the shorter of slice and values, never resizing) WITH ROLLBACK -- a refused item in the middle of a slice assignment leaves every item as it was --, element and slice deletion and clear (zero fill), iteration, exact exception conditions with no effect on any file, create/reopen through the meta file, typestate closed => every operation raises ValueError, only the array's own chunk files are ever created or changed, client lemmas write->close->reopen, clear, failed write, failed slice write; bounded stand-in only: membership, from_list, release, non-bytes items inside a slice assignment, and mixed operation histories against a list model"
PARTIAL["C20"] = "proved for all inputs over the ghost file system (D2) and pickle round trip (P1): every PickledDict operation equals dict's and touches no file; sync/close leave exactly pickle(contents) in the file and install the closed marker (typestate); open recovers the contents; from_dict copies; create on an existing / open on a missing path refuse; every operation on a closed dictionary raises ValueError; client lemmas close->reopen, sync->open, from_dict independence, close twice. DBMDict within one session (D3: the dbm handle is a dict of byte strings): BytesShelf get/set/delete/contains/len/iteration/get-with-default/sync/clear under contract with the invariant 'every cached value is the unpickled record of a present key' (clear = MutableMapping.clear restated as ghost code, or the repository's own definition if it has one), DBMDict delegation and refusal of non-bytes values without effect, client lemmas set->get, delete->contains, clear->len. Bounded stand-in only: DBMDict construction/close/reopen (dbm files), and mixed operation histories against a dict model"

SCHEME_CLASSES = [("schemes/CJJ14/PiBas/construction.py", "PiBas"), ("schemes/CJJ14/PiPack/construction.py", "PiPack"),
                  ("schemes/CJJ14/PiPtr/construction.py", "PiPtr"), ("schemes/CJJ14/Pi2Lev/construction.py", "Pi2Lev"),
                  ("schemes/CT14/Pi/construction.py", "Pi"), ("schemes/ANSS16/Scheme3/construction.py", "Pi"),
                  ("schemes/DP17/Pi/construction.py", "Pi"), ("schemes/CGKO06/SSE1/construction.py", "SSE1"),
                  ("schemes/CGKO06/SSE2/construction.py", "SSE2")]
OWN_FRAMES = ["%s:%s.%s" % (rel, cls, m) for rel, cls in SCHEME_CLASSES
              for m in ("_Gen", "_Enc", "_Trap", "_Search", "KeyGen", "EDBSetup", "TokenGen", "Search")]

PROV_CONTRACTS = [("%s:%s.%s" % (rel, cls, m), roles, (["id"] if (cls == "SSE2" and m == "_Enc") else []))
                  for rel, cls in SCHEME_CLASSES for m, roles in (("_Enc", ["self", "key", "db"]), ("_Trap", ["self", "key", "kw"]))]

PROPS = {
    "C17": dict(modules=["toolkit_bytes"], assumptions=A_ENGINE + [
        "B1: int.to_bytes / int.from_bytes (big endian) are the functions i2b / b2i; OverflowError iff x<0 or x>=256**w",
        "B2: bytes.fromhex / bytes.hex / str.encode / bytes.decode are abstract (uninterpreted) mutually inverse maps",
    ], bounded=[]),
    "C18": dict(modules=["bits"], assumptions=A_ENGINE, bounded=[]),
    "C01": dict(modules=["pibas", "pipack", "sse2", "sse_bounded"], assumptions=A_SSE, bounded=[], partial=PARTIAL["C01"], runtime_checks=[["sse_bounded", "rt_c01_c02"]], own_frames=OWN_FRAMES),
    "C02": dict(modules=["pibas", "pipack", "sse2", "sse_bounded"], assumptions=A_SSE, bounded=[], partial=PARTIAL["C02"], runtime_checks=[["sse_bounded", "rt_c01_c02"]], own_frames=OWN_FRAMES),
    "C03": dict(modules=["pibas", "pipack", "structures_all", "producers_all", "sse_bounded"], assumptions=A_SSE, bounded=[], partial=PARTIAL["C03"], runtime_checks=[["sse_bounded", "rt_c03"]]),
    "C04": dict(modules=["pibas", "pipack", "producers_all", "sse_bounded"], assumptions=A_SSE + ["A4/A2 (NOT decided): absence of chance substrings / collisions is probabilistic"], bounded=[],
                partial=PARTIAL["C04"], runtime_checks=[["sse_bounded", "rt_c04"]], prov_contracts=PROV_CONTRACTS),
    "C05": dict(modules=["pibas", "pipack", "structures_all", "sse_bounded"], assumptions=A_SSE, bounded=[], partial=PARTIAL["C05"], runtime_checks=[["sse_bounded", "rt_c05"]]),
    "C06": dict(modules=["pibas", "pipack", "structures_all", "sse_bounded"], assumptions=A_SSE, bounded=[], partial=PARTIAL["C06"], runtime_checks=[["sse_bounded", "rt_c06"]]),
    "C07": dict(modules=["pibas", "pipack", "producers_all", "sse_bounded"], assumptions=A_SSE, bounded=[], partial=PARTIAL["C07"], runtime_checks=[["sse_bounded", "rt_c07"]], own_frames=OWN_FRAMES),
    "C08": dict(modules=["pibas", "pipack", "configs_all", "sse_bounded"], assumptions=A_SSE, bounded=[], partial=PARTIAL["C08"], runtime_checks=[["sse_bounded", "rt_c08"]]),
    "C19": dict(modules=["persist", "persist_bounded"], assumptions=A_ENGINE + ["D2: ghost file system (pyvc/files.py): open/seek/read/write/close, os.path.exists, os.unlink, pickle.dump/load on a file object as documented; sparse writes zero-fill; buffering transparent", "P1: pickle round trip of the meta tuple", "B5: collections.abc.Sequence.__iter__ is the documented loop over __getitem__ until IndexError (restated as ghost code and verified)", "cidx_def: conservative inverse of the (proved injective) chunk-path function"], bounded=[],
                partial=PARTIAL["C19"], runtime_checks=[["persist_bounded", "rt_c19"]]),
    "C20": dict(modules=["persist", "persist_bounded"], assumptions=A_ENGINE + ["P1: pickle round trip", "D2: ghost file system (pyvc/files.py): open/seek/read/write/truncate/flush/close, os.path.exists, os.unlink, pickle.dump/load on a file object as documented; buffering transparent", "B5: collections.abc.MutableMapping mixin methods are defined through __getitem__/__iter__ as documented", "D3: a dbm handle behaves like dict[bytes, bytes] within one session"], bounded=[],
                partial=PARTIAL["C20"], runtime_checks=[["persist_bounded", "rt_c20"]]),
    "C10": dict(modules=["frontend", "frontend_bounded"], assumptions=A_ENGINE + ["T2: asyncio runs the code between two awaits atomically", "D1: pathlib/open/json/pickle file operations as documented"],
                bounded=[], partial=PARTIAL["C10"], runtime_checks=[["frontend_bounded", "rt_c10"]]),
    "C11": dict(modules=["frontend", "frontend_bounded"], assumptions=A_ENGINE + ["T1: the websocket delivers messages intact, once, in order", "D1: file operations as documented"],
                bounded=[], partial=PARTIAL["C11"], runtime_checks=[["frontend_bounded", "rt_c11"]]),
    "C13": dict(modules=["frontend", "frontend_bounded"], assumptions=A_ENGINE + ["D1: mkdir / open-for-write / write / rename / unlink are atomic; a crash happens only between two of them"],
                bounded=[], partial=PARTIAL["C13"], runtime_checks=[["frontend_bounded", "rt_c13"]]),
    "C09": dict(modules=["frontend", "frontend_bounded"], assumptions=A_ENGINE + ["T1-T3: websocket transport, asyncio scheduling and pickle delivery are exercised, not verified"],
                bounded=[], partial=PARTIAL["C09"], runtime_checks=[["frontend_bounded", "rt_c09"]]),
    "C14": dict(modules=["crypto"], assumptions=A_ENGINE + [
        "X1: cryptography's PKCS7 padder/unpadder: update()+finalize() == pkcs7(m) / unpad7(d), invalid padding raises ValueError",
        "X2: cryptography's AES-CBC: encryptor/decryptor are mutually inverse, length preserving on whole blocks; AES(key) accepts 16/24/32-byte keys; CBC IV has 16 bytes",
        "X3: algorithms.AES.block_size == 128",
        "A1: os.urandom returns fresh bytes: 'two encryptions differ' is the proved fact 'the IV (first 16 bytes) is the fresh draw' plus this assumption",
        "A4 (NOT decided): decrypting under a different key never returns the original message -- a probabilistic property of AES/PKCS7, assumed",
    ], bounded=[], runtime_checks=[["crypto", "rt_iv_fresh"]]),
    "C15": dict(modules=["fpe"], assumptions=A_ENGINE + [
        "X4: hmac/hashlib are pure functions; hashlib.sha1().digest_size == 20",
        "X5: struct.pack is a pure function of its arguments",
        "L1 (Lean 4 + Mathlib, lemmas/L1.lean): (x ^^^ y) ^^^ y = x on Nat; link to Python's ^ is assumption S2",
        "BitwiseFFX is used with its default digest (hashlib.sha1) and an even round count (class invariant; DEFAULT_ROUNDS is checked to be even)",
        "Injectivity of the Luby-Rackoff PRPs is NOT decided here (length preservation, refusal of wrong lengths and exception freedom are proved); bijectivity of the FFX cipher follows from the proved left inverse on the finite domain {0,1}^n",
    ], bounded=[]),
    "C16": dict(modules=["crypto"], assumptions=A_ENGINE + [
        "X4: hmac.new(k, m, name).digest() and hashlib.new(name, m).digest() are pure functions of their arguments with digest_size bytes (digest_size > 0 for the non-XOF hashes); SHAKE digest(n) has n bytes",
        "A2 (NOT decided): pairwise distinct outputs for distinct (key, message) -- collision freeness of HMAC, assumed",
        "get_hash_implementation's module-level cache keyed by lower-cased name: only lower-case names are in the contract's domain",
    ], bounded=[]),
}
