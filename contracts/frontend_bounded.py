"""Bounded stand-ins for the front-end properties C09 / C10 / C11 / C13: the real client service and the real server
connection handler, driven in one process over loopback websockets (C09, C11, C13) or an in-memory websocket
double (C10), on scratch directories.  Labelled `bounded`; never counted as proved.

The only change of behaviour made here is the time scale of the server's one-second clean-up delay
(asyncio.sleep(1) -> asyncio.sleep(0.02)) so that histories with many reconnects finish; ordering is unaffected.
"""
import asyncio, copy, hashlib, importlib, itertools, logging, os, pathlib, pickle, random, shutil, sys, tempfile, time

logging.disable(logging.CRITICAL)
_env = {}


def _viol(out, clause, **inp):
    out.append({"clause": clause, "input": inp})


class _FastAsyncio:
    """asyncio with the clean-up delay scaled down (used only inside services_manager)"""

    def __init__(self, scale):
        self._scale = scale

    def __getattr__(self, name):
        return getattr(asyncio, name)

    def sleep(self, t, *a, **k):
        return asyncio.sleep(t * self._scale, *a, **k)


def modules():
    if not _env:
        import frontend.server.services.file_manager as sfm
        import frontend.client.services.file_manager as cfm
        import frontend.server.services.services_manager as sm
        import frontend.server.connector as connector
        import frontend.client.services.service as cs
        import frontend.server.services.service as ss
        import global_config
        from frontend.common.constants import MsgType
        import schemes
        sm.asyncio = _FastAsyncio(0.02)
        _env.update(sfm=sfm, cfm=cfm, sm=sm, connector=connector, cs=cs, ss=ss, gc=global_config, MsgType=MsgType, schemes=schemes)
    return _env


def fresh_dirs(root):
    m = modules()
    s = pathlib.Path(root).joinpath("server")
    c = pathlib.Path(root).joinpath("client")
    s.mkdir(parents=True, exist_ok=True)
    c.mkdir(parents=True, exist_ok=True)
    m["sfm"]._PROGRAM_PATH = s
    m["cfm"]._PROGRAM_PATH = c
    m["connector"]._sse_service_manager = m["sm"].ServicesManager()
    return s, c


SCHEME = "CJJ14.PiBas"


def scheme_fixture(rnd, name=SCHEME):
    m = modules()
    mod = m["schemes"].load_sse_module(name)
    cfg = dict(mod.SSEConfig.get_default_config())
    sch = mod.SSEScheme(cfg)
    key = sch.KeyGen()
    db1 = {b"alpha": [bytes([1, i, 7, 7]) for i in range(1, 4)], b"beta": [b"\x09\x09\x09\x09"]}
    db2 = {b"alpha": [b"\x05\x05\x05\x05"], b"beta": [b"\x09\x09\x09\x09"]}
    return dict(mod=mod, cfg=cfg, cfgobj=mod.SSEConfig(cfg), sch=sch, key=key, db1=db1, db2=db2,
                e1=sch.EDBSetup(key, copy.deepcopy(db1)).serialize(), e2=sch.EDBSetup(key, copy.deepcopy(db2)).serialize(),
                tok=sch.TokenGen(key, b"alpha").serialize())


# ---------------------------------------------------------------------------------------------------------
# C10: server state machine against the 3-state reference model (in-memory websocket double)
class FakeWS:
    def __init__(self):
        self.q = asyncio.Queue()
        self.sent = []
        self.closed = asyncio.Event()

    async def recv(self):
        x = await self.q.get()
        if x is None:
            raise ConnectionError("closed")
        return x

    def __aiter__(self):
        return self

    async def __anext__(self):
        x = await self.q.get()
        if x is None:
            self.closed.set()
            raise StopAsyncIteration
        return x

    async def send(self, data):
        self.sent.append(data)

    async def wait_closed(self):
        await self.closed.wait()

    def close(self):
        self.q.put_nowait(None)
        self.closed.set()


async def _run_history(fx, sid, hist, overlap):
    """hist: list of events; returns the observable trace"""
    m = modules()
    MsgType = m["MsgType"]
    trace = []
    tasks = []
    conn = None

    async def open_conn():
        ws = FakeWS()
        ws.q.put_nowait(pickle.dumps({"type": "init", "sid": sid}))
        t = asyncio.ensure_future(m["connector"].handler(ws, "/"))
        tasks.append(t)
        for _ in range(200):
            await asyncio.sleep(0.002)
            if ws.sent or t.done():
                break
        st = None
        for raw in ws.sent:
            d = pickle.loads(raw)
            if d["type"] == MsgType.INIT:
                st = pickle.loads(d["content"]).get("state")
        trace.append(("init", st))
        return ws, t

    async def settle(ws, t, n_before, quiet=False):
        for _ in range(12 if quiet else 300):
            await asyncio.sleep(0.002)
            if len(ws.sent) > n_before or t.done():
                break
        await asyncio.sleep(0.004)

    conn, ctask = await open_conn()
    for ev in hist:
        kind = ev[0]
        if kind == "reconnect":
            conn.close()
            if not overlap:
                await asyncio.sleep(0.08)      # previous connection fully cleaned up (scaled 1 s delay + margin)
            conn, ctask = await open_conn()
            continue
        if kind == "pause":
            await asyncio.sleep(0.06)
            continue
        if ctask.done():
            trace.append((kind, "dropped"))
            continue
        n0 = len(conn.sent)
        if kind == "config":
            msg = {"type": MsgType.CONFIG, "sid": sid, "content": pickle.dumps(fx["cfg"] if ev[1] == 1 else dict(fx["cfg"], extra=1))}
        elif kind == "upload":
            msg = {"type": MsgType.UPLOAD_DB, "sid": sid, "content": fx["e1"] if ev[1] == 1 else fx["e2"]}
        elif kind == "search":
            msg = {"type": MsgType.TOKEN, "sid": sid, "content": fx["tok"], "token_digest": b"d"}
        elif kind == "foreign":
            msg = {"type": MsgType.CONFIG, "sid": "f" * 64, "content": pickle.dumps(fx["cfg"])}
        elif kind == "nofields":
            msg = {"content": b"x"}
        else:
            msg = {"type": "no-such-type", "sid": sid, "content": b""}
        conn.q.put_nowait(pickle.dumps(msg))
        await settle(conn, ctask, n0, quiet=kind in ("foreign", "nofields"))
        out = "silent"
        for raw in conn.sent[n0:]:
            d = pickle.loads(raw)
            if d["type"] == MsgType.RESULT and "token_digest" in d:
                res = fx["mod"].SSEResult.deserialize(d["content"], fx["cfgobj"]).get_result_list()
                out = ("result", tuple(res))
            elif d["type"] != MsgType.CONTROL:
                out = "ok" if pickle.loads(d["content"]).get("ok") else "refused"
        trace.append((kind, out))
    conn.close()
    await asyncio.sleep(0.08)
    for t in tasks:
        if not t.done():
            t.cancel()
    await asyncio.gather(*tasks, return_exceptions=True)
    return trace


def _model_trace(fx, hist):
    state, edb, alive = 0, None, True
    tr = [("init", 0)]
    for ev in hist:
        kind = ev[0]
        if kind == "reconnect":
            alive = True
            tr.append(("init", state))
            continue
        if kind == "pause":
            continue
        if not alive:
            tr.append((kind, "dropped"))
            continue
        if kind == "config":
            if state == 0:
                state = 1
                tr.append((kind, "ok"))
            else:
                alive = False
                tr.append((kind, "refused"))
        elif kind == "upload":
            if state == 1:
                state, edb = 2, ev[1]
                tr.append((kind, "ok"))
            else:
                alive = False
                tr.append((kind, "refused"))
        elif kind == "search":
            if state == 2:
                db = fx["db1"] if edb == 1 else fx["db2"]
                tr.append((kind, ("result", tuple(db[b"alpha"]))))
            else:
                alive = False
                tr.append((kind, "refused"))
        elif kind in ("foreign", "nofields"):
            tr.append((kind, "silent"))
        else:
            alive = False
            tr.append((kind, "silent"))
    return tr


def rt_c10(rnd, tier):
    m = modules()
    viol, cases = [], 0
    fx = scheme_fixture(rnd)
    root = tempfile.mkdtemp(prefix="c10-")
    alphabet = [("config", 1), ("config", 2), ("upload", 1), ("upload", 2), ("search",), ("reconnect",), ("foreign",),
                ("unknown",), ("nofields",), ("pause",)]
    fixed = [
        [("config", 1), ("upload", 1), ("search",), ("reconnect",), ("upload", 2), ("reconnect",), ("search",)],
        [("config", 1), ("reconnect",), ("upload", 1), ("pause",), ("pause",), ("reconnect",), ("upload", 2), ("reconnect",), ("search",)],
        [("upload", 1), ("reconnect",), ("search",), ("reconnect",), ("config", 1), ("config", 2), ("reconnect",), ("upload", 2), ("search",)],
    ]
    n = 60 if tier == "quick" else 600
    try:
        for i in range(n + len(fixed)):
            hist = fixed[i] if i < len(fixed) else [rnd.choice(alphabet) for _ in range(rnd.choice([3, 5, 8]))]
            for overlap in (False, True):
                fresh_dirs(os.path.join(root, "h%d_%d" % (i, overlap)))
                sid = hashlib.sha256(b"%d" % i).hexdigest()
                try:
                    got = asyncio.run(_run_history(fx, sid, hist, overlap))
                except Exception as ex:
                    _viol(viol, "history raised %s: %s" % (type(ex).__name__, str(ex)[:80]), history=hist, overlap=overlap)
                    continue
                want = _model_trace(fx, hist)
                cases += 1
                if got != want:
                    k = next((j for j, (a, b) in enumerate(zip(got, want)) if a != b), min(len(got), len(want)))
                    _viol(viol, "server trace differs from the 3-state model at step %d: got %s, model %s (%s)" % (
                        k, got[k] if k < len(got) else None, want[k] if k < len(want) else None,
                        "next connection opened right after the previous close" if overlap else "connections fully separated"),
                        history=[list(e) for e in hist], overlap=overlap)
    finally:
        shutil.rmtree(root, ignore_errors=True)
    return {"cases": cases, "bound": "%d message histories of depth <= 9 over {config c1/c2, upload e1/e2, search, reconnect, foreign sid, "
                                     "unknown type, missing fields}, each with separated and back-to-back reconnects" % (n + len(fixed)),
            "violations": viol}


# ---------------------------------------------------------------------------------------------------------
# loopback fixture for the client-side properties
class Loop:
    """real websockets server (connector.handler) + real client Service objects in one event loop"""

    def __init__(self, root):
        self.m = modules()
        self.root = root
        fresh_dirs(root)
        self.server = None

    async def start(self):
        import websockets
        self.server = await websockets.serve(self.m["connector"].handler, "localhost", 0, max_size=None)
        port = self.server.sockets[0].getsockname()[1]
        self.m["gc"].ClientConfig.SERVER_URI = "ws://localhost:%d" % port

    async def restart_server(self):
        # process death: nothing of the old server process keeps running (handlers, clean-up tasks)
        cur = asyncio.current_task()
        for t in asyncio.all_tasks():
            if t is not cur:
                t.cancel()
        await asyncio.sleep(0)
        await self.stop()
        self.m["connector"]._sse_service_manager = self.m["sm"].ServicesManager()
        await self.start()

    async def stop(self):
        if self.server is not None:
            self.server.close()
            try:
                await asyncio.wait_for(self.server.wait_closed(), 2)
            except Exception:
                pass
            self.server = None
        await asyncio.sleep(0.06)


FLAGS = ("config_created", "config_uploaded", "key_created", "db_encrypted", "db_uploaded")


def read_flags(sid):
    m = modules()
    try:
        st = m["cfm"].read_service_meta(sid)["state"]
    except Exception:
        return None
    return tuple(bool(st >> i & 1) for i in range(5))


_active_ip = [None]


def _crash_pending():
    ip = _active_ip[0]
    return ip is not None and ip.k is not None and not ip.armed


async def _kill_client(svc):
    """process death: the socket goes away, nothing else is written"""
    try:
        if svc.websocket is not None:
            await svc.websocket.close()
    except BaseException:
        pass


_mode = {"abrupt": False, "after_ack": None, "gap": 0.05}


async def client_op(sid, op, fx, arg=None):
    """run one client operation on a Service freshly loaded from disk. returns (accepted, value)"""
    m = modules()
    cs = m["cs"]
    svc = cs.Service(sid)
    try:
        if op == "create_again":
            svc.handle_create_config(dict(fx["cfg"]))
            return True, None
        if op == "create_same":
            # a brand-new client object asked to create the service whose (already salted) configuration it is given:
            # the same service id comes out, so this would redo the completed first step
            cs.Service().handle_create_config(dict(fx["cfg_salted"]))
            return True, None
        if op == "genkey":
            svc.handle_create_key()
            return True, None
        if op == "encrypt":
            svc.handle_encrypt_database(copy.deepcopy(arg or fx["db1"]))
            return True, None
        try:
            if op == "upload_config":
                await asyncio.wait_for(svc.handle_upload_config(wait=True), 0.7)
                await asyncio.sleep(0.01)
                return True, None
            if op == "upload_db":
                await asyncio.wait_for(svc.handle_upload_encrypted_database(wait=True), 0.7)
                await asyncio.sleep(0.01)
                if _mode["after_ack"] is not None:
                    await _mode["after_ack"]()     # e.g. the server is killed while the uploading connection is still open
                return True, None
            if op == "search":
                box = {}

                def cb(fut):
                    box["res"] = fut.result()
                await asyncio.wait_for(svc.handle_keyword_search(arg, wait=True, wait_callback_func=cb), 0.7)
                res = svc.sse_module_loader.SSEResult.deserialize(box["res"], svc.config_object).get_result_list()
                return True, list(res)
        except Crash:
            await _kill_client(svc)
            raise
        finally:
            if _crash_pending() or _mode["abrupt"]:
                await _kill_client(svc)      # the client process died / was discarded: no orderly close
            else:
                try:
                    await svc.close_service()
                except Crash:
                    await _kill_client(svc)
                    raise
                except Exception:
                    pass
            await asyncio.sleep(_mode["gap"])
    except (ValueError, FileNotFoundError, FileExistsError, AttributeError, KeyError, asyncio.TimeoutError, EOFError, pickle.UnpicklingError) as ex:
        return False, "%s: %s" % (type(ex).__name__, str(ex)[:90])
    raise AssertionError("unknown op " + op)


def model_step(f, op):
    """5-flag reference model with the documented prerequisite relation. returns (accepted, new flags)"""
    cc, cu, kc, de, du = f
    if op in ("create_again", "create_same"):
        return (not cc), f
    if op == "genkey":
        ok = cc and not kc
        return ok, (cc, cu, kc or ok, de, du)
    if op == "encrypt":
        ok = cc and kc and not de
        return ok, (cc, cu, kc, de or ok, du)
    if op == "upload_config":
        ok = cc and not cu
        return ok, (cc, cu or ok, kc, de, du)
    if op == "upload_db":
        ok = cu and kc and de and not du
        return ok, (cc, cu, kc, de, du or ok)
    if op == "search":
        return du and kc, f
    raise AssertionError(op)


async def _c11_history(loop_, fx, ops, rnd, viol):
    m = modules()
    svc = m["cs"].Service()
    cfg0 = dict(fx["cfg"])
    sid = svc.handle_create_config(cfg0)        # adds the salt to cfg0 in place
    fx = dict(fx, cfg_salted=dict(cfg0))
    f = (True, False, False, False, False)
    keyb = None
    keypath = m["cfm"]._PROGRAM_PATH.joinpath(sid).joinpath("key")
    n = 0
    for op in ops:
        before_files = sorted(p.name for p in m["cfm"]._PROGRAM_PATH.joinpath(sid).iterdir())
        before_flags = read_flags(sid)
        acc, val = await client_op(sid, op, fx, b"alpha" if op == "search" else None)
        want_acc, f2 = model_step(f, op)
        n += 1
        if acc != want_acc:
            _viol(viol, "client operation %s was %s but the reference model %s it (flags %s)" % (
                op, "accepted" if acc else "refused (%s)" % val, "accepts" if want_acc else "refuses", dict(zip(FLAGS, f))),
                history=ops, step=n)
            return n
        f = f2
        flags = read_flags(sid)
        if flags != f:
            _viol(viol, "persisted client flags after %s are %s, the reference model has %s" % (
                op, dict(zip(FLAGS, flags or ())), dict(zip(FLAGS, f))), history=ops, step=n)
            return n
        if not acc:
            after_files = sorted(p.name for p in m["cfm"]._PROGRAM_PATH.joinpath(sid).iterdir())
            if after_files != before_files or flags != before_flags:
                _viol(viol, "a refused %s changed the persisted client state or files" % op, history=ops, step=n)
                return n
        if keypath.exists():
            kb = keypath.read_bytes()
            if keyb is not None and kb != keyb:
                _viol(viol, "the key file changed after it was first created (operation %s)" % op, history=ops, step=n)
                return n
            keyb = kb
        if op == "search" and acc and val != fx["db1"][b"alpha"]:
            _viol(viol, "search after the workflow returned %r instead of DB[w]" % (val,), history=ops, step=n)
            return n
    return n


def rt_c11(rnd, tier):
    m = modules()
    viol, cases = [], 0
    fx = scheme_fixture(rnd)
    root = tempfile.mkdtemp(prefix="c11-")
    ops_all = ["genkey", "encrypt", "upload_config", "upload_db", "search", "create_again", "create_same"]
    full = ["genkey", "encrypt", "upload_config", "upload_db", "search"]
    fixed = [full + ["genkey", "search", "encrypt", "upload_db", "upload_config", "search"],
             full + ["create_same", "genkey", "search"], ["genkey", "create_same", "genkey", "encrypt", "create_again", "encrypt"],
             ["upload_config", "genkey", "upload_db", "encrypt", "upload_db", "search", "search", "genkey", "search"],
             ["search", "upload_db", "encrypt", "genkey", "genkey", "encrypt", "encrypt", "upload_config", "upload_config", "upload_db", "search"]]
    nrand = 6 if tier == "quick" else 80

    async def run():
        nonlocal cases
        lp = Loop(root)
        await lp.start()
        try:
            for i in range(len(fixed) + nrand):
                ops = fixed[i] if i < len(fixed) else [rnd.choice(ops_all) for _ in range(rnd.choice([4, 8]))]
                cases += await _c11_history(lp, fx, ops, rnd, viol)
            # configurations the scheme cannot be instantiated with must not create a service
            bad = [("missing ske", {k: v for k, v in fx["cfg"].items() if k != "ske"}),
                   ("missing prf_f_output_length", {k: v for k, v in fx["cfg"].items() if k != "prf_f_output_length"}),
                   ("unknown primitive", dict(fx["cfg"], prf_f="NoSuchPRF")), ("unknown scheme", dict(fx["cfg"], scheme="No.Scheme")),
                   ("bad key length", dict(fx["cfg"], param_lambda=20))]
            for what, cfg in bad:
                before = sorted(p.name for p in m["cfm"]._PROGRAM_PATH.iterdir())
                cases += 1
                try:
                    sid = m["cs"].Service().handle_create_config(dict(cfg))
                    created = True
                except Exception:
                    created = False
                after = sorted(p.name for p in m["cfm"]._PROGRAM_PATH.iterdir())
                if created or after != before:
                    _viol(viol, "a configuration the scheme rejects (%s) created a service" % what, config_problem=what)
        finally:
            await lp.stop()
    try:
        asyncio.run(run())
    finally:
        shutil.rmtree(root, ignore_errors=True)
    return {"cases": cases, "bound": "%d client operation histories (depth <= 11, fresh client object per operation, live loopback server) "
                                     "+ 5 rejected configurations" % (len(fixed) + nrand), "violations": viol}


# ---------------------------------------------------------------------------------------------------------
# C13: crash points = file-system mutations (mkdir, open-for-write, write, unlink) of one component
class Crash(BaseException):
    pass


class Interposer:
    """counts file-system mutations under `prefix`; raises Crash immediately before / after mutation number k"""

    def __init__(self, prefix, k=None, when="before"):
        self.prefix, self.k, self.when = str(prefix), k, when
        self.count = 0
        self.log = []
        self.armed = True

    def _mine(self, path):
        return str(path).startswith(self.prefix)

    def _hit(self, what, path, phase):
        if not self.armed or not self._mine(path):
            return
        if phase == "before":
            self.count += 1
            self.log.append((what, os.path.basename(str(path))))
        if self.k is not None and self.count == self.k and phase == self.when:
            self.armed = False
            raise Crash("%s %s mutation %d (%s %s)" % (self.when, what, self.k, what, os.path.basename(str(path))))

    def __enter__(self):
        import builtins
        self._open, self._mkdir, self._unlink = builtins.open, pathlib.Path.mkdir, pathlib.Path.unlink
        ip = self

        class WFile:
            def __init__(self, f, path):
                self._f, self._p = f, path

            def write(self, data):
                ip._hit("write", self._p, "before")
                r = self._f.write(data)
                self._f.flush()
                ip._hit("write", self._p, "after")
                return r

            def __getattr__(self, n):
                return getattr(self._f, n)

            def __enter__(self):
                return self

            def __exit__(self, *a):
                self._f.close()
                return False

        def open_(path, mode="r", *a, **k):
            if any(c in mode for c in "wax+") and ip._mine(path):
                ip._hit("open-for-write", path, "before")
                f = ip._open(path, mode, *a, **k)
                try:
                    ip._hit("open-for-write", path, "after")
                except Crash:
                    f.close()
                    raise
                return WFile(f, path)
            return ip._open(path, mode, *a, **k)

        def mkdir_(self_, *a, **k):
            ip._hit("mkdir", self_, "before")
            r = ip._mkdir(self_, *a, **k)
            ip._hit("mkdir", self_, "after")
            return r

        def unlink_(self_, *a, **k):
            existed = self_.exists()
            if existed:
                ip._hit("unlink", self_, "before")
            r = ip._unlink(self_, *a, **k)
            if existed:
                ip._hit("unlink", self_, "after")
            return r
        def replace_(src, dst, *a, **k):
            ip._hit("rename", dst, "before")
            r = ip._replace(src, dst, *a, **k)
            ip._hit("rename", dst, "after")
            return r
        self._replace = os.replace
        os.replace = replace_
        builtins.open, pathlib.Path.mkdir, pathlib.Path.unlink = open_, mkdir_, unlink_
        return self

    def __exit__(self, *a):
        import builtins
        builtins.open, pathlib.Path.mkdir, pathlib.Path.unlink = self._open, self._mkdir, self._unlink
        os.replace = self._replace
        return False


async def _finish_workflow(sid, fx):
    """complete the workflow from whatever state the components report, retrying the interrupted step; returns a problem or None"""
    m = modules()
    last = None
    for attempt in range(3):
        for op in ("genkey", "encrypt", "upload_config", "upload_db"):
            f = read_flags(sid)
            if f is None:
                return "the client's persisted state cannot be read after restart"
            want, _ = model_step(f, op)
            if want:
                acc, val = await client_op(sid, op, fx)
                if not acc:
                    last = "step %s was refused after restart (%s)" % (op, val)   # fine if the step had in fact completed
    f = read_flags(sid)
    if f is None:
        return "the client's persisted state cannot be read after restart"
    if not all(f):
        return "the workflow cannot be completed after restart: flags %s; %s" % (dict(zip(FLAGS, f)), last)
    for w in (b"alpha", b"beta", b"nope"):
        acc, val = await client_op(sid, "search", fx, w)
        if not acc:
            return "search could not be performed after restart (%s)" % val
        if val != fx["db1"].get(w, []):
            return "search after restart returned %r instead of DB[w]" % (val,)
    return None


async def _c13_scenario(root, fx, component, step, k, when):
    """run the workflow, crash `component` at mutation k of `step`, restart it, finish the workflow"""
    m = modules()
    lp = Loop(root)
    await lp.start()
    try:
        prefix = m["sfm"]._PROGRAM_PATH if component == "server" else m["cfm"]._PROGRAM_PATH
        order = ["create", "genkey", "encrypt", "upload_config", "upload_db"]
        sid = None
        nmut = None
        crashed = False
        for op in order:
            target = (op == step)
            ip = Interposer(prefix, k if target else None, when)
            _active_ip[0] = ip
            with ip:
                try:
                    if op == "create":
                        svc = m["cs"].Service()
                        try:
                            sid = svc.handle_create_config(dict(fx["cfg"]))
                        except Crash:
                            crashed = True
                            sid = svc.sid or None
                    else:
                        acc, val = await client_op(sid, op, fx)
                        if target and not ip.armed:
                            crashed = True
                except Crash:
                    crashed = True
            if target:
                nmut = ip.count
                if not ip.armed:
                    crashed = True
                break
        _active_ip[0] = None
        if k > (nmut or 0) and not crashed:
            return "done", nmut, None
        # restart the crashed component
        if component == "server":
            await lp.restart_server()
        await asyncio.sleep(0.05)
        if sid is None or not m["cfm"]._PROGRAM_PATH.joinpath(sid).exists() or read_flags(sid) is None and step == "create":
            # create-service interrupted before the service became visible: the user starts over with a new service
            svc = m["cs"].Service()
            try:
                sid = svc.handle_create_config(dict(fx["cfg"]))
            except Exception as ex:
                return "ran", nmut, "a new service cannot be created after the interrupted create-service (%s)" % type(ex).__name__
        problem = await _finish_workflow(sid, fx)
        return "ran", nmut, problem
    finally:
        await lp.stop()


def rt_c13(rnd, tier):
    viol, cases = [], 0
    fx = scheme_fixture(rnd)
    root = tempfile.mkdtemp(prefix="c13-")
    plan = [("server", "upload_config"), ("server", "upload_db"), ("client", "create"), ("client", "genkey"),
            ("client", "encrypt"), ("client", "upload_config"), ("client", "upload_db")]
    try:
        i = 0
        for component, step in plan:
            k = 1
            while k <= 80:
                if tier == "quick" and component == "server" and step == "upload_config" and 5 <= k <= 26:
                    k += 1          # interior chunks of json.dump's output (same on-disk situation: partial config.json)
                    continue
                done = False
                for when in ("before", "after"):
                    i += 1
                    try:
                        status, nmut, problem = asyncio.run(_c13_scenario(os.path.join(root, "s%d" % i), fx, component, step, k, when))
                    except Exception as ex:
                        status, nmut, problem = "ran", None, "scenario raised %s: %s" % (type(ex).__name__, str(ex)[:80])
                    if status == "done":
                        done = True
                        break
                    cases += 1
                    if problem:
                        _viol(viol, "%s killed %s file-system mutation %d of %s: %s" % (component, when, k, step, problem),
                              component=component, step=step, mutation=k, when=when)
                if done:
                    break
                k += 1
    finally:
        shutil.rmtree(root, ignore_errors=True)
    return {"cases": cases, "bound": "every file-system mutation (mkdir / open-for-write / write / unlink) of the 2 server and 5 client "
                                     "persisting steps, killed immediately before and after it, then restart + rest of the workflow",
            "violations": viol}


# ---------------------------------------------------------------------------------------------------------
# C09: end to end through client and server, with client re-creation between all steps and server restarts
def e2e_fixture(rnd, name):
    m = modules()
    mod = m["schemes"].load_sse_module(name)
    cfg = dict(mod.SSEConfig.get_default_config())
    idl = cfg.get("param_identifier_size", 8)
    mk = lambda: bytes([1 + rnd.getrandbits(7)] + [rnd.getrandbits(8) for _ in range(idl - 1)])
    db = {b"alpha": [mk() for _ in range(3)], b"beta": [mk()], b"gamma-longer": [mk() for _ in range(5)]}
    if name == "CGKO06.SSE2":
        importlib.import_module("schemes.CGKO06.SSE2.config").scan_database_and_update_config_dict(cfg, database=db)
    if name == "CGKO06.SSE1":
        cfg.update(param_s=256, param_dictionary_size=64)
    return dict(mod=mod, cfg=cfg, db1=db)


async def _c09_run(root, fx, restart_at, name, abrupt=False, back_to_back=False):
    m = modules()
    lp = Loop(root)
    await lp.start()
    _mode["abrupt"] = abrupt
    _mode["after_ack"] = lp.restart_server if restart_at == "ack" else None
    if back_to_back:
        # every step reconnects while the server's end-of-connection clean-up of the previous step is still pending
        # (grace period stretched to 0.3 s, no pause between the steps); the searches start after all clean-ups have run.
        # With restart "ack": the uploading connection stays open until the clean-up of the PREVIOUS connection has run,
        # then the server process dies -- what is on disk at that moment is all the restarted server knows
        _mode["gap"] = 0
        m["sm"].asyncio._scale = 0.3
        if restart_at == "ack":
            async def late_kill():
                await asyncio.sleep(0.45)
                await lp.restart_server()
            _mode["after_ack"] = late_kill
    try:
        svc = m["cs"].Service()
        sid = svc.handle_create_config(dict(fx["cfg"]))
        steps = ["genkey", "encrypt", "upload_config", "upload_db"]
        for i, op in enumerate(steps):
            if restart_at == i:
                await lp.restart_server()
            acc, val = await client_op(sid, op, fx)
            if not acc:
                return "workflow step %s failed: %s" % (op, val)
        if restart_at == len(steps):
            await lp.restart_server()
        if back_to_back:
            await asyncio.sleep(0.6)
            _mode["gap"] = 0.05
        for w in list(fx["db1"]) + [b"absent", b"alpha"]:
            acc, val = await client_op(sid, "search", fx, w)
            if not acc:
                return "search failed: %s" % val
            want = fx["db1"].get(w, [])
            if (set(val) != set(want)) if name == "DP17.Pi" else (val != want):
                return "search delivered %d identifiers instead of DB.get(w, empty) (%d)" % (len(val), len(want))
        return None
    finally:
        _mode["abrupt"] = False
        _mode["after_ack"] = None
        _mode["gap"] = 0.05
        m["sm"].asyncio._scale = 0.02
        await lp.stop()


def rt_c09(rnd, tier):
    viol, cases = [], 0
    root = tempfile.mkdtemp(prefix="c09-")
    names = ["CJJ14.PiBas", "CJJ14.PiPack", "CJJ14.PiPtr", "CJJ14.Pi2Lev", "CT14.Pi", "ANSS16.Scheme3", "DP17.Pi", "CGKO06.SSE1", "CGKO06.SSE2"]
    try:
        i = 0
        for name in names:
            fx = e2e_fixture(rnd, name)
            places = [(None, False), (4, False), ("ack", True)] if tier == "quick" and name != "CJJ14.PiBas" else \
                [(p, a) for p in (None, 0, 1, 2, 3, 4, "ack") for a in (False, True)]
            if tier != "quick" or name in ("CJJ14.PiBas", "CT14.Pi", "CGKO06.SSE2"):
                places = places + [("b2b", False), ("b2b", True), ("b2b-ack", True)]
            for restart_at, abrupt in places:
                i += 1
                cases += 1
                b2b = restart_at in ("b2b", "b2b-ack")
                if b2b:
                    restart_at = "ack" if restart_at == "b2b-ack" else None
                try:
                    problem = asyncio.run(_c09_run(os.path.join(root, "e%d" % i), fx, restart_at, name, abrupt, back_to_back=b2b))
                except Exception as ex:
                    problem = "scenario raised %s: %s" % (type(ex).__name__, str(ex)[:80])
                if problem:
                    _viol(viol, "%s, server restart %s, client %s: %s" % (
                        name, ("never, steps back to back (reconnect while the previous connection's clean-up is pending)" if b2b else "never")
                        if restart_at is None else ("after the previous connection's clean-up has run, uploading connection still open, steps back to back"
                                                    if b2b else "right after the index acknowledgement, connection still open"
                                                                  if restart_at == "ack" else "before step %d" % restart_at),
                        "discarded without close between steps" if abrupt else "closed between steps", problem),
                          scheme=name, restart_at=restart_at, abrupt=abrupt)
    finally:
        shutil.rmtree(root, ignore_errors=True)
    return {"cases": cases, "bound": "9 schemes x server-restart placements x (5 searches: stored, absent, repeated), client object "
                                     "re-created from disk before every step", "violations": viol}
