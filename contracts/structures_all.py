"""C03: wire formats of the seven schemes whose constructions are not (yet) under contract -- key / token / result /
encrypted-database serialize + deserialize with their exact refusal conditions, and the round trips
deserialize(serialize(x)) == x as verified client code (generated from one table; PiBas / PiPack have their own modules)."""
import ast, os
from pyvc.api import *
from pyvc.engine import ClassRef
from contracts.sse_common import *

ROOT = os.environ.get("PYVC_REPO") or "/repo"
DIB = TDict(TInt, TBytes)
DIL = TDict(TInt, BL)
LTBL = TList(TBL)
BSET = TSet(TBytes)
pickled_bset, unpickled_bset = pickle_spec("bset", BSET)
pickled_b3, unpickled_b3 = pickle_spec("b3", TTuple(TBytes, TBytes, TBytes))
ILT = TList(TInt)
pickled_ilist, unpickled_ilist = pickle_spec("ilist", ILT)

# scheme -> (directory, config class, config int fields,
#            key: (class, [(field, length expr over config)], how), token: (class, fields | "pickle3" | "picklelist"),
#            result: (class, "list" | "set"), edb: (class, header constant, [(field, type)]))
TABLE = {
    "PiPtr": ("schemes/CJJ14/PiPtr", "PiPtrConfig", ["param_lambda"],
              ("PiPtrKey", [("K", "config.param_lambda")]), ("PiPtrToken", [("K1", "config.param_lambda"), ("K2", "config.param_lambda")]),
              ("PiPtrResult", "list"), ("PiPtrEncryptedDatabase", "PI_PTR_HEADER", [("D", TBL), ("A", BL)])),
    "Pi2Lev": ("schemes/CJJ14/Pi2Lev", "Pi2LevConfig", ["param_lambda"],
               ("Pi2LevKey", [("K", "config.param_lambda")]), ("Pi2LevToken", [("K1", "config.param_lambda"), ("K2", "config.param_lambda")]),
               ("Pi2LevResult", "list"), ("Pi2LevEncryptedDatabase", "PI_2LEV_HEADER", [("D", TBL), ("A", BL)])),
    "CT14": ("schemes/CT14/Pi", "PiConfig", ["param_k", "param_k_prime", "param_l"],
             ("PiKey", [("K", "config.param_k")]), ("PiToken", [("K0", "config.param_k"), ("K1", "config.param_k_prime")]),
             ("PiResult", "list"), ("PiEncryptedDatabase", "PI_HEADER", [("HT_list", LTBL)])),
    "ANSS16": ("schemes/ANSS16/Scheme3", "PiConfig", ["param_lambda", "param_k", "param_k_prime", "param_l", "param_l_prime"],
               ("PiKey", [("K", "config.param_lambda")]),
               ("PiToken", [("li", "config.param_l"), ("Ki", "config.param_k"), ("li_prime", "config.param_l_prime"), ("Ki_prime", "config.param_k_prime")]),
               ("PiResult", "list"), ("PiEncryptedDatabase", "PI_HEADER", [("HT_S", TBL), ("HT_L_list", LTBL)])),
    "DP17": ("schemes/DP17/Pi", "PiConfig", ["param_lambda"],
             ("PiKey", [("k1", "config.param_lambda"), ("k2", "config.param_lambda"), ("k3", "config.param_lambda")]),
             ("PiToken", "pickle3:tag,vtag,etag"), ("PiResult", "set"), ("PiEncryptedDatabase", "PI_HEADER", [("HT", TBL), ("A_dict", DIL)])),
    "SSE1": ("schemes/CGKO06/SSE1", "SSE1Config", ["param_k", "param_l", "param_log2_s_bytes"],
             ("SSE1Key", [("K%d" % i_, "config.param_k") for i_ in (1, 2, 3, 4)], dict(unroll=4, requires=["config.param_k >= 1"])),
             ("SSE1Token", [("gamma", "config.param_l"), ("eta", "config.param_k + config.param_log2_s_bytes")]),
             ("SSE1Result", "list"), ("SSE1EncryptedDatabase", "SSE1_HEADER", [("A", BL), ("T", TBL)])),
    "SSE2": ("schemes/CGKO06/SSE2", "SSE2Config", ["param_k"],
             ("SSE2Key", [("K1", "config.param_k"), ("K2", "config.param_k")], dict(unroll=2, requires=["config.param_k >= 1"])),
             ("SSE2Token", "pickleints:t"), ("SSE2Result", "list"), ("SSE2EncryptedDatabase", "SSE2_HEADER", [("I", DIB)])),
}
_pk_cache = {}


def _pk(ty):
    k = repr(ty)
    if k not in _pk_cache:
        _pk_cache[k] = pickle_spec("s%d" % len(_pk_cache), ty)
    return _pk_cache[k]


def _const(rel, name):
    tree = ast.parse(open(os.path.join(ROOT, rel)).read())
    for n in tree.body:
        if isinstance(n, ast.Assign) and any(isinstance(t, ast.Name) and t.id == name for t in n.targets):
            return ast.literal_eval(n.value)
    raise KeyError(name)


inline("schemes/interface/objects.py:SSEObject.__init__")
for sname, (d, cfgname, cfgfields, key, tok, res, edb) in TABLE.items():
    ST = d + "/structures.py:"
    CFG = d + "/config.py:" + cfgname
    if CFG not in CLASSES:
        klass(CFG, fields={f: TInt for f in cfgfields}, invariant=["self.%s >= 0" % f for f in cfgfields])
    CFGT = TObj(CFG)
    rt = []
    # ---- fixed-layout byte structures (key, token)
    for what in (key, tok):
        if what is None or isinstance(what[1], str):
            continue
        cname, fields = what[:2]
        extra = what[2] if len(what) > 2 else {}
        K = ST + cname
        klass(K, fields={f: TBytes for f, _ in fields},
              construct="%s(%s)" % (cname, ", ".join("{%s}" % f for f, _ in fields)))
        inline(K + ".__init__")
        KT = TObj(K)
        total = " + ".join(l for _, l in fields)
        contract(K + ".serialize", params=dict(self=KT), returns=TBytes,
                 ensures=["result == " + " + ".join("self.%s" % f for f, _ in fields)], props=["C03"])
        offs, acc = [], "0"
        for f, l in fields:
            offs.append((f, acc, "%s + %s" % (acc, l)))
            acc = "%s + %s" % (acc, l)
        contract(K + ".deserialize", params=dict(cls=TAny, xbytes=TBytes, config=CFGT), returns=KT,
                 param_values={"cls": ClassRef(K)}, requires=list(extra.get("requires", [])),
                 # (the SSE-1 / SSE-2 key parsers cut the string in a comprehension over range(0, len, k): unrolled completely,
                 #  with the unwinding assertion that the stated number of pieces is all there is)
                 unroll=({0: extra["unroll"]} if "unroll" in extra else None),
                 raises={"ValueError": dict(when="len(xbytes) != %s" % total, iff=True)},
                 ensures=["result.%s == xbytes[%s:%s]" % (f, a, b) for f, a, b in offs],
                 lemmas=["psum_full", "psum_nonneg", "pieces_join"], depth=6, no_runtime=True, props=["C03"])
        n = "%s_%s_roundtrip" % (sname.lower(), cname.lower())
        contract("ghost:" + n, params=dict(x=KT, config=CFGT), returns=KT, ghost_scope=d + "/structures.py",
                 body="def %s(x, config):\n    return %s.deserialize(x.serialize(), config)\n" % (n, cname),
                 # well-formedness established by _Gen / _Trap: each component has the length the configuration says
                 requires=["len(x.%s) == %s" % (f, l) for f, l in fields] + list(extra.get("requires", [])),
                 ensures=["result.%s == x.%s" % (f, f) for f, _ in fields], props=["C03"])
    # ---- pickled token
    if tok is not None and isinstance(tok[1], str):
        cname, how = tok
        K = ST + cname
        kind, names = how.split(":")
        names = names.split(",")
        KT = TObj(K)
        if kind == "pickle3":
            klass(K, fields={f: TBytes for f in names}, construct="%s(%s)" % (cname, ", ".join("{%s}" % f for f in names)))
            inline(K + ".__init__")
            contract(K + ".serialize", params=dict(self=KT), returns=TBytes,
                     ensures=["result == pickled_b3((%s))" % ", ".join("self.%s" % f for f in names)], props=["C03"])
            contract(K + ".deserialize", params=dict(cls=TAny, xbytes=TBytes, config=TAny), returns=KT, param_values={"cls": ClassRef(K)},
                     locals={f: TBytes for f in names},
                     ensures=["(%s) == unpickled_b3(xbytes)" % ", ".join("result.%s" % f for f in names)], no_runtime=True, props=["C03"])
            ens = ["result.%s == x.%s" % (f, f) for f in names]
        else:
            LT, pkn, unpkn = (ILT, "pickled_ilist", "unpickled_ilist") if kind == "pickleints" else (BL, "pickled_list", "unpickled_list")
            klass(K, fields={names[0]: LT}, construct="%s({%s})" % (cname, names[0]))
            inline(K + ".__init__")
            contract(K + ".serialize", params=dict(self=KT), returns=TBytes,
                     ensures=["result == %s(self.%s)" % (pkn, names[0])], props=["C03"])
            contract(K + ".deserialize", params=dict(cls=TAny, xbytes=TBytes, config=TAny), returns=KT, param_values={"cls": ClassRef(K)},
                     locals={names[0]: LT}, ensures=["result.%s == %s(xbytes)" % (names[0], unpkn)], no_runtime=True, props=["C03"])
            ens = ["result.%s == x.%s" % (names[0], names[0])]
        n = "%s_%s_roundtrip" % (sname.lower(), cname.lower())
        contract("ghost:" + n, params=dict(x=KT), returns=KT, ghost_scope=d + "/structures.py",
                 body="def %s(x):\n    return %s.deserialize(x.serialize(), None)\n" % (n, cname), ensures=ens, props=["C03"])
    # ---- result
    cname, kind = res
    K = ST + cname
    RTY = BL if kind == "list" else BSET
    pkf, unpkf = ("pickled_list", "unpickled_list") if kind == "list" else ("pickled_bset", "unpickled_bset")
    klass(K, fields=dict(result=RTY), construct="%s({result})" % cname)
    inline(K + ".__init__")
    KT = TObj(K)
    contract(K + ".serialize", params=dict(self=KT), returns=TBytes, ensures=["result == %s(self.result)" % pkf], props=["C03"])
    contract(K + ".deserialize", params=dict(cls=TAny, xbytes=TBytes, config=TAny), returns=KT, param_values={"cls": ClassRef(K)},
             locals={"result": RTY}, ensures=["result.result == %s(xbytes)" % unpkf], no_runtime=True, props=["C03"])
    n = "%s_%s_roundtrip" % (sname.lower(), cname.lower())
    contract("ghost:" + n, params=dict(x=KT), returns=KT, ghost_scope=d + "/structures.py",
             body="def %s(x):\n    return %s.deserialize(x.serialize(), None)\n" % (n, cname),
             ensures=["result.result == x.result"], props=["C03"])
    # ---- encrypted database: header + pickle of the components
    cname, hname, comps = edb
    K = ST + cname
    CONSTS["HDR_" + sname] = _const(d + "/config.py", hname)
    klass(K, fields={f: t for f, t in comps}, construct="%s(%s)" % (cname, ", ".join("{%s}" % f for f, _ in comps)))
    inline(K + ".__init__")
    KT = TObj(K)
    PT = comps[0][1] if len(comps) == 1 else TTuple(*[t for _, t in comps])
    pkf, unpkf = _pk(PT)
    val = "dmap(self.%s)" % comps[0][0] if (len(comps) == 1 and isinstance(PT, TDict)) else (
        "self.%s" % comps[0][0] if len(comps) == 1 else "(%s)" % ", ".join(("dmap(self.%s)" if isinstance(t, TDict) else "self.%s") % f for f, t in comps))
    contract(K + ".serialize", params=dict(self=KT), returns=TBytes,
             ensures=["result == HDR_%s + %s(%s)" % (sname, pkf.name, val)], props=["C03"])
    rval = val.replace("self.", "result.")
    contract(K + ".deserialize", params=dict(cls=TAny, xbytes=TBytes, config=TAny), returns=KT, param_values={"cls": ClassRef(K)},
             locals=dict({f: t for f, t in comps}, HT_list=LTBL) if len(comps) > 1 else {comps[0][0]: PT, "HT_list": PT, "I": PT},
             raises={"ValueError": dict(when="xbytes[:len(HDR_%s)] != HDR_%s" % (sname, sname), iff=True)},
             ensures=["%s == %s(xbytes[len(HDR_%s):])" % (rval, unpkf.name, sname)], no_runtime=True, props=["C03"])
    n = "%s_%s_roundtrip" % (sname.lower(), cname.lower())
    contract("ghost:" + n, params=dict(x=KT), returns=KT, ghost_scope=d + "/structures.py",
             body="def %s(x):\n    return %s.deserialize(x.serialize(), None)\n" % (n, cname),
             ensures=[("dmap(result.%s) == dmap(x.%s)" if isinstance(t, TDict) else "result.%s == x.%s") % (f, f) for f, t in comps],
             props=["C03"])

# ---- label-table builders of the other schemes (C06: stored in strictly ascending label order whatever the input order; C05: size)
for key_, params_ in (("schemes/CJJ14/PiPtr/structures.py:PiPtrEncryptedDatabase.create_dictionary_from_list", dict(kv_pairs=PL)),
                      ("schemes/CJJ14/Pi2Lev/structures.py:Pi2LevEncryptedDatabase.create_dictionary_from_list", dict(kv_pairs=PL)),
                      ("schemes/CT14/Pi/structures.py:PiEncryptedDatabase.create_hash_table", dict(cls=TAny, kv_pairs=PL)),
                      ("schemes/ANSS16/Scheme3/structures.py:PiEncryptedDatabase.create_hash_table", dict(cls=TAny, kv_pairs=PL))):
    table_builder(key_, params=params_, props=("C06", "C05"))
    CONTRACTS[key_].no_runtime = True
    if "cls" in params_:
        CONTRACTS[key_].param_values = {"cls": ClassRef(key_.rsplit(".", 1)[0])}
