"""Contracts for data_persistence (C20: PickledDict; C19: SimpleMultiFilePersistentFixedLengthBytesArray / SPFLBArray)
over the ghost file system of pyvc/files.py (assumption D2)."""
from pyvc.api import *
from pyvc import files, externals
from pyvc.engine import SV, Ref, ClassRef
import z3

files.install()
Imp, And, Or, Not = z3.Implies, z3.And, z3.Or, z3.Not

# =====================================================================================================================
# C20  PickledDict
# =====================================================================================================================
PDM = "data_persistence/persistent_dict.py:"
PD = PDM + "PickledDict"
CD = PDM + "_ClosedDict"
BB = TDict(TBytes, TBytes)
F_PATH, F_DATA, F_FILE = "_PickledDict__file_path", "_PickledDict__data", "_PickledDict__file"

import pickle as _pickle
_pk, _unpk = externals.pickle_fns(BB)
pickled_bb = specfn("pickled_bb", [BB], TBytes, py=lambda d: _pickle.dumps(d))
unpickled_bb = specfn("unpickled_bb", [TBytes], BB, py=lambda b: _pickle.loads(b))
pickled_bb.decl, unpickled_bb.decl = _pk, _unpk
is_pickle = specfn("is_pickle", [TBytes], TBool, doc="the bytes are a complete pickle (P1)")
is_pickle.decl = files.valid_pickle
_d = z3.Const("pd_d", sort(BB))
axiom("P1_bb", [_d], And(_unpk(_pk(_d)) == _d, files.valid_pickle(_pk(_d))), patterns=[_pk(_d)], auto=True,
      note="P1: pickle.loads(pickle.dumps(d)) == d for a dict of byte strings; pickle.dumps produces a complete pickle")

klass(CD, fields={})
inline(CD + ".closed", PD + ".dict_local_path")
# open shape: __data is the dict; closed shape: __data is the _ClosedDict marker
klass(PD, fields={F_PATH: TStr, F_DATA: BB, F_FILE: TOpt(TFile)})
klass(PD, state="closed", fields={F_PATH: TStr, F_DATA: TObj(CD), F_FILE: TOpt(TFile)})
PDT, PDC = TObj(PD), TObj(PD + "@closed")
OFILE = sort(TOpt(TFile))
OBY = sort(TOpt(TBytes))


def _fld(E, env, name, who="self"):
    return E.cell(env[who])[2][name]


def _optfile(v):
    if v is None:
        return OFILE.none
    if isinstance(v, SV) and v.ty == TFile:
        return OFILE.some(v.t)
    return v.t


def _gsel(E, g, k):
    d = E.ghostv[g]
    return sort(TOpt(d.ty.val)).val(z3.Select(d.t, k))


def pd_open(who="self"):
    """the dictionary owns an open file object on its own path, and that file exists"""
    def f(E, env):
        fo = _optfile(_fld(E, env, F_FILE, who))
        h = OFILE.val(fo)
        path = _fld(E, env, F_PATH, who).t
        return SV(And(OFILE.is_some(fo), _gsel(E, "fh_state", h) == 1, _gsel(E, "fh_path", h) == path,
                      Not(OBY.is_none(z3.Select(E.ghostv["fs"].t, path)))), TBool)
    return f


def pd_file_closed_or_none(E, env):
    fo = _optfile(_fld(E, env, F_FILE))
    return SV(Or(OFILE.is_none(fo), _gsel(E, "fh_state", OFILE.val(fo)) == 2), TBool)


def pd_is_marker(E, env):
    """typestate: after close the data field holds the closed marker"""
    v = _fld(E, env, F_DATA)
    return SV(z3.BoolVal(isinstance(v, Ref) and E.cell(v)[0] == "obj" and E.cell(v)[1].key == CD), TBool)


def pd_saved(E, env):
    """the file holds exactly the pickle of the dictionary as it was at entry"""
    pre_env, pre_heap, pre_ghost = E.old_stack[-1]
    d0 = pre_heap[pre_env["self"].cid][2][F_DATA]
    d0 = E.to_sv(d0, BB) if not isinstance(d0, SV) else d0
    path = _fld(E, env, F_PATH).t
    return SV(z3.Select(E.ghostv["fs"].t, path) == OBY.some(_pk(d0.t)), TBool)


OPEN = [pd_open()]
FS_SAME = ["fs == old(fs)"]
FH_SAME = ["fh_state == old(fh_state)", "fh_path == old(fh_path)"]
NOFX = FS_SAME + FH_SAME
DATA, ODATA = "self.__data", "old(self.__data)"

# ---- construction ---------------------------------------------------------------------------------------------------
contract(PD + ".__init__#r", params=dict(self=PDT, file_path=TStr, mode=TStr), param_values={"mode": "r"}, modifies=["self"],
         ghost={"d0": BB},
         requires=["implies(file_path in fs, fs[file_path] == pickled_bb(d0))"],
         raises={"FileNotFoundError": dict(when="file_path not in old(fs)", iff=True)},
         raise_ensures={"FileNotFoundError": NOFX},
         ensures=OPEN + FS_SAME + ["self.__data == d0", "self.__file_path == file_path"],
         modifies_ghost=["fh_state", "fh_path", "fh_pos"], no_runtime=True, props=["C20"])
contract(PD + ".__init__#c", params=dict(self=PDT, file_path=TStr, mode=TStr), param_values={"mode": "c"}, modifies=["self"],
         raises={"FileExistsError": dict(when="file_path in old(fs)", iff=True)},
         raise_ensures={"FileExistsError": NOFX},
         ensures=OPEN + ["len(self.__data) == 0", "self.__file_path == file_path", "fs == dput(old(fs), file_path, b'')"],
         modifies_ghost=["fs", "fh_state", "fh_path", "fh_pos"], no_runtime=True, props=["C20"])
contract(PD + ".__init__#bad", params=dict(self=PDT, file_path=TStr, mode=TStr), param_values={"mode": "w"}, modifies=["self"],
         raises={"TypeError": dict(when="True", iff=True)}, raise_ensures={"TypeError": NOFX},
         no_runtime=True, props=["C20"])

# ---- the dict operations on an open dictionary: exactly dict's, no effect on any file ------------------------------------
contract(PD + ".__getitem__", params=dict(self=PDT, key=TBytes), returns=TBytes,
         raises={"KeyError": dict(when="key not in self.__data", iff=True)},
         ensures=["result == self.__data[key]"] + NOFX, no_runtime=True, props=["C20"])
contract(PD + ".__setitem__", params=dict(self=PDT, key=TBytes, value=TBytes), modifies=["self"],
         ensures=["self.__data == dput(%s, key, value)" % ODATA, "self.__file == old(self.__file)",
                  "self.__file_path == old(self.__file_path)"] + NOFX,
         no_runtime=True, props=["C20"])
contract(PD + ".__setitem__#notbytes", params=dict(self=PDT, key=TBytes, value=TInt), modifies=["self"],
         raises={"TypeError": dict(when="True", iff=True)},
         raise_ensures={"TypeError": ["self.__data == %s" % ODATA] + NOFX}, no_runtime=True, props=["C20"])
contract(PD + ".__delitem__", params=dict(self=PDT, key=TBytes), modifies=["self"],
         raises={"KeyError": dict(when="key not in old(self.__data)", iff=True)},
         raise_ensures={"KeyError": ["self.__data == %s" % ODATA] + NOFX},
         ensures=["self.__data == ddel(%s, key)" % ODATA, "self.__file == old(self.__file)",
                  "self.__file_path == old(self.__file_path)"] + NOFX,
         no_runtime=True, props=["C20"])
contract(PD + ".__contains__", params=dict(self=PDT, key=TBytes), returns=TBool,
         ensures=["result == (key in self.__data)"] + NOFX, no_runtime=True, props=["C20"])
contract(PD + ".__len__", params=dict(self=PDT), returns=TInt, ensures=["result == len(self.__data)"] + NOFX,
         no_runtime=True, props=["C20"])
contract(PD + ".get", params=dict(self=PDT, key=TBytes, default=TBytes), returns=TBytes,
         ensures=["result == (self.__data[key] if key in self.__data else default)"] + NOFX, no_runtime=True, props=["C20"])
contract(PD + ".clear", params=dict(self=PDT), modifies=["self"],
         ensures=["len(self.__data) == 0", "self.__file == old(self.__file)", "self.__file_path == old(self.__file_path)"] + NOFX,
         no_runtime=True, props=["C20"])

# ---- persistence -----------------------------------------------------------------------------------------------------
contract(PD + ".sync", params=dict(self=PDT), requires=OPEN,
         ensures=[pd_saved, "fs == dput(old(fs), self.__file_path, pickled_bb(self.__data))"] + FH_SAME,
         modifies_ghost=["fs", "fh_pos"], no_runtime=True, props=["C20"])
contract(PD + ".close", params=dict(self=PDT), modifies=["self"], requires=OPEN,
         becomes={"self": PD + "@closed"},
         ensures=[pd_file_closed_or_none, "self.__file_path == old(self.__file_path)",
                  "fs == dput(old(fs), self.__file_path, pickled_bb(%s))" % ODATA, "fh_path == old(fh_path)"],
         modifies_ghost=["fs", "fh_pos", "fh_state"], no_runtime=True, props=["C20"])
contract(PD + ".from_dict", params=dict(cls=TAny, dict_=BB, dict_path=TStr), returns=PDT, param_values={"cls": ClassRef(PD)},
         raises={"FileExistsError": dict(when="dict_path in old(fs)", iff=True)},
         raise_ensures={"FileExistsError": NOFX},
         ensures=[pd_open("result"), "result.__data == dict_", "result.__file_path == dict_path",
                  "fs == dput(old(fs), dict_path, pickled_bb(dict_))"],
         modifies_ghost=["fs", "fh_state", "fh_path", "fh_pos"], no_runtime=True, props=["C20"])

# ---- a closed dictionary refuses every operation; closing again is harmless -------------------------------------------
CLOSED_RAISES = dict(raises={"ValueError": dict(when="True", iff=True)}, raise_ensures={"ValueError": NOFX})
contract(PD + ".__getitem__#closed", params=dict(self=PDC, key=TBytes), no_runtime=True, props=["C20"], **CLOSED_RAISES)
contract(PD + ".__setitem__#closed", params=dict(self=PDC, key=TBytes, value=TBytes), no_runtime=True, props=["C20"], **CLOSED_RAISES)
contract(PD + ".__delitem__#closed", params=dict(self=PDC, key=TBytes), no_runtime=True, props=["C20"], **CLOSED_RAISES)
contract(PD + ".__contains__#closed", params=dict(self=PDC, key=TBytes), no_runtime=True, props=["C20"], **CLOSED_RAISES)
contract(PD + ".__len__#closed", params=dict(self=PDC), no_runtime=True, props=["C20"], **CLOSED_RAISES)
contract(PD + ".__iter__#closed", params=dict(self=PDC), no_runtime=True, props=["C20"], **CLOSED_RAISES)
contract(PD + ".get#closed", params=dict(self=PDC, key=TBytes, default=TBytes), no_runtime=True, props=["C20"], **CLOSED_RAISES)
contract(PD + ".clear#closed", params=dict(self=PDC), no_runtime=True, props=["C20"], **CLOSED_RAISES)
contract(PD + ".close#closed", params=dict(self=PDC), modifies=["self"], requires=[pd_file_closed_or_none],
         becomes={"self": PD + "@closed"},
         ensures=[pd_file_closed_or_none, "self.__file_path == old(self.__file_path)"] + NOFX, no_runtime=True, props=["C20"])

contract(PD + ".__iter__", params=dict(self=PDT), returns=TList(TBytes), ensures=["result == dkeys(self.__data)"] + NOFX,
         no_runtime=True, props=["C20"])
contract(PD + ".open", params=dict(cls=TAny, local_path=TStr, create_only=TBool), returns=PDT, param_values={"cls": ClassRef(PD)},
         ghost={"d0": BB},
         requires=["implies(local_path in fs, fs[local_path] == pickled_bb(d0))"],
         raises={"FileNotFoundError": dict(when="local_path not in old(fs)", iff=True)},
         raise_ensures={"FileNotFoundError": NOFX},
         ensures=[pd_open("result")] + FS_SAME + ["result.__data == d0", "result.__file_path == local_path"],
         modifies_ghost=["fh_state", "fh_path", "fh_pos"], no_runtime=True, props=["C20"])
contract(PD + ".create", params=dict(cls=TAny, local_path=TStr), returns=PDT, param_values={"cls": ClassRef(PD)},
         raises={"FileExistsError": dict(when="local_path in old(fs)", iff=True)},
         raise_ensures={"FileExistsError": NOFX},
         ensures=[pd_open("result"), "len(result.__data) == 0", "result.__file_path == local_path",
                  "fs == dput(old(fs), local_path, b'')"],
         modifies_ghost=["fs", "fh_state", "fh_path", "fh_pos"], no_runtime=True, props=["C20"])
contract(PD + ".release", params=dict(self=PDT), modifies=["self"], requires=OPEN, becomes={"self": PD + "@closed"},
         ensures=["fs == ddel(old(fs), self.__file_path)", "fh_path == old(fh_path)"],
         modifies_ghost=["fs", "fh_pos", "fh_state"], no_runtime=True, props=["C20"])

# ---- client lemmas: the history clauses of C20 over the contracts above -------------------------------------------------
GS = "data_persistence/persistent_dict.py"
contract("ghost:pd_close_reopen", params=dict(p=PDT, d0=BB), returns=PDT, ghost_scope=GS,
         body="""def pd_close_reopen(p, d0):
    path = p.dict_local_path
    p.close()
    return PickledDict.open(path)
""",
         requires=[pd_open("p"), "p.__data == d0"],
         ensures=["result.__data == d0", pd_open("result")], modifies=["p"],
         modifies_ghost=["fs", "fh_state", "fh_path", "fh_pos"], props=["C20"])
contract("ghost:pd_sync_then_open", params=dict(p=PDT, d0=BB), returns=PDT, ghost_scope=GS,
         body="""def pd_sync_then_open(p, d0):
    p.sync()
    return PickledDict.open(p.dict_local_path)
""",
         requires=[pd_open("p"), "p.__data == d0"], ensures=["result.__data == d0"],
         modifies_ghost=["fs", "fh_state", "fh_path", "fh_pos"], props=["C20"])
contract("ghost:pd_from_dict_independent", params=dict(d=BB, path=TStr, k=TBytes, v=TBytes), returns=PDT, ghost_scope=GS,
         body="""def pd_from_dict_independent(d, path, k, v):
    p = PickledDict.from_dict(d, path)
    d[k] = v
    return p
""",
         requires=["path not in fs"], modifies=["d"],
         ensures=["result.__data == old(d)", "fs[path] == pickled_bb(old(d))"],
         modifies_ghost=["fs", "fh_state", "fh_path", "fh_pos"], props=["C20"])
for op_, call_ in (("get", "p[k]"), ("set", "p[k] = v"), ("del", "del p[k]"), ("in", "k in p"), ("len", "len(p)"),
                   ("iter", "iter(p)"), ("getd", "p.get(k, v)"), ("clear", "p.clear()")):
    contract("ghost:pd_closed_refuses_" + op_, params=dict(p=PDT, k=TBytes, v=TBytes), ghost_scope=GS,
             body="def pd_closed_refuses_%s(p, k, v):\n    p.close()\n    %s\n" % (op_, call_),
             requires=[pd_open("p")], modifies=["p"],
             raises={"ValueError": dict(when="True", iff=True)},
             modifies_ghost=["fs", "fh_state", "fh_pos"], props=["C20"])
contract("ghost:pd_close_twice", params=dict(p=PDT), ghost_scope=GS,
         body="def pd_close_twice(p):\n    p.close()\n    p.close()\n",
         requires=[pd_open("p")], modifies=["p"],
         ensures=["fs == dput(old(fs), p.__file_path, pickled_bb(old(p.__data)))"],
         modifies_ghost=["fs", "fh_state", "fh_pos"], props=["C20"])
