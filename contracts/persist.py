"""Contracts for data_persistence (C20: PickledDict; C19: SimpleMultiFilePersistentFixedLengthBytesArray / SPFLBArray)
over the ghost file system of pyvc/files.py (assumption D2)."""
from pyvc.api import *
from pyvc import files, externals
from pyvc.engine import SV, Ref, ClassRef
from pyvc.ty import nth_pat
import z3

files.install()
Imp, And, Or, Not = z3.Implies, z3.And, z3.Or, z3.Not

# =====================================================================================================================
# C20  PickledDict
# =====================================================================================================================
PDM = "data_persistence/persistent_dict.py:"
PD = PDM + "PickledDict"
CD = PDM + "_ClosedDict"
BB = TDict(TBytes, TBytes)
F_PATH, F_DATA, F_FILE = "_PickledDict__file_path", "_PickledDict__data", "_PickledDict__file"

import pickle as _pickle
_pk, _unpk = externals.pickle_fns(BB)
pickled_bb = specfn("pickled_bb", [BB], TBytes, py=lambda d: _pickle.dumps(d))
unpickled_bb = specfn("unpickled_bb", [TBytes], BB, py=lambda b: _pickle.loads(b))
pickled_bb.decl, unpickled_bb.decl = _pk, _unpk
is_pickle = specfn("is_pickle", [TBytes], TBool, doc="the bytes are a complete pickle (P1)")
is_pickle.decl = files.valid_pickle
_d = z3.Const("pd_d", sort(BB))
axiom("P1_bb", [_d], And(_unpk(_pk(_d)) == _d, files.valid_pickle(_pk(_d))), patterns=[_pk(_d)], auto=True,
      note="P1: pickle.loads(pickle.dumps(d)) == d for a dict of byte strings; pickle.dumps produces a complete pickle")

klass(CD, fields={})
inline(CD + ".closed", PD + ".dict_local_path")
# open shape: __data is the dict; closed shape: __data is the _ClosedDict marker
klass(PD, fields={F_PATH: TStr, F_DATA: BB, F_FILE: TOpt(TFile)})
klass(PD, state="closed", fields={F_PATH: TStr, F_DATA: TObj(CD), F_FILE: TOpt(TFile)})
PDT, PDC = TObj(PD), TObj(PD + "@closed")
OFILE = sort(TOpt(TFile))
OBY = sort(TOpt(TBytes))


def _fld(E, env, name, who="self"):
    return E.cell(env[who])[2][name]


def _optfile(v):
    if v is None:
        return OFILE.none
    if isinstance(v, SV) and v.ty == TFile:
        return OFILE.some(v.t)
    return v.t


def _gsel(E, g, k):
    d = E.ghostv[g]
    return sort(TOpt(d.ty.val)).val(z3.Select(d.t, k))


def pd_open(who="self"):
    """the dictionary owns an open file object on its own path, and that file exists"""
    def f(E, env):
        fo = _optfile(_fld(E, env, F_FILE, who))
        h = OFILE.val(fo)
        path = _fld(E, env, F_PATH, who).t
        return SV(And(OFILE.is_some(fo), _gsel(E, "fh_state", h) == 1, _gsel(E, "fh_path", h) == path,
                      Not(OBY.is_none(z3.Select(E.ghostv["fs"].t, path)))), TBool)
    return f


def pd_file_closed_or_none(E, env):
    fo = _optfile(_fld(E, env, F_FILE))
    return SV(Or(OFILE.is_none(fo), _gsel(E, "fh_state", OFILE.val(fo)) == 2), TBool)


def pd_is_marker(E, env):
    """typestate: after close the data field holds the closed marker"""
    v = _fld(E, env, F_DATA)
    return SV(z3.BoolVal(isinstance(v, Ref) and E.cell(v)[0] == "obj" and E.cell(v)[1].key == CD), TBool)


def pd_saved(E, env):
    """the file holds exactly the pickle of the dictionary as it was at entry"""
    pre_env, pre_heap, pre_ghost = E.old_stack[-1]
    d0 = pre_heap[pre_env["self"].cid][2][F_DATA]
    d0 = E.to_sv(d0, BB) if not isinstance(d0, SV) else d0
    path = _fld(E, env, F_PATH).t
    return SV(z3.Select(E.ghostv["fs"].t, path) == OBY.some(_pk(d0.t)), TBool)


OPEN = [pd_open()]
FS_SAME = ["fs == old(fs)"]
FH_SAME = ["fh_state == old(fh_state)", "fh_path == old(fh_path)"]
NOFX = FS_SAME + FH_SAME
DATA, ODATA = "self.__data", "old(self.__data)"

# ---- construction ---------------------------------------------------------------------------------------------------
contract(PD + ".__init__#r", params=dict(self=PDT, file_path=TStr, mode=TStr), param_values={"mode": "r"}, modifies=["self"],
         ghost={"d0": BB},
         requires=["implies(file_path in fs, fs[file_path] == pickled_bb(d0))"],
         raises={"FileNotFoundError": dict(when="file_path not in old(fs)", iff=True)},
         raise_ensures={"FileNotFoundError": NOFX},
         ensures=OPEN + FS_SAME + ["self.__data == d0", "self.__file_path == file_path"],
         modifies_ghost=["fh_state", "fh_path", "fh_pos"], no_runtime=True, props=["C20"])
contract(PD + ".__init__#c", params=dict(self=PDT, file_path=TStr, mode=TStr), param_values={"mode": "c"}, modifies=["self"],
         raises={"FileExistsError": dict(when="file_path in old(fs)", iff=True)},
         raise_ensures={"FileExistsError": NOFX},
         ensures=OPEN + ["len(self.__data) == 0", "self.__file_path == file_path", "fs == dput(old(fs), file_path, b'')"],
         modifies_ghost=["fs", "fh_state", "fh_path", "fh_pos"], no_runtime=True, props=["C20"])
contract(PD + ".__init__#bad", params=dict(self=PDT, file_path=TStr, mode=TStr), param_values={"mode": "w"}, modifies=["self"],
         raises={"TypeError": dict(when="True", iff=True)}, raise_ensures={"TypeError": NOFX},
         no_runtime=True, props=["C20"])

# ---- the dict operations on an open dictionary: exactly dict's, no effect on any file ------------------------------------
contract(PD + ".__getitem__", params=dict(self=PDT, key=TBytes), returns=TBytes,
         raises={"KeyError": dict(when="key not in self.__data", iff=True)},
         ensures=["result == self.__data[key]"] + NOFX, no_runtime=True, props=["C20"])
contract(PD + ".__setitem__", params=dict(self=PDT, key=TBytes, value=TBytes), modifies=["self"],
         ensures=["self.__data == dput(%s, key, value)" % ODATA, "self.__file == old(self.__file)",
                  "self.__file_path == old(self.__file_path)"] + NOFX,
         no_runtime=True, props=["C20"])
contract(PD + ".__setitem__#notbytes", params=dict(self=PDT, key=TBytes, value=TInt), modifies=["self"],
         raises={"TypeError": dict(when="True", iff=True)},
         raise_ensures={"TypeError": ["self.__data == %s" % ODATA] + NOFX}, no_runtime=True, props=["C20"])
contract(PD + ".__delitem__", params=dict(self=PDT, key=TBytes), modifies=["self"],
         raises={"KeyError": dict(when="key not in old(self.__data)", iff=True)},
         raise_ensures={"KeyError": ["self.__data == %s" % ODATA] + NOFX},
         ensures=["self.__data == ddel(%s, key)" % ODATA, "self.__file == old(self.__file)",
                  "self.__file_path == old(self.__file_path)"] + NOFX,
         no_runtime=True, props=["C20"])
contract(PD + ".__contains__", params=dict(self=PDT, key=TBytes), returns=TBool,
         ensures=["result == (key in self.__data)"] + NOFX, no_runtime=True, props=["C20"])
contract(PD + ".__len__", params=dict(self=PDT), returns=TInt, ensures=["result == len(self.__data)"] + NOFX,
         no_runtime=True, props=["C20"])
contract(PD + ".get", params=dict(self=PDT, key=TBytes, default=TBytes), returns=TBytes,
         ensures=["result == (self.__data[key] if key in self.__data else default)"] + NOFX, no_runtime=True, props=["C20"])
contract(PD + ".clear", params=dict(self=PDT), modifies=["self"],
         ensures=["len(self.__data) == 0", "self.__file == old(self.__file)", "self.__file_path == old(self.__file_path)"] + NOFX,
         no_runtime=True, props=["C20"])

# ---- persistence -----------------------------------------------------------------------------------------------------
contract(PD + ".sync", params=dict(self=PDT), requires=OPEN,
         ensures=[pd_saved, "fs == dput(old(fs), self.__file_path, pickled_bb(self.__data))"] + FH_SAME,
         modifies_ghost=["fs", "fh_pos"], no_runtime=True, props=["C20"])
contract(PD + ".close", params=dict(self=PDT), modifies=["self"], requires=OPEN,
         becomes={"self": PD + "@closed"},
         ensures=[pd_file_closed_or_none, "self.__file_path == old(self.__file_path)",
                  "fs == dput(old(fs), self.__file_path, pickled_bb(%s))" % ODATA, "fh_path == old(fh_path)"],
         modifies_ghost=["fs", "fh_pos", "fh_state"], no_runtime=True, props=["C20"])
contract(PD + ".from_dict", params=dict(cls=TAny, dict_=BB, dict_path=TStr), returns=PDT, param_values={"cls": ClassRef(PD)},
         raises={"FileExistsError": dict(when="dict_path in old(fs)", iff=True)},
         raise_ensures={"FileExistsError": NOFX},
         ensures=[pd_open("result"), "result.__data == dict_", "result.__file_path == dict_path",
                  "fs == dput(old(fs), dict_path, pickled_bb(dict_))"],
         modifies_ghost=["fs", "fh_state", "fh_path", "fh_pos"], no_runtime=True, props=["C20"])

# ---- a closed dictionary refuses every operation; closing again is harmless -------------------------------------------
CLOSED_RAISES = dict(raises={"ValueError": dict(when="True", iff=True)}, raise_ensures={"ValueError": NOFX})
contract(PD + ".__getitem__#closed", params=dict(self=PDC, key=TBytes), no_runtime=True, props=["C20"], **CLOSED_RAISES)
contract(PD + ".__setitem__#closed", params=dict(self=PDC, key=TBytes, value=TBytes), no_runtime=True, props=["C20"], **CLOSED_RAISES)
contract(PD + ".__delitem__#closed", params=dict(self=PDC, key=TBytes), no_runtime=True, props=["C20"], **CLOSED_RAISES)
contract(PD + ".__contains__#closed", params=dict(self=PDC, key=TBytes), no_runtime=True, props=["C20"], **CLOSED_RAISES)
contract(PD + ".__len__#closed", params=dict(self=PDC), no_runtime=True, props=["C20"], **CLOSED_RAISES)
contract(PD + ".__iter__#closed", params=dict(self=PDC), no_runtime=True, props=["C20"], **CLOSED_RAISES)
contract(PD + ".get#closed", params=dict(self=PDC, key=TBytes, default=TBytes), no_runtime=True, props=["C20"], **CLOSED_RAISES)
contract(PD + ".clear#closed", params=dict(self=PDC), no_runtime=True, props=["C20"], **CLOSED_RAISES)
contract(PD + ".close#closed", params=dict(self=PDC), modifies=["self"], requires=[pd_file_closed_or_none],
         becomes={"self": PD + "@closed"},
         ensures=[pd_file_closed_or_none, "self.__file_path == old(self.__file_path)"] + NOFX, no_runtime=True, props=["C20"])

contract(PD + ".__iter__", params=dict(self=PDT), returns=TList(TBytes), ensures=["result == dkeys(self.__data)"] + NOFX,
         no_runtime=True, props=["C20"])
contract(PD + ".open", params=dict(cls=TAny, local_path=TStr, create_only=TBool), returns=PDT, param_values={"cls": ClassRef(PD)},
         ghost={"d0": BB},
         requires=["implies(local_path in fs, fs[local_path] == pickled_bb(d0))"],
         raises={"FileNotFoundError": dict(when="local_path not in old(fs)", iff=True)},
         raise_ensures={"FileNotFoundError": NOFX},
         ensures=[pd_open("result")] + FS_SAME + ["result.__data == d0", "result.__file_path == local_path"],
         modifies_ghost=["fh_state", "fh_path", "fh_pos"], no_runtime=True, props=["C20"])
contract(PD + ".create", params=dict(cls=TAny, local_path=TStr), returns=PDT, param_values={"cls": ClassRef(PD)},
         raises={"FileExistsError": dict(when="local_path in old(fs)", iff=True)},
         raise_ensures={"FileExistsError": NOFX},
         ensures=[pd_open("result"), "len(result.__data) == 0", "result.__file_path == local_path",
                  "fs == dput(old(fs), local_path, b'')"],
         modifies_ghost=["fs", "fh_state", "fh_path", "fh_pos"], no_runtime=True, props=["C20"])
contract(PD + ".release", params=dict(self=PDT), modifies=["self"], requires=OPEN, becomes={"self": PD + "@closed"},
         ensures=["fs == ddel(old(fs), self.__file_path)", "fh_path == old(fh_path)"],
         modifies_ghost=["fs", "fh_pos", "fh_state"], no_runtime=True, props=["C20"])

# ---- client lemmas: the history clauses of C20 over the contracts above -------------------------------------------------
GS = "data_persistence/persistent_dict.py"
contract("ghost:pd_close_reopen", params=dict(p=PDT, d0=BB), returns=PDT, ghost_scope=GS,
         body="""def pd_close_reopen(p, d0):
    path = p.dict_local_path
    p.close()
    return PickledDict.open(path)
""",
         requires=[pd_open("p"), "p.__data == d0"],
         ensures=["result.__data == d0", pd_open("result")], modifies=["p"],
         modifies_ghost=["fs", "fh_state", "fh_path", "fh_pos"], props=["C20"])
contract("ghost:pd_sync_then_open", params=dict(p=PDT, d0=BB), returns=PDT, ghost_scope=GS,
         body="""def pd_sync_then_open(p, d0):
    p.sync()
    return PickledDict.open(p.dict_local_path)
""",
         requires=[pd_open("p"), "p.__data == d0"], ensures=["result.__data == d0"],
         modifies_ghost=["fs", "fh_state", "fh_path", "fh_pos"], props=["C20"])
contract("ghost:pd_from_dict_independent", params=dict(d=BB, path=TStr, k=TBytes, v=TBytes), returns=PDT, ghost_scope=GS,
         body="""def pd_from_dict_independent(d, path, k, v):
    p = PickledDict.from_dict(d, path)
    d[k] = v
    return p
""",
         requires=["path not in fs"], modifies=["d"],
         ensures=["result.__data == old(d)", "fs[path] == pickled_bb(old(d))"],
         modifies_ghost=["fs", "fh_state", "fh_path", "fh_pos"], props=["C20"])
for op_, call_ in (("get", "p[k]"), ("set", "p[k] = v"), ("del", "del p[k]"), ("in", "k in p"), ("len", "len(p)"),
                   ("iter", "iter(p)"), ("getd", "p.get(k, v)"), ("clear", "p.clear()")):
    contract("ghost:pd_closed_refuses_" + op_, params=dict(p=PDT, k=TBytes, v=TBytes), ghost_scope=GS,
             body="def pd_closed_refuses_%s(p, k, v):\n    p.close()\n    %s\n" % (op_, call_),
             requires=[pd_open("p")], modifies=["p"],
             raises={"ValueError": dict(when="True", iff=True)},
             modifies_ghost=["fs", "fh_state", "fh_pos"], props=["C20"])
contract("ghost:pd_close_twice", params=dict(p=PDT), ghost_scope=GS,
         body="def pd_close_twice(p):\n    p.close()\n    p.close()\n",
         requires=[pd_open("p")], modifies=["p"],
         ensures=["fs == dput(old(fs), p.__file_path, pickled_bb(old(p.__data)))"],
         modifies_ghost=["fs", "fh_state", "fh_pos"], props=["C20"])


# =====================================================================================================================
# C19  persistent fixed-length byte array
# =====================================================================================================================
PAM = "data_persistence/persistent_array.py:"
SMF = PAM + "SimpleMultiFilePersistentFixedLengthBytesArray"
SMFT = TObj(SMF)
_PX = "_SimpleMultiFilePersistentFixedLengthBytesArray__"
A_PATH, A_SZ, A_LEN, A_M, A_FN, A_OF = (_PX + n for n in ("local_path", "item_size", "array_len", "item_num_in_one_file",
                                                          "file_num", "opened_files"))
OFL = TList(TOpt(TFile))
klass(SMF, fields={A_PATH: TStr, A_SZ: TInt, A_LEN: TInt, A_M: TInt, A_FN: TInt, A_OF: OFL},
      invariant=["self.__item_size >= 1", "self.__array_len >= 1", "self.__item_num_in_one_file >= 1",
                 "self.__file_num == (self.__array_len + self.__item_num_in_one_file - 1) // self.__item_num_in_one_file",
                 "len(self.__opened_files) == self.__file_num"])

FSs = sort(files.FS)
_fs = z3.Const("pa_fs", FSs)
_base, _pth = z3.Strings("pa_base pa_path")
_i, _j, _k, _k2, _m, _sz = z3.Ints("pa_i pa_j pa_k pa_k2 pa_m pa_sz")
_cc = z3.Const("pa_c", BYTES)
_itos = lambda k: z3.If(k < 0, z3.Concat(z3.StringVal("-"), z3.IntToStr(-k)), z3.IntToStr(k))
cpath = specfn("cpath", [TStr, TInt], TStr, py=lambda base, k: "%s_%d" % (base, k), opaque=True, macro=True,
               doc="name of chunk file k of the array stored under base")
cpath.define = lambda base, k: z3.Concat(base, z3.StringVal("_"), _itos(k))
fsd = specfn("fsd", [files.FS, TStr], TBytes, macro=True, doc="contents of a file; a missing file reads as empty (it is created empty on first use)")
fsd.define = lambda fs, p: z3.If(OBY.is_none(z3.Select(fs, p)), z3.Empty(BYTES), OBY.val(z3.Select(fs, p)))
aitem = specfn("aitem", [files.FS, TStr, TInt, TInt, TInt], TBytes, macro=True,
               doc="abstract view: item i of the array (m items of sz bytes per chunk file), unwritten regions read as zeros")
aitem.define = lambda fs, base, m, sz, i: files.fitem(fsd(fs, cpath(base, i / m)), (i % m) * sz, sz)
Len = z3.Length

lemma("cpath_inj", [_base, _k, _k2], Imp(And(_k >= 0, _k2 >= 0, _k != _k2), cpath(_base, _k) != cpath(_base, _k2)),
      patterns=[z3.MultiPattern(cpath(_base, _k), cpath(_base, _k2))], inline_defs=["cpath"], no_auto=True, unfold_only=[])
lemma("cpath_not_meta", [_base, _k], cpath(_base, _k) != z3.Concat(_base, z3.StringVal("_meta")),
      patterns=[cpath(_base, _k)], inline_defs=["cpath"], no_auto=True, unfold_only=[])
lemma("aitem_len", [_fs, _base, _m, _sz, _i], Imp(And(_sz >= 0, _m >= 1), Len(aitem(_fs, _base, _m, _sz, _i)) == _sz),
      patterns=[aitem(_fs, _base, _m, _sz, _i)], uses=["fitem_len", "mul_mono"], no_auto=True,
      unfold_only=["aitem"], use_inst=[("mul_mono", [z3.IntVal(0), _i % _m, _sz])])
# creating a missing chunk file (empty) changes no item
lemma("aitem_create", [_fs, _pth, _base, _m, _sz, _j],
      Imp(OBY.is_none(z3.Select(_fs, _pth)),
          aitem(z3.Store(_fs, _pth, OBY.some(z3.Empty(BYTES))), _base, _m, _sz, _j) == aitem(_fs, _base, _m, _sz, _j)),
      patterns=[aitem(z3.Store(_fs, _pth, OBY.some(z3.Empty(BYTES))), _base, _m, _sz, _j)],
      no_auto=True, unfold_only=["aitem", "fsd"], depth=2)
# writing one padded item changes exactly that item of the view
awrite = specfn("awrite", [files.FS, TStr, TInt, TInt, TInt, TBytes], files.FS,
                doc="the file system after writing the bytes c over item i of the array (chunk file i div m, offset (i mod m)*sz)")
awrite.define = lambda fs, base, m, sz, i, c: z3.Store(
    fs, cpath(base, i / m), OBY.some(files.fwrite(fsd(fs, cpath(base, i / m)), (i % m) * sz, c)))
_wfs = awrite(_fs, _base, _m, _sz, _i, _cc)
lemma("aitem_write", [_fs, _base, _m, _sz, _i, _j, _cc],
      Imp(And(_m >= 1, _sz >= 1, _i >= 0, _j >= 0, Len(_cc) == _sz),
          aitem(_wfs, _base, _m, _sz, _j) == z3.If(_j == _i, _cc, aitem(_fs, _base, _m, _sz, _j))),
      patterns=[aitem(_wfs, _base, _m, _sz, _j)],
      uses=["fwrite_same", "fwrite_other", "cpath_inj", "mul_mono", "div_mod_unique"], ground_only=["mul_mono", "div_mod_unique"],
      no_auto=True, unfold_only=["aitem", "fsd", "awrite"], depth=2,
      cases=[_j == _i,
             And(_j != _i, _j / _m != _i / _m),
             (And(_j != _i, _j / _m == _i / _m, _j % _m < _i % _m), [("mul_mono", [_j % _m + 1, _i % _m, _sz])]),
             (And(_j != _i, _j / _m == _i / _m, _j % _m > _i % _m), [("mul_mono", [_i % _m + 1, _j % _m, _sz])]),
             And(_j != _i, _j / _m == _i / _m, _j % _m == _i % _m)])


def _obj(E, env, who):
    """who: a name of the environment, optionally followed by '>'-separated (mangled) field names"""
    parts = who.split(">")
    o = env[parts[0]]
    for f in parts[1:]:
        o = E.cell(o)[2][f]
    return o


def _afld(E, env, name, who="self"):
    v = E.cell(_obj(E, env, who))[2][name]
    return E.list_sv(v).t if name == A_OF else (v.t if isinstance(v, SV) else E.to_sv(v).t)


def _named(E, t):
    """a fresh name for a compound term (z3 rejects some compound sequence terms inside patterns); definitional, hence sound"""
    if z3.is_const(t):
        return t
    c = E.fresh("nm", TInt).t
    n = z3.Const(str(c).replace("nm", "named"), t.sort())
    E.assume(n == t)
    return n


def cache_ok(who="self", ghost=None):
    """every cached file object is open and is the chunk file of its position, which exists"""
    def f(E, env):
        S = _named(E, _afld(E, env, A_OF, who))
        base = _afld(E, env, A_PATH, who)
        k = z3.Int("ck")
        h = OFILE.val(S[k])
        body = Imp(And(0 <= k, k < Len(S), OFILE.is_some(S[k])),
                   And(_gsel(E, "fh_state", h) == 1, _gsel(E, "fh_path", h) == cpath(base, k),
                       Not(OBY.is_none(z3.Select(E.ghostv["fs"].t, cpath(base, k))))))
        return SV(z3.ForAll([k], body, patterns=[nth_pat(S, k)]), TBool)
    return f


def view_same(who="self"):
    """no item of the abstract view differs from the view at entry"""
    def f(E, env):
        pre_env, pre_heap, pre_ghost = E.old_stack[-1]
        base, m, sz = (_afld(E, env, n, who) for n in (A_PATH, A_M, A_SZ))
        j = z3.Int("vj")
        new, old_ = _named(E, E.ghostv["fs"].t), pre_ghost["fs"].t
        return SV(z3.ForAll([j], aitem(new, base, m, sz, j) == aitem(old_, base, m, sz, j),
                            patterns=[aitem(new, base, m, sz, j)]), TBool)
    return f


cidx = specfn("cidx", [TStr, TStr], TInt, doc="the chunk number k with path == cpath(base, k), for chunk paths")
axiom("cidx_def", [_base, _k], Imp(_k >= 0, cidx(_base, cpath(_base, _k)) == _k), patterns=[cpath(_base, _k)],
      note="conservative definition: cidx is the inverse of cpath on k >= 0, which exists because cpath is injective there (lemma cpath_inj)")


def fh_grow(E, env):
    """frame of every array operation: file objects that existed at entry keep their state and path (new ones may have
    been opened), and no file other than the array's own chunk files 0 .. file_num-1 is created or changed
    (in particular the meta file is untouched)"""
    pre_env, pre_heap, pre_ghost = E.old_stack[-1]
    arr = env.get("self", env.get("result"))
    if S_U in E.cell(arr)[2]:
        arr = E.cell(arr)[2][S_U]
    af = E.cell(arr)[2]
    base, fn = E.to_sv(af[A_PATH]).t, z3_int(af[A_FN])
    pth = z3.String("fr_p")
    newfs, oldfs = _named(E, E.ghostv["fs"].t), pre_ghost["fs"].t
    is_chunk = And(0 <= cidx(base, pth), cidx(base, pth) < fn, pth == cpath(base, cidx(base, pth)))
    only_chunks = z3.ForAll([pth], Imp(Not(is_chunk), z3.Select(newfs, pth) == z3.Select(oldfs, pth)),
                            patterns=[z3.Select(newfs, pth)])
    h = z3.Int("fh_h")
    cache = {}
    def sel(g, src):
        d = src[g]
        if (g, id(src)) not in cache:
            cache[(g, id(src))] = _named(E, d.t)
        return sort(TOpt(d.ty.val)).val(z3.Select(cache[(g, id(src))], h))
    return SV(And(only_chunks,
                  z3.ForAll([h], Imp(sel("fh_state", pre_ghost) != 0,
                                     And(sel("fh_state", E.ghostv) == sel("fh_state", pre_ghost),
                                         sel("fh_path", E.ghostv) == sel("fh_path", pre_ghost))),
                            patterns=[sel("fh_state", E.ghostv), sel("fh_path", E.ghostv)])), TBool)


SCALARS_SAME = ["self.__local_path == old(self.__local_path)", "self.__item_size == old(self.__item_size)",
                "self.__array_len == old(self.__array_len)", "self.__item_num_in_one_file == old(self.__item_num_in_one_file)",
                "self.__file_num == old(self.__file_num)", "len(self.__opened_files) == old(len(self.__opened_files))"]
AINV = ["inv(self)", cache_ok()]
# a refused operation: no file, no file object, no field of the array changes
RAISE_SAME = NOFX + SCALARS_SAME + ["self.__opened_files == old(self.__opened_files)"]
FGHOST = ["fs", "fh_state", "fh_path", "fh_pos"]
CP = "cpath(self.__local_path, file_id)"
contract(SMF + "._get_file_by_id", params=dict(self=SMFT, file_id=TInt), returns=TFile, modifies=["self"],
         requires=AINV + ["0 <= file_id", "file_id < self.__file_num"], reveal=["cpath"], lemmas=["cidx_def"],
         ensures=AINV + SCALARS_SAME + [fh_grow,
                 "fh_state[result] == 1", "fh_path[result] == " + CP, CP + " in fs",
                 "fs == (old(fs) if %s in old(fs) else dput(old(fs), %s, b''))" % (CP, CP)],
         modifies_ghost=FGHOST, no_runtime=True, props=["C19"])
AIT = "aitem(%s, self.__local_path, self.__item_num_in_one_file, self.__item_size, %s)"
CPI = "cpath(self.__local_path, index // self.__item_num_in_one_file)"
IDX_OK = ["0 <= index", "index < self.__array_len"]
# index arithmetic: a valid index lies in a valid chunk file (file_num = ceil(len / m))
FILE_HINTS = [("div_bounds", ["index", "self.__item_num_in_one_file"]),
              ("div_bounds", ["self.__array_len + self.__item_num_in_one_file - 1", "self.__item_num_in_one_file"]),
              ("mul_mono", ["index // self.__item_num_in_one_file", "self.__file_num - 1", "self.__item_num_in_one_file"]),
              ("mul_mono", ["self.__file_num", "index // self.__item_num_in_one_file", "self.__item_num_in_one_file"]),
              ("mul_mono", ["0", "index % self.__item_num_in_one_file", "self.__item_size"])]
contract(SMF + "._get_bytes_by_index", params=dict(self=SMFT, index=TInt), returns=TBytes, modifies=["self"],
         requires=AINV + IDX_OK, hints=FILE_HINTS, lemmas=["aitem_create", "aitem_len", "fitem_len"],
         unfold_only=["aitem", "fsd", "fitem"],
         ensures=AINV + SCALARS_SAME + [fh_grow, "result == " + AIT % ("old(fs)", "index"), "len(result) == self.__item_size",
                 "fs == (old(fs) if %s in old(fs) else dput(old(fs), %s, b''))" % (CPI, CPI), view_same()],
         modifies_ghost=FGHOST, no_runtime=True, props=["C19"])
PADDED = "zeros(self.__item_size - len(content)) + content"
contract(SMF + "._write_bytes_to_file", params=dict(self=SMFT, index=TInt, content=TBytes), modifies=["self"],
         requires=AINV + IDX_OK, hints=FILE_HINTS, lemmas=["cidx_def"],
         raises={"ValueError": dict(when="len(content) > self.__item_size", iff=True)},
         raise_ensures={"ValueError": NOFX + SCALARS_SAME + ["self.__opened_files == old(self.__opened_files)"]},
         ensures=AINV + SCALARS_SAME + [fh_grow,
                 "fs == awrite(old(fs), self.__local_path, self.__item_num_in_one_file, self.__item_size, index, %s)" % PADDED],
         unfold_only=["awrite", "fsd"],
         modifies_ghost=FGHOST, no_runtime=True, props=["C19"])

# ---- reads ------------------------------------------------------------------------------------------------------------
BLs = sort(TList(TBytes))
_st, _stp, _cnt, _t = z3.Ints("pa_st pa_stp pa_cnt pa_t")
apick = specfn("apick", [files.FS, TStr, TInt, TInt, TInt, TInt, TInt], TList(TBytes),
               doc="items of the view at positions start, start+step, ... (count of them)")
apick.define = lambda fs, base, m, sz, st, stp, cnt: z3.If(
    cnt <= 0, z3.Empty(BLs),
    z3.Concat(apick(fs, base, m, sz, st, stp, cnt - 1), z3.Unit(aitem(fs, base, m, sz, st + (cnt - 1) * stp))))
lemma("apick_len", [_fs, _base, _m, _sz, _st, _stp, _cnt], Len(apick(_fs, _base, _m, _sz, _st, _stp, _cnt)) == z3.If(_cnt <= 0, 0, _cnt),
      patterns=[apick(_fs, _base, _m, _sz, _st, _stp, _cnt)], induct=("int", _cnt), inst=[[_fs, _base, _m, _sz, _st, _stp, _cnt - 1]],
      no_auto=True, unfold_only=["apick"])
lemma("apick_nth", [_fs, _base, _m, _sz, _st, _stp, _cnt, _t],
      Imp(And(0 <= _t, _t < _cnt), apick(_fs, _base, _m, _sz, _st, _stp, _cnt)[_t] == aitem(_fs, _base, _m, _sz, _st + _t * _stp)),
      patterns=None, induct=("int", _cnt), inst=[[_fs, _base, _m, _sz, _st, _stp, _cnt - 1, _t]], uses=["apick_len"],
      no_auto=True, unfold_only=["apick"])
inline(SMF + ".__len__")
VIEW_RO = AINV + SCALARS_SAME + [fh_grow, view_same()]
contract(SMF + ".__getitem__#int", params=dict(self=SMFT, item=TInt), returns=TBytes, modifies=["self"], requires=AINV,
         raises={"IndexError": dict(when="item >= self.__array_len or item < -self.__array_len", iff=True)},
         raise_ensures={"IndexError": RAISE_SAME},
         ensures=VIEW_RO + ["result == " + AIT % ("old(fs)", "item % self.__array_len"), "len(result) == self.__item_size"],
         modifies_ghost=FGHOST, no_runtime=True, props=["C19"])
SI = "item.indices(self.__array_len)"
RANGE_CNT = [
    "len(result) == 0 or ({0}[0] + (len(result) - 1) * {0}[2] < {0}[1] if {0}[2] > 0 else {0}[0] + (len(result) - 1) * {0}[2] > {0}[1])".format(SI),
    "not ({0}[0] + len(result) * {0}[2] < {0}[1] if {0}[2] > 0 else {0}[0] + len(result) * {0}[2] > {0}[1])".format(SI)]
APK = "apick(old(fs), self.__local_path, self.__item_num_in_one_file, self.__item_size, %s, %s, %s)"
contract(SMF + ".__getitem__#slice", params=dict(self=SMFT, item=TSlice), returns=TList(TBytes), modifies=["self"],
         requires=AINV + ["item.step is None or item.step != 0"],
         ensures=VIEW_RO + ["result == " + APK % (SI + "[0]", SI + "[2]", "len(result)")] + RANGE_CNT,
         locals={"ret": TList(TBytes)},
         loops={0: dict(invariant=VIEW_RO + ["len(ret) == it", "ret == " + APK % ("start", "stride", "it"),
                                             "0 <= start or stride < 0", "start <= self.__array_len", "-1 <= stop",
                                             "stop <= self.__array_len", "start < self.__array_len or stride > 0"])},
         modifies_ghost=FGHOST, no_runtime=True, props=["C19"])

# ---- writes -----------------------------------------------------------------------------------------------------------
def view_upd(idx_src, val_src, who="self"):
    """the view after the call is the view at entry with item idx replaced by val (every other item unchanged)"""
    def f(E, env):
        pre_env, pre_heap, pre_ghost = E.old_stack[-1]
        base, m, sz = (_afld(E, env, n, who) for n in (A_PATH, A_M, A_SZ))
        idx = z3_int(E.spec_eval(idx_src, env, old=True))
        val = E.to_sv(E.spec_eval(val_src, env, old=True), TBytes).t
        j = z3.Int("vj")
        new, old_ = _named(E, E.ghostv["fs"].t), pre_ghost["fs"].t
        return SV(z3.ForAll([j], Imp(j >= 0, aitem(new, base, m, sz, j) == z3.If(j == idx, val, aitem(old_, base, m, sz, j))),
                            patterns=[aitem(new, base, m, sz, j)]), TBool)
    return f


KN = "key % self.__array_len"
PADV = "zeros(self.__item_size - len(value)) + value"
WR_HINTS = [(ln, [e.replace("index", "(%s)" % KN) for e in es]) for ln, es in FILE_HINTS]
contract(SMF + ".__setitem__#int", params=dict(self=SMFT, key=TInt, value=TBytes), modifies=["self"], requires=AINV,
         raises={"IndexError": dict(when="key >= self.__array_len or key < -self.__array_len", iff=True),
                 "ValueError": dict(when="not (key >= self.__array_len or key < -self.__array_len) and len(value) > self.__item_size", iff=True)},
         raise_ensures={"IndexError": RAISE_SAME, "ValueError": RAISE_SAME},
         lemmas=["aitem_write", "zeros_len"],
         ensures=AINV + SCALARS_SAME + [fh_grow, view_upd(KN, PADV)],
         modifies_ghost=FGHOST, no_runtime=True, props=["C19"])
contract(SMF + ".__setitem__#notbytes", params=dict(self=SMFT, key=TInt, value=TInt), modifies=["self"], requires=AINV,
         raises={"IndexError": dict(when="key >= self.__array_len or key < -self.__array_len", iff=True),
                 "TypeError": dict(when="not (key >= self.__array_len or key < -self.__array_len)", iff=True)},
         raise_ensures={"IndexError": RAISE_SAME, "TypeError": RAISE_SAME},
         modifies_ghost=FGHOST, no_runtime=True, props=["C19"])

# ---- close ---------------------------------------------------------------------------------------------------------------
def all_closed(upto_src=None, who="self"):
    """every cached file object (of the first `upto` positions) is closed"""
    def f(E, env):
        S = _named(E, _afld(E, env, A_OF, who))
        k = z3.Int("ck")
        lim = Len(S) if upto_src is None else z3_int(E.spec_eval(upto_src, env, old=True))
        return SV(z3.ForAll([k], Imp(And(0 <= k, k < lim, k < Len(S), OFILE.is_some(S[k])),
                                     _gsel(E, "fh_state", OFILE.val(S[k])) == 2), patterns=[nth_pat(S, k)]), TBool)
    return f


contract(SMF + ".close", params=dict(self=SMFT), requires=["inv(self)"],
         ensures=[all_closed(), "fs == old(fs)", "fh_path == old(fh_path)"],
         loops={0: dict(invariant=[all_closed("it"), "fs == old(fs)", "fh_path == old(fh_path)"])},
         modifies_ghost=["fh_state", "fh_pos"], no_runtime=True, props=["C19"])

# ---- release: the array's files are gone, nobody else's file is touched ---------------------------------------------------
def _meta_path(E, env, who="self"):
    return z3.Concat(_afld(E, env, A_PATH, who), z3.StringVal("_meta"))


def chunks_gone(upto_src=None, who="self"):
    """none of the chunk files 0 .. upto-1 (default: all file_num of them) exists"""
    def f(E, env):
        base, fn = _afld(E, env, A_PATH, who), _afld(E, env, A_FN, who)
        lim = fn if upto_src is None else z3_int(E.spec_eval(upto_src, env, old=True))
        k = z3.Int("rk")
        fsn = _named(E, E.ghostv["fs"].t)
        return SV(z3.ForAll([k], Imp(And(0 <= k, k < lim, k < fn), OBY.is_none(z3.Select(fsn, cpath(base, k)))),
                            patterns=[cpath(base, k)]), TBool)
    return f


def meta_gone(E, env):
    return SV(OBY.is_none(z3.Select(E.ghostv["fs"].t, _meta_path(E, env))), TBool)


def release_frame(E, env):
    """a file that is neither the meta file nor one of the array's chunk files is as it was at entry; a chunk file that still
    exists is as it was at entry"""
    pre_env, pre_heap, pre_ghost = E.old_stack[-1]
    base, fn = _afld(E, env, A_PATH), _afld(E, env, A_FN)
    pth = z3.String("rl_p")
    newfs, oldfs = _named(E, E.ghostv["fs"].t), pre_ghost["fs"].t
    is_chunk = And(0 <= cidx(base, pth), cidx(base, pth) < fn, pth == cpath(base, cidx(base, pth)))
    return SV(z3.ForAll([pth], Imp(And(Not(is_chunk), pth != _meta_path(E, env)), z3.Select(newfs, pth) == z3.Select(oldfs, pth)),
                        patterns=[z3.Select(newfs, pth)]), TBool)


contract(SMF + ".release", params=dict(self=SMFT), requires=["inv(self)"],
         raises={"FileNotFoundError": dict(when="(self.__local_path + '_meta') not in old(fs)", iff=True)},
         raise_ensures={"FileNotFoundError": ["fs == old(fs)", all_closed(), "fh_path == old(fh_path)"]},
         ensures=[all_closed(), meta_gone, chunks_gone(), release_frame, "fh_path == old(fh_path)"] + SCALARS_SAME,
         loops={0: dict(invariant=[all_closed(), meta_gone, chunks_gone("it"), release_frame, "fh_path == old(fh_path)"],
                        hints=[("cidx_def", ["self.__local_path", "it"]), ("cpath_not_meta", ["self.__local_path", "it"])])},
         lemmas=["cpath_inj", "cpath_not_meta", "cidx_def"], reveal=["cpath"],
         modifies_ghost=FGHOST, no_runtime=True, props=["C19"])

# collections.abc.Sequence.__iter__ as documented (B5), restated as ghost code over __getitem__ and verified
ALL_ITEMS = APK % ("0", "1", "self.__array_len")
contract(SMF + ".__iter__", params=dict(self=SMFT), returns=TList(TBytes), modifies=["self"], requires=AINV,
         body="""def __iter__(self):
    ret = []
    i = 0
    try:
        while True:
            v = self[i]
            ret.append(v)
            i += 1
    except IndexError:
        pass
    return ret
""",
         ghost_scope="data_persistence/persistent_array.py", locals={"ret": TList(TBytes)},
         loops={0: dict(invariant=VIEW_RO + ["0 <= i", "i <= self.__array_len", "len(ret) == i", "ret == " + APK % ("0", "1", "i")])},
         ensures=VIEW_RO + ["result == " + ALL_ITEMS, "len(result) == self.__array_len"],
         modifies_ghost=FGHOST, no_runtime=True, props=["C19"])

# ---- construction: create / reopen -----------------------------------------------------------------------------------
META = TTuple(TInt, TInt, TInt)
_mpk, _munpk = externals.pickle_fns(META)
pickled_meta = specfn("pickled_meta", [META], TBytes, py=lambda t: _pickle.dumps(tuple(t)))
pickled_meta.decl = _mpk
_mt = z3.Const("pa_meta", sort(META))
axiom("P1_meta", [_mt], And(_munpk(_mpk(_mt)) == _mt, files.valid_pickle(_mpk(_mt))), patterns=[_mpk(_mt)], auto=True,
      note="P1: pickle round trip of the (item_size, array_len, items_per_file) tuple")
MP = "local_path + '_meta'"


def no_chunks(E, env):
    """no chunk file of this array exists yet (creation in a fresh place)"""
    base = E.to_sv(env["local_path"], TStr).t
    k = z3.Int("nk")
    fs = E.ghostv["fs"].t
    return SV(z3.ForAll([k], OBY.is_none(z3.Select(fs, cpath(base, k))), patterns=[cpath(base, k)]), TBool)


def view_zero_of(E, env, who="self"):
    base, m, sz = (_afld(E, env, n, who) for n in (A_PATH, A_M, A_SZ))
    j = z3.Int("vj")
    fs = _named(E, E.ghostv["fs"].t)
    return SV(z3.ForAll([j], Imp(j >= 0, aitem(fs, base, m, sz, j) == zeros(sz)), patterns=[aitem(fs, base, m, sz, j)]), TBool)


def view_zero(E, env):
    return view_zero_of(E, env, "self")


KW = TPyDict(dict(item_size=TInt, array_len=TInt, item_num_in_one_file=TInt))
FIELDS_ARE = lambda a, b, c: ["self.__local_path == local_path", "self.__item_size == " + a, "self.__array_len == " + b,
                              "self.__item_num_in_one_file == " + c]
contract(SMF + ".__init__#c", params=dict(self=SMFT, local_path=TStr, mode=TStr, kwargs=KW), param_values={"mode": "c"},
         modifies=["self"],
         requires=["kwargs['item_size'] >= 1", "kwargs['array_len'] >= 1", "kwargs['item_num_in_one_file'] >= 1", no_chunks],
         raises={"FileExistsError": dict(when="(%s) in old(fs)" % MP, iff=True)}, raise_ensures={"FileExistsError": NOFX},
         lemmas=["cpath_not_meta", "zeros_len"], unfold_only=["aitem", "fsd", "fitem", "fwrite"],
         ensures=AINV + FIELDS_ARE("kwargs['item_size']", "kwargs['array_len']", "kwargs['item_num_in_one_file']") + [
             "fs == dput(old(fs), %s, pickled_meta((kwargs['item_size'], kwargs['array_len'], kwargs['item_num_in_one_file'])))" % MP,
             view_zero],
         modifies_ghost=FGHOST, no_runtime=True, props=["C19"])
contract(SMF + ".__init__#r", params=dict(self=SMFT, local_path=TStr, mode=TStr, kwargs=TPyDict({})), param_values={"mode": "r"}, modifies=["self"],
         ghost={"g_sz": TInt, "g_len": TInt, "g_m": TInt}, locals={"pickled_object": META},
         requires=["g_sz >= 1", "g_len >= 1", "g_m >= 1",
                   "implies((%s) in fs, fs[%s] == pickled_meta((g_sz, g_len, g_m)))" % (MP, MP)],
         raises={"FileNotFoundError": dict(when="(%s) not in old(fs)" % MP, iff=True)}, raise_ensures={"FileNotFoundError": NOFX},
         ensures=AINV + FIELDS_ARE("g_sz", "g_len", "g_m") + ["fs == old(fs)"],
         modifies_ghost=["fh_state", "fh_path", "fh_pos"], no_runtime=True, props=["C19"])


# =====================================================================================================================
# SPFLBArray: the public wrapper (typestate open / closed) and the interface's derived operations
# =====================================================================================================================
SPF = PAM + "SPFLBArray"
CFA = PAM + "_ClosedFixedLengthBytesArray"
CDS = PAM + "_ClosedDescriptor"
IFA = "data_persistence/interfaces.py:PersistentFixedLengthBytesArray"
S_PATH, S_U = "_SPFLBArray__local_path", "_SPFLBArray__underlying_array"
klass(CFA, fields={})
klass(CDS, fields={"_ClosedDescriptor__error_msg": TStr})
inline(CFA + ".closed", CDS + ".__init__", CDS + ".__get__", CDS + ".__set__")
klass(SPF, fields={S_PATH: TStr, S_U: SMFT})
klass(SPF, state="closed", fields={S_PATH: TStr, S_U: TObj(CFA)})
SPFT, SPFC = TObj(SPF), TObj(SPF + "@closed")
UW = "self>" + S_U
UP = "self.__underlying_array"


def U(specs, who=UW):
    """restate specifications of the underlying array for the wrapper (self.__x  ->  self.__underlying_array.__x)"""
    out = []
    for s in specs:
        if isinstance(s, str):
            out.append(s.replace("inv(self)", "inv(%s)" % UP).replace("self.__", UP + ".__"))
        elif getattr(s, "rebuild", None):
            out.append(s.rebuild(who))
        else:
            out.append(s)
    return out


def _rebuildable(maker, *args):
    f = maker(*args)
    f.rebuild = lambda who: maker(*[a.replace("self.__", UP + ".__") if isinstance(a, str) else a for a in args], who=who)
    return f


U_AINV = ["inv(%s)" % UP, cache_ok(UW)]
U_SAME = U(SCALARS_SAME) + ["self.__local_path == old(self.__local_path)"]
U_RO = U_AINV + U_SAME + [fh_grow, view_same(UW)]
U_RAISE_SAME = NOFX + U_SAME + ["%s.__opened_files == old(%s.__opened_files)" % (UP, UP)]
U_AIT = AIT.replace("self.__", UP + ".__")
U_APK = APK.replace("self.__", UP + ".__")
ULEN = UP + ".__array_len"
OUT_OF_RANGE = "%s >= {0} or %s < -{0}".format(ULEN)
contract(SPF + ".__len__", params=dict(self=SPFT), returns=TInt, ensures=["result == " + ULEN] + NOFX, no_runtime=True, props=["C19"])
inline(SPF + ".item_size", SMF + ".item_size", SPF + ".local_path", SMF + ".local_path", SPF + ".sync")
contract(SPF + ".__getitem__#int", params=dict(self=SPFT, item=TInt), returns=TBytes, modifies=["self"], requires=U_AINV,
         raises={"IndexError": dict(when=OUT_OF_RANGE % ("item", "item"), iff=True)}, raise_ensures={"IndexError": U_RAISE_SAME},
         ensures=U_RO + ["result == " + U_AIT % ("old(fs)", "item % " + ULEN), "len(result) == %s.__item_size" % UP],
         modifies_ghost=FGHOST, no_runtime=True, props=["C19"])
USI = "item.indices(%s)" % ULEN
contract(SPF + ".__getitem__#slice", params=dict(self=SPFT, item=TSlice), returns=TList(TBytes), modifies=["self"],
         requires=U_AINV + ["item.step is None or item.step != 0"],
         ensures=U_RO + ["result == " + U_APK % (USI + "[0]", USI + "[2]", "len(result)")] +
                 [r.replace(SI, USI) for r in RANGE_CNT],
         modifies_ghost=FGHOST, no_runtime=True, props=["C19"])
UKN = "key % " + ULEN
UPADV = "zeros(%s.__item_size - len(value)) + value" % UP
contract(SPF + ".__setitem__#int", params=dict(self=SPFT, key=TInt, value=TBytes), modifies=["self"], requires=U_AINV,
         raises={"IndexError": dict(when=OUT_OF_RANGE % ("key", "key"), iff=True),
                 "ValueError": dict(when="not (%s) and len(value) > %s.__item_size" % (OUT_OF_RANGE % ("key", "key"), UP), iff=True)},
         raise_ensures={"IndexError": U_RAISE_SAME, "ValueError": U_RAISE_SAME},
         ensures=U_AINV + U_SAME + [fh_grow, view_upd(UKN, UPADV, who=UW)],
         modifies_ghost=FGHOST, no_runtime=True, props=["C19"])
contract(SPF + ".__setitem__#notbytes", params=dict(self=SPFT, key=TInt, value=TInt), modifies=["self"], requires=U_AINV,
         raises={"IndexError": dict(when=OUT_OF_RANGE % ("key", "key"), iff=True),
                 "TypeError": dict(when="not (%s)" % (OUT_OF_RANGE % ("key", "key")), iff=True)},
         raise_ensures={"IndexError": U_RAISE_SAME, "TypeError": U_RAISE_SAME},
         modifies_ghost=FGHOST, no_runtime=True, props=["C19"])
contract(SPF + ".__iter__", params=dict(self=SPFT), returns=TList(TBytes), modifies=["self"], requires=U_AINV,
         ensures=U_RO + ["result == " + U_APK % ("0", "1", ULEN), "len(result) == " + ULEN],
         modifies_ghost=FGHOST, no_runtime=True, props=["C19"])
contract(SPF + ".close", params=dict(self=SPFT), modifies=["self"], requires=["inv(%s)" % UP], becomes={"self": SPF + "@closed"},
         ensures=["fs == old(fs)", "fh_path == old(fh_path)", "self.__local_path == old(self.__local_path)"],
         modifies_ghost=["fh_state", "fh_pos"], no_runtime=True, props=["C19"])

# release of the wrapper: whatever happens, the wrapper ends up closed; the files of the array it wrapped are gone
def _sv(E, env, src):
    return E.to_sv(E.spec_eval(src, env, old=True)).t


def chunks_gone_of(base_src, fn_src):
    def f(E, env):
        base, fn = _sv(E, env, base_src), z3_int(E.spec_eval(fn_src, env, old=True))
        k = z3.Int("rk")
        fsn = _named(E, E.ghostv["fs"].t)
        return SV(z3.ForAll([k], Imp(And(0 <= k, k < fn), OBY.is_none(z3.Select(fsn, cpath(base, k)))), patterns=[cpath(base, k)]), TBool)
    return f


def release_frame_of(base_src, fn_src):
    def f(E, env):
        pre_env, pre_heap, pre_ghost = E.old_stack[-1]
        base, fn = _sv(E, env, base_src), z3_int(E.spec_eval(fn_src, env, old=True))
        pth = z3.String("rl_p")
        newfs, oldfs = _named(E, E.ghostv["fs"].t), pre_ghost["fs"].t
        is_chunk = And(0 <= cidx(base, pth), cidx(base, pth) < fn, pth == cpath(base, cidx(base, pth)))
        return SV(z3.ForAll([pth], Imp(And(Not(is_chunk), pth != z3.Concat(base, z3.StringVal("_meta"))),
                                       z3.Select(newfs, pth) == z3.Select(oldfs, pth)), patterns=[z3.Select(newfs, pth)]), TBool)
    return f


contract(SPF + ".release", params=dict(self=SPFT), modifies=["self"], requires=["inv(%s)" % UP, "g_base == %s.__local_path" % UP,
                                                                                "g_fn == %s.__file_num" % UP],
         ghost=dict(g_base=TStr, g_fn=TInt), becomes={"self": SPF + "@closed"},
         raises={"FileNotFoundError": dict(when="(g_base + '_meta') not in old(fs)", iff=True)},
         raise_ensures={"FileNotFoundError": ["fs == old(fs)", "fh_path == old(fh_path)"]},
         ensures=["(g_base + '_meta') not in fs", chunks_gone_of("g_base", "g_fn"), release_frame_of("g_base", "g_fn"),
                  "fh_path == old(fh_path)", "self.__local_path == old(self.__local_path)"],
         modifies_ghost=FGHOST, no_runtime=True, props=["C19"])

# ---- derived operations of the interface: deletion = zero fill, clear ---------------------------------------------------------
ZI = "zeros(%s.__item_size)" % UP
contract(IFA + "._set_all_zeros_by_index", params=dict(self=SPFT, index=TInt), modifies=["self"], requires=U_AINV,
         raises={"IndexError": dict(when=OUT_OF_RANGE % ("index", "index"), iff=True)}, raise_ensures={"IndexError": U_RAISE_SAME},
         lemmas=["zeros_len"],
         ensures=U_AINV + U_SAME + [fh_grow, view_upd("index % " + ULEN, ZI, who=UW)],
         modifies_ghost=FGHOST, no_runtime=True, props=["C19"])
contract(IFA + ".__delitem__#int", params=dict(self=SPFT, i=TInt), modifies=["self"], requires=U_AINV,
         raises={"IndexError": dict(when=OUT_OF_RANGE % ("i", "i"), iff=True)}, raise_ensures={"IndexError": U_RAISE_SAME},
         ensures=U_AINV + U_SAME + [fh_grow, view_upd("i % " + ULEN, ZI, who=UW)],
         modifies_ghost=FGHOST, no_runtime=True, props=["C19"])


def view_cleared(upto_src, who=UW):
    """items below `upto` read as zeros, the others are as at entry"""
    def f(E, env):
        pre_env, pre_heap, pre_ghost = E.old_stack[-1]
        base, m, sz = (_afld(E, env, n, who) for n in (A_PATH, A_M, A_SZ))
        upto = z3_int(E.spec_eval(upto_src, env, old=True))
        j = z3.Int("vj")
        new, old_ = _named(E, E.ghostv["fs"].t), pre_ghost["fs"].t
        return SV(z3.ForAll([j], Imp(j >= 0, aitem(new, base, m, sz, j) == z3.If(j < upto, zeros(sz), aitem(old_, base, m, sz, j))),
                            patterns=[aitem(new, base, m, sz, j)]), TBool)
    return f


contract(IFA + ".clear", params=dict(self=SPFT), modifies=["self"], requires=U_AINV,
         ensures=U_AINV + U_SAME + [fh_grow, view_cleared(ULEN)],
         loops={0: dict(invariant=U_AINV + U_SAME + [fh_grow, view_cleared("it"), "n_iter == " + ULEN])},
         modifies_ghost=FGHOST, no_runtime=True, props=["C19"])

# ---- wrapper construction ------------------------------------------------------------------------------------------------
contract(SPF + ".__init__#c", params=dict(self=SPFT, local_path=TStr, mode=TStr, kwargs=KW), param_values={"mode": "c"},
         modifies=["self"], requires=CONTRACTS[SMF + ".__init__#c"].requires,
         raises={"FileExistsError": dict(when="(%s) in old(fs)" % MP, iff=True)}, raise_ensures={"FileExistsError": NOFX},
         ensures=U_AINV + ["self.__local_path == local_path"] + U(FIELDS_ARE("kwargs['item_size']", "kwargs['array_len']", "kwargs['item_num_in_one_file']")) + [
             "fs == dput(old(fs), %s, pickled_meta((kwargs['item_size'], kwargs['array_len'], kwargs['item_num_in_one_file'])))" % MP,
             (lambda E, env: view_zero_of(E, env, UW))],
         modifies_ghost=FGHOST, no_runtime=True, props=["C19"])
contract(SPF + ".__init__#r", params=dict(self=SPFT, local_path=TStr, mode=TStr, kwargs=TPyDict({})), param_values={"mode": "r"}, modifies=["self"],
         ghost={"g_sz": TInt, "g_len": TInt, "g_m": TInt}, requires=CONTRACTS[SMF + ".__init__#r"].requires,
         raises={"FileNotFoundError": dict(when="(%s) not in old(fs)" % MP, iff=True)}, raise_ensures={"FileNotFoundError": NOFX},
         ensures=U_AINV + ["self.__local_path == local_path"] + U(FIELDS_ARE("g_sz", "g_len", "g_m")) + ["fs == old(fs)"],
         modifies_ghost=["fh_state", "fh_path", "fh_pos"], no_runtime=True, props=["C19"])
contract(SPF + ".open", params=dict(cls=TAny, local_path=TStr), returns=SPFT, param_values={"cls": ClassRef(SPF)},
         ghost={"g_sz": TInt, "g_len": TInt, "g_m": TInt}, requires=CONTRACTS[SMF + ".__init__#r"].requires,
         raises={"FileNotFoundError": dict(when="(%s) not in old(fs)" % MP, iff=True)}, raise_ensures={"FileNotFoundError": NOFX},
         ensures=[s.replace("self.", "result.").replace("inv(self", "inv(result") if isinstance(s, str) else s
                  for s in (["inv(%s)" % UP, "self.__local_path == local_path"] + U(FIELDS_ARE("g_sz", "g_len", "g_m")) + ["fs == old(fs)"])]
                 + [cache_ok("result>" + S_U)],
         modifies_ghost=["fh_state", "fh_path", "fh_pos"], no_runtime=True, props=["C19"])

# ---- from_list (explicit item size and length): the new array reads as the padded list followed by zeros ----------------------
PW = "p_array>" + S_U
PP = "p_array.__underlying_array"


def items_fit(E, env):
    """no item of the list is longer than the item size"""
    L_ = E.list_sv(env["list_"]).t
    k = z3.Int("fk")
    return SV(z3.ForAll([k], Imp(And(0 <= k, k < Len(L_)), Len(L_[k]) <= z3_int(env["item_size"])), patterns=[nth_pat(L_, k)]), TBool)


def view_filled(upto_src, who):
    """items below `upto` read as the left-zero-padded list items, every other item reads as zeros"""
    def f(E, env):
        base, m, sz = (_afld(E, env, n, who) for n in (A_PATH, A_M, A_SZ))
        upto = z3_int(E.spec_eval(upto_src, env, old=True))
        L_ = E.list_sv(env["list_"]).t
        j = z3.Int("vj")
        fsn = _named(E, E.ghostv["fs"].t)
        return SV(z3.ForAll([j], Imp(j >= 0, aitem(fsn, base, m, sz, j) ==
                                     z3.If(And(j < upto, j < Len(L_)), z3.Concat(zeros(sz - Len(L_[j])), L_[j]), zeros(sz))),
                            patterns=[aitem(fsn, base, m, sz, j)]), TBool)
    return f


inline(SPF + ".create")
FL_FIELDS = ["%s.__item_size == item_size" % "{0}", "%s.__array_len == max(list_len, len(list_))" % "{0}",
             "%s.__item_num_in_one_file == chunk_size" % "{0}", "%s.__local_path == local_path" % "{0}"]
contract(SPF + ".from_list#sized", params=dict(cls=TAny, list_=TList(TBytes), local_path=TStr, chunk_size=TInt, item_size=TInt, list_len=TInt),
         returns=SPFT, param_values={"cls": ClassRef(SPF)},
         requires=["item_size >= 1", "chunk_size >= 1", "list_len >= 0", "max(list_len, len(list_)) >= 1", no_chunks, items_fit],
         raises={"FileExistsError": dict(when="(%s) in old(fs)" % MP, iff=True)}, raise_ensures={"FileExistsError": NOFX},
         locals={"p_array": SPFT},
         ensures=["inv(result.__underlying_array)", cache_ok("result>" + S_U)] + [x.format("result.__underlying_array") for x in FL_FIELDS] +
                 [view_filled("len(list_)", "result>" + S_U)],
         lemmas=["zeros_len"],
         loops={1: dict(invariant=["inv(%s)" % PP, cache_ok(PW)] + [x.format(PP) for x in FL_FIELDS] + [view_filled("it", PW)])},
         modifies_ghost=FGHOST, no_runtime=True, props=["C19"])

# ---- a closed array refuses every operation ----------------------------------------------------------------------------------
for nm_, ps_ in (("__getitem__", dict(item=TInt)), ("__setitem__", dict(key=TInt, value=TBytes)), ("__len__", {}), ("__iter__", {})):
    contract(SPF + "." + nm_ + "#closed", params=dict(self=SPFC, **ps_), no_runtime=True, props=["C19"], **CLOSED_RAISES)
for nm_, ps_ in (("__delitem__", dict(i=TInt)), ("clear", {}), ("_set_all_zeros_by_index", dict(index=TInt))):
    contract(IFA + "." + nm_ + "#closed", params=dict(self=SPFC, **ps_), no_runtime=True, props=["C19"], **CLOSED_RAISES)
contract(SPF + ".close#closed", params=dict(self=SPFC), modifies=["self"], becomes={"self": SPF + "@closed"},
         ensures=NOFX + ["self.__local_path == old(self.__local_path)"], no_runtime=True, props=["C19"])
contract(SPF + ".release#closed", params=dict(self=SPFC), modifies=["self"], becomes={"self": SPF + "@closed"},
         ensures=NOFX + ["self.__local_path == old(self.__local_path)"], no_runtime=True, props=["C19"])      # releasing twice is harmless

# ---- client lemmas: the history clauses of C19 over the contracts above ---------------------------------------------------
GA = "data_persistence/persistent_array.py"


def meta_is(who, a, b, c):
    """the meta file holds the pickle of the array's three parameters"""
    def f(E, env):
        base = _afld(E, env, A_PATH, who)
        vals = [z3_int(E.spec_eval(x, env, old=True)) for x in (a, b, c)]
        t = sort(META).mk(*vals)
        return SV(z3.Select(E.ghostv["fs"].t, z3.Concat(base, z3.StringVal("_meta"))) == OBY.some(_mpk(t)), TBool)
    return f


def same_view_as_entry(new_who, old_who):
    """every item of the array object `new_who` (now) equals the item of `old_who` at entry"""
    def f(E, env):
        pre_env, pre_heap, pre_ghost = E.old_stack[-1]
        nb, nm, ns = (_afld(E, env, n, new_who) for n in (A_PATH, A_M, A_SZ))
        saved = E.heap
        E.heap = pre_heap
        try:
            ob, om, os_ = (_afld(E, pre_env, n, old_who) for n in (A_PATH, A_M, A_SZ))
        finally:
            E.heap = saved
        j = z3.Int("vj")
        new = _named(E, E.ghostv["fs"].t)
        return SV(z3.ForAll([j], Imp(j >= 0, aitem(new, nb, nm, ns, j) == aitem(pre_ghost["fs"].t, ob, om, os_, j)),
                            patterns=[aitem(new, nb, nm, ns, j)]), TBool)
    return f


AW = "a>" + S_U
A_INV = ["inv(a.__underlying_array)", cache_ok(AW)]
contract("ghost:pa_write_close_reopen", params=dict(a=SPFT, k=TInt, v=TBytes), returns=SPFT, ghost_scope=GA,
         ghost={"g_sz": TInt, "g_len": TInt, "g_m": TInt},
         body="""def pa_write_close_reopen(a, k, v):
    path = a.local_path
    a[k] = v
    a.close()
    return SPFLBArray.open(path)
""",
         requires=A_INV + ["a.__local_path == a.__underlying_array.__local_path", "g_sz == a.__underlying_array.__item_size",
                           "g_len == a.__underlying_array.__array_len", "g_m == a.__underlying_array.__item_num_in_one_file",
                           "g_sz >= 1", "g_len >= 1", "g_m >= 1", meta_is(AW, "g_sz", "g_len", "g_m"),
                           "-g_len <= k", "k < g_len", "len(v) <= g_sz"],
         modifies=["a"], lemmas=["cpath_not_meta", "cidx_def"],
         ensures=["result.__underlying_array.__array_len == g_len", "result.__underlying_array.__item_size == g_sz",
                  lambda E, env: view_upd_between(E, env)],
         modifies_ghost=FGHOST, props=["C19"])


def view_upd_between(E, env):
    pre_env, pre_heap, pre_ghost = E.old_stack[-1]
    nb, nm, ns = (_afld(E, env, n, "result>" + S_U) for n in (A_PATH, A_M, A_SZ))
    saved = E.heap
    E.heap = pre_heap
    try:
        ob, om, os_ = (_afld(E, pre_env, n, AW) for n in (A_PATH, A_M, A_SZ))
    finally:
        E.heap = saved
    idx = z3_int(E.spec_eval("k % g_len", env, old=True))
    val = E.to_sv(E.spec_eval("zeros(g_sz - len(v)) + v", env, old=True), TBytes).t
    j = z3.Int("vj")
    new = _named(E, E.ghostv["fs"].t)
    return SV(z3.ForAll([j], Imp(j >= 0, aitem(new, nb, nm, ns, j) == z3.If(j == idx, val, aitem(pre_ghost["fs"].t, ob, om, os_, j))),
                        patterns=[aitem(new, nb, nm, ns, j)]), TBool)
contract("ghost:pa_clear_reads_zero", params=dict(a=SPFT, k=TInt), returns=TBytes, ghost_scope=GA,
         body="""def pa_clear_reads_zero(a, k):
    a.clear()
    return a[k]
""",
         requires=A_INV + ["-a.__underlying_array.__array_len <= k", "k < a.__underlying_array.__array_len"],
         modifies=["a"], lemmas=["zeros_len"],
         ensures=["result == zeros(a.__underlying_array.__item_size)"],
         modifies_ghost=FGHOST, props=["C19"])
contract("ghost:pa_delete_then_read", params=dict(a=SPFT, i=TInt, k=TInt), returns=TBytes, ghost_scope=GA,
         body="""def pa_delete_then_read(a, i, k):
    del a[i]
    return a[k]
""",
         requires=A_INV + ["-a.__underlying_array.__array_len <= k", "k < a.__underlying_array.__array_len",
                           "-a.__underlying_array.__array_len <= i", "i < a.__underlying_array.__array_len"],
         modifies=["a"], lemmas=["zeros_len"],
         ensures=["result == (zeros(a.__underlying_array.__item_size) if k % a.__underlying_array.__array_len == i % a.__underlying_array.__array_len else "
                  "aitem(old(fs), a.__underlying_array.__local_path, a.__underlying_array.__item_num_in_one_file, a.__underlying_array.__item_size, k % a.__underlying_array.__array_len))"],
         modifies_ghost=FGHOST, props=["C19"])
contract("ghost:pa_failed_write_changes_nothing", params=dict(a=SPFT, k=TInt, v=TBytes), ghost_scope=GA,
         body="""def pa_failed_write_changes_nothing(a, k, v):
    a[k] = v
""",
         requires=A_INV + ["k >= a.__underlying_array.__array_len or k < -a.__underlying_array.__array_len or len(v) > a.__underlying_array.__item_size"],
         modifies=["a"],
         raises={"IndexError": dict(when="k >= a.__underlying_array.__array_len or k < -a.__underlying_array.__array_len", iff=True),
                 "ValueError": dict(when="not (k >= a.__underlying_array.__array_len or k < -a.__underlying_array.__array_len)", iff=True)},
         raise_ensures={"IndexError": NOFX, "ValueError": NOFX},
         modifies_ghost=FGHOST, props=["C19"])
for op_, call_ in (("get", "a[k]"), ("set", "a[k] = v"), ("del", "del a[k]"), ("len", "len(a)"), ("iter", "iter(a)"), ("clear", "a.clear()")):
    contract("ghost:pa_closed_refuses_" + op_, params=dict(a=SPFT, k=TInt, v=TBytes), ghost_scope=GA,
             body="def pa_closed_refuses_%s(a, k, v):\n    a.close()\n    %s\n" % (op_, call_),
             requires=A_INV, modifies=["a"], raises={"ValueError": dict(when="True", iff=True)},
             modifies_ghost=FGHOST, props=["C19"])


# =====================================================================================================================
# slice assignment / deletion: which item (if any) a position of range(start, stop, step) addresses
# =====================================================================================================================
_hj, _hs, _hst, _hk, _hk2, _ht = z3.Ints("h_j h_s h_st h_k h_k2 h_t")
hit = specfn("hit", [TInt, TInt, TInt, TInt], TInt,
             doc="the largest t < k with start + t*step == j, or -1: which of the first k positions of a range addresses item j")
hit.define = lambda j, s, st, k: z3.If(k <= 0, -1, z3.If(j == s + (k - 1) * st, k - 1, hit(j, s, st, k - 1)))
HV = [_hj, _hs, _hst, _hk]
lemma("hit_range", HV, And(hit(*HV) >= -1, hit(*HV) < z3.If(_hk <= 0, 0, _hk)), patterns=[hit(*HV)],
      induct=("int", _hk), inst=[[_hj, _hs, _hst, _hk - 1]], no_auto=True, unfold_only=["hit"])
lemma("hit_sound", HV, Imp(hit(*HV) >= 0, _hj == _hs + hit(*HV) * _hst), patterns=[hit(*HV)],
      induct=("int", _hk), inst=[[_hj, _hs, _hst, _hk - 1]], no_auto=True, unfold_only=["hit"])
lemma("hit_step", HV, Imp(_hk >= 0, hit(_hj, _hs, _hst, _hk + 1) == z3.If(_hj == _hs + _hk * _hst, _hk, hit(*HV))),
      patterns=[hit(_hj, _hs, _hst, _hk + 1)], no_auto=True, unfold_only=["hit"])
# positions of a range with a non-zero step are pairwise distinct: a later position is none of the first k
lemma("hit_fresh", [_hj, _hs, _hst, _hk, _ht], Imp(And(_hst != 0, _ht >= _hk, _hj == _hs + _ht * _hst), hit(_hj, _hs, _hst, _hk) == -1),
      patterns=None, induct=("int", _hk), inst=[[_hj, _hs, _hst, _hk - 1, _ht]], no_auto=True, unfold_only=["hit"],
      uses=["mul_nonzero"], use_inst=[("mul_nonzero", [_ht - (_hk - 1), _hst])])
# ... hence looking at more positions does not change which one addressed j
lemma("hit_stable", [_hj, _hs, _hst, _hk, _hk2], Imp(And(_hst != 0, hit(*HV) >= 0, _hk <= _hk2), hit(_hj, _hs, _hst, _hk2) == hit(*HV)),
      patterns=None, induct=("int", _hk2), inst=[[_hj, _hs, _hst, _hk, _hk2 - 1]], no_auto=True, unfold_only=["hit"],
      uses=["hit_range", "hit_sound", "mul_nonzero"],
      use_inst=[("hit_range", HV), ("hit_sound", HV), ("mul_nonzero", [(_hk2 - 1) - hit(*HV), _hst])])
_rs, _rstop, _rst = z3.Ints("r_s r_stop r_st")
rcnt = specfn("rcnt", [TInt, TInt, TInt], TInt, py=lambda s, stop, st: len(range(s, stop, st)) if st != 0 else 0,
              doc="len(range(start, stop, step)) for step != 0: the number of positions start, start+step, ... before stop")
_inr = lambda x, stop, st: z3.If(st > 0, x < stop, x > stop)
rcnt.define = lambda s, stop, st: z3.If(And(st != 0, _inr(s, stop, st)), 1 + rcnt(s + st, stop, st), 0)
lemma("rcnt_nonneg", [_rs, _rstop, _rst], rcnt(_rs, _rstop, _rst) >= 0, patterns=[rcnt(_rs, _rstop, _rst)],
      induct=("int", z3.If(_rst > 0, _rstop - _rs, _rs - _rstop)), inst=[[_rs + _rst, _rstop, _rst]], no_auto=True, unfold_only=["rcnt"])


def view_hits(s_src, st_src, k_src, val, who=UW):
    """after the call, item j is val(t) if position t = hit(j, start, step, k) >= 0 of the range addressed it, else as at entry"""
    def f(E, env):
        pre_env, pre_heap, pre_ghost = E.old_stack[-1]
        base, m, sz = (_afld(E, env, n, who) for n in (A_PATH, A_M, A_SZ))
        s, st, k = (z3_int(E.spec_eval(x, env, old=True)) for x in (s_src, st_src, k_src))
        j = z3.Int("vj")
        new, old_ = _named(E, E.ghostv["fs"].t), pre_ghost["fs"].t
        s, st, k = (_named(E, x) for x in (s, st, k))
        h = hit(j, s, st, k)
        # the defining equation of hit at this k for every j (what ground definitional instantiation cannot reach under the binder)
        E.assume(z3.ForAll([j], h == hit.define(j, s, st, k), patterns=[h]))
        return SV(z3.ForAll([j], Imp(j >= 0, aitem(new, base, m, sz, j) == z3.If(h >= 0, val(E, env, h, sz), aitem(old_, base, m, sz, j))),
                            patterns=[aitem(new, base, m, sz, j)]), TBool)
    return f


ZEROV = lambda E, env, h, sz: zeros(sz)
DSI = "i.indices(%s)" % ULEN
RC = "rcnt(start, stop, stride)"
contract(IFA + ".__delitem__#slice", params=dict(self=SPFT, i=TSlice), modifies=["self"],
         requires=U_AINV + ["i.step is None or i.step != 0"],
         lemmas=["hit_step", "hit_range", "rcnt_nonneg", "zeros_len"],
         ensures=U_AINV + U_SAME + [fh_grow, view_hits(DSI + "[0]", DSI + "[2]", "rcnt(%s[0], %s[1], %s[2])" % (DSI, DSI, DSI), ZEROV)],
         loops={0: dict(invariant=U_AINV + U_SAME + [fh_grow, view_hits("start", "stride", "it", ZEROV),
                                                     RC + " == it + rcnt(start + it * stride, stop, stride)",
                                                     "0 <= start or stride < 0", "start <= " + ULEN, "-1 <= stop", "stop <= " + ULEN,
                                                     "start < %s or stride > 0" % ULEN])},
         modifies_ghost=FGHOST, no_runtime=True, props=["C19"])

_apk = apick(_fs, _base, _m, _sz, _st, _stp, _cnt)
lemma("apick_nth_q", [_fs, _base, _m, _sz, _st, _stp, _cnt, _t],
      Imp(And(0 <= _t, _t < _cnt), _apk[_t] == aitem(_fs, _base, _m, _sz, _st + _t * _stp)),
      patterns=[nth_pat(_apk, _t)], uses=["apick_nth"], use_inst=[("apick_nth", [_fs, _base, _m, _sz, _st, _stp, _cnt, _t])],
      no_auto=True, unfold_only=[])
_mx, _mn = z3.Ints("ms_x ms_n")
lemma("mod_small_p", [_mx, _mn], Imp(And(0 <= _mx, _mx < _mn), And(_mx % _mn == _mx, _mx / _mn == 0)), patterns=None,
      uses=["div_mod_unique"], use_inst=[("div_mod_unique", [_mx, _mn, z3.IntVal(0), _mx])], no_auto=True, unfold_only=[])

# ---- slice assignment with rollback ------------------------------------------------------------------------------------
_fv = z3.Const("fu_xs", BLs)
_fk, _fk2, _fsz = z3.Ints("fu_k fu_k2 fu_sz")
fits_upto = specfn("fits_upto", [TList(TBytes), TInt, TInt], TBool, doc="the first k items are at most sz bytes long")
fits_upto.define = lambda xs, sz, k: z3.If(k <= 0, True, And(Len(xs[k - 1]) <= sz, fits_upto(xs, sz, k - 1)))
lemma("fits_mono", [_fv, _fsz, _fk, _fk2], Imp(And(fits_upto(_fv, _fsz, _fk2), _fk <= _fk2), fits_upto(_fv, _fsz, _fk)),
      patterns=[z3.MultiPattern(fits_upto(_fv, _fsz, _fk2), fits_upto(_fv, _fsz, _fk))], induct=("int", _fk2),
      inst=[[_fv, _fsz, _fk, _fk2 - 1]], no_auto=True, unfold_only=["fits_upto"])
# the saved items are items of the view, hence exactly sz bytes long: restoring them can never be refused
lemma("apick_fits", [_fs, _base, _m, _sz, _st, _stp, _cnt, _fk],
      Imp(And(_sz >= 0, _m >= 1, _fk <= _cnt), fits_upto(apick(_fs, _base, _m, _sz, _st, _stp, _cnt), _sz, _fk)),
      patterns=None, induct=("int", _fk), inst=[[_fs, _base, _m, _sz, _st, _stp, _cnt, _fk - 1]], no_auto=True,
      unfold_only=["fits_upto"], uses=["apick_nth", "aitem_len", "apick_len"],
      use_inst=[("apick_nth", [_fs, _base, _m, _sz, _st, _stp, _cnt, _fk - 1])])


def PADVAL(E, env, h, sz):
    v = E.list_sv(env["value"]).t
    return z3.Concat(zeros(sz - Len(v[h])), v[h])


def _inst(E, lemma_name, terms):
    """assume a ground instance of a proved lemma (sound: every registered lemma is itself an obligation of the check)"""
    from pyvc.registry import LEMMAS
    Lm = LEMMAS[lemma_name]
    E.lemmas_used.add(lemma_name)
    E.assume(z3.substitute(Lm.body, *list(zip(Lm.vars, terms))))


def rollback_restored(E, env):
    """raise path of the slice assignment: every item reads as at entry.  Stated for one arbitrary (fresh) item number,
    which proves it for all; the lemma instances the argument needs are supplied at that item."""
    if E.spec_role == "assume":      # a caller learns the statement for every item
        return view_same("self")(E, env)
    pre_env, pre_heap, pre_ghost = E.old_stack[-1]
    base, m, sz = (_afld(E, env, n, "self") for n in (A_PATH, A_M, A_SZ))
    s, st, k = z3_int(env["start"]), z3_int(env["stride"]), z3_int(env["_it0"])
    j0 = E.fresh("any_item", TInt).t
    orig, new = pre_ghost["fs"].t, E.ghostv["fs"].t
    A = apick(orig, base, m, sz, s, st, k + 1)
    h1 = hit(j0, s, st, k + 1)
    _inst(E, "hit_step", [j0, s, st, k])
    _inst(E, "hit_range", [j0, s, st, k + 1])
    _inst(E, "hit_range", [j0, s, st, k])
    _inst(E, "hit_sound", [j0, s, st, k + 1])
    _inst(E, "apick_nth", [orig, base, m, sz, s, st, k + 1, h1])
    _inst(E, "aitem_len", [orig, base, m, sz, s + h1 * st])
    _inst(E, "zeros_len", [sz - Len(A[h1])])
    return SV(Imp(j0 >= 0, aitem(new, base, m, sz, j0) == aitem(orig, base, m, sz, j0)), TBool)


KSI = "key.indices(self.__array_len)"
NW = "min(rcnt({0}[0], {0}[1], {0}[2]), len(value))".format(KSI)
def proof_step(src):
    """an intermediate fact over the function's locals, proved on the way to the next clause (nothing for callers)"""
    return lambda E, env: True if E.spec_role == "assume" else E.spec_eval(src, env, old=True)


SAME_ON_RAISE = AINV + SCALARS_SAME + [fh_grow, proof_step("min(rcnt(start, stop, stride), len(old_items)) == _it0 + 1"),
                                       proof_step("old_items == " + APK % ("start", "stride", "_it0 + 1")), rollback_restored]
contract(SMF + ".__setitem__#slice", params=dict(self=SMFT, key=TSlice, value=TList(TBytes)), modifies=["self"],
         requires=AINV + ["key.step is None or key.step != 0"],
         raises={"ValueError": dict(when="not fits_upto(value, self.__item_size, %s)" % NW, iff=True)},
         raise_ensures={"ValueError": SAME_ON_RAISE},
         lemmas=["hit_range", "hit_sound", "rcnt_nonneg", "zeros_len", "fits_mono", "aitem_len", "apick_len", "aitem_write", "apick_nth_q"],
         locals={"old_items": TList(TBytes)}, unfold_only=["apick", "fits_upto", "rcnt"],
         ensures=AINV + SCALARS_SAME + [fh_grow, view_hits(KSI + "[0]", KSI + "[2]", NW, PADVAL, who="self")],
         loops={0: dict(invariant=AINV + SCALARS_SAME + [fh_grow, view_hits("start", "stride", "it", PADVAL, who="self"),
                                                         RC + " == it + rcnt(start + it * stride, stop, stride)",
                                                         "it <= len(value)", "len(value_iter) == len(value) - it",
                                                         "len(old_items) == it", "old_items == " + APK % ("start", "stride", "it"),
                                                         "fits_upto(value, self.__item_size, it)",
                                                         "0 <= start or stride < 0", "start <= self.__array_len", "-1 <= stop",
                                                         "stop <= self.__array_len", "start < self.__array_len or stride > 0"],
                        hints=[("mul_mono", ["0", "it", "stride"]), ("mul_mono", ["0", "it", "0 - stride"]),
                               ("mod_small_p", ["start + it * stride", "self.__array_len"]),
                               ("hit_fresh", ["(start + it * stride) % self.__array_len", "start", "stride", "it", "it"]),
                               ("fits_mono", ["value", "self.__item_size", "it + 1", "min(rcnt(start, stop, stride), len(value))"]),
                               ("apick_fits", ["old(fs)", "self.__local_path", "self.__item_num_in_one_file", "self.__item_size",
                                               "start", "stride", "it + 1", "it + 1"])])},
         modifies_ghost=FGHOST, no_runtime=True, props=["C19"])

# rollback restores the view (pointwise): fs1 = view after k1-1 writes, fs2 = fs1 after writing back the k1 saved items
_f0, _f1, _f2 = z3.Consts("rb_fs0 rb_fs1 rb_fs2", FSs)
_k1 = z3.Int("rb_k1")
_rbA = apick(_f0, _base, _m, _sz, _hs, _hst, _k1)
_rbh1 = hit(_hj, _hs, _hst, _k1)
lemma("rollback_point", [_f0, _f1, _f2, _base, _m, _sz, _hs, _hst, _k1, _hj],
      Imp(And(_hst != 0, _sz >= 0, _m >= 1, _k1 >= 1,
              Imp(hit(_hj, _hs, _hst, _k1 - 1) < 0, aitem(_f1, _base, _m, _sz, _hj) == aitem(_f0, _base, _m, _sz, _hj)),
              aitem(_f2, _base, _m, _sz, _hj) == z3.If(_rbh1 >= 0, z3.Concat(zeros(_sz - Len(_rbA[_rbh1])), _rbA[_rbh1]),
                                                      aitem(_f1, _base, _m, _sz, _hj))),
          aitem(_f2, _base, _m, _sz, _hj) == aitem(_f0, _base, _m, _sz, _hj)),
      patterns=[z3.MultiPattern(aitem(_f2, _base, _m, _sz, _hj), aitem(_f1, _base, _m, _sz, _hj), aitem(_f0, _base, _m, _sz, _hj), _rbh1)],
      uses=["hit_step", "hit_range", "hit_sound", "apick_nth", "aitem_len", "zeros_len", "apick_len"], no_auto=True, unfold_only=[],
      use_inst=[("hit_step", [_hj, _hs, _hst, _k1 - 1]), ("hit_range", [_hj, _hs, _hst, _k1]), ("hit_sound", [_hj, _hs, _hst, _k1]),
                ("apick_nth", [_f0, _base, _m, _sz, _hs, _hst, _k1, _rbh1]),
                ("aitem_len", [_f0, _base, _m, _sz, _hs + _rbh1 * _hst]), ("zeros_len", [_sz - Len(_rbA[_rbh1])])])

# wrapper: slice assignment through SPFLBArray, and the history clause "a failing slice assignment leaves the array as it was"
UKSI = "key.indices(%s)" % ULEN
UNW = "min(rcnt({0}[0], {0}[1], {0}[2]), len(value))".format(UKSI)
contract(SPF + ".__setitem__#slice", params=dict(self=SPFT, key=TSlice, value=TList(TBytes)), modifies=["self"],
         requires=U_AINV + ["key.step is None or key.step != 0"],
         raises={"ValueError": dict(when="not fits_upto(value, %s.__item_size, %s)" % (UP, UNW), iff=True)},
         raise_ensures={"ValueError": U_AINV + U_SAME + [fh_grow, view_same(UW)]},
         ensures=U_AINV + U_SAME + [fh_grow, view_hits(UKSI + "[0]", UKSI + "[2]", UNW, PADVAL, who=UW)],
         modifies_ghost=FGHOST, no_runtime=True, props=["C19"])
contract("ghost:pa_failed_slice_write_then_read", params=dict(a=SPFT, key=TSlice, value=TList(TBytes), k=TInt), returns=TBytes, ghost_scope=GA,
         body="""def pa_failed_slice_write_then_read(a, key, value, k):
    try:
        a[key] = value
    except ValueError:
        return a[k]
    return a[k]
""",
         requires=A_INV + ["key.step is None or key.step != 0", "0 <= k", "k < a.__underlying_array.__array_len",
                           "not fits_upto(value, a.__underlying_array.__item_size, min(rcnt(key.indices(a.__underlying_array.__array_len)[0], "
                           "key.indices(a.__underlying_array.__array_len)[1], key.indices(a.__underlying_array.__array_len)[2]), len(value)))"],
         modifies=["a"], lemmas=["mod_small_p"], hints=[("mod_small_p", ["k", "a.__underlying_array.__array_len"])],
         ensures=["result == aitem(old(fs), a.__underlying_array.__local_path, a.__underlying_array.__item_num_in_one_file, "
                  "a.__underlying_array.__item_size, k)"],
         modifies_ghost=FGHOST, props=["C19"])


# =====================================================================================================================
# C20  BytesShelf (write-back shelf over a dbm handle) and DBMDict, within one open session (D3: the handle is a dict)
# =====================================================================================================================
BSM = "data_persistence/bytes_shelf.py:"
BS = BSM + "BytesShelf"
BST = TObj(BS)
klass(BS, fields=dict(dict=BB, _protocol=TInt, writeback=TBool, cache=BB))
_vpk, _vunpk = externals.pickle_fns(TBytes)
pickled_v = specfn("pickled_v", [TBytes], TBytes, py=lambda b: _pickle.dumps(b))
unpickled_v = specfn("unpickled_v", [TBytes], TBytes, py=lambda b: _pickle.loads(b))
pickled_v.decl, unpickled_v.decl = _vpk, _vunpk
_vb = z3.Const("pv_b", BYTES)
axiom("P1_v", [_vb], _vunpk(_vpk(_vb)) == _vb, patterns=[_vpk(_vb)], auto=True, note="P1: pickle round trip of a byte string (Pickler/Unpickler over BytesIO)")


@external("io.BytesIO", "B6: io.BytesIO holds the bytes written to / given to it")
def _bytesio(E, a, kw, fr, node):
    return E.alloc(("ext", "bytesio", (E.to_sv(a[0], TBytes) if a else SV(z3.Empty(BYTES), TBytes),)))


@external("bytesio.getvalue", "B6")
def _bio_get(E, a, kw, fr, node):
    return E.cell(a[0])[2][0]


@external("pickle.Unpickler", "P1: Unpickler(f).load() is pickle.loads of f's contents")
def _unpickler(E, a, kw, fr, node):
    return E.alloc(("ext", "unpickler", (a[0],)))


@external("unpickler.load", "P1")
def _unpickler_load(E, a, kw, fr, node):
    f = E.cell(a[0])[2][0]
    return externals.Unpickled(E.cell(f)[2][0])


@external("pickle.Pickler", "P1: Pickler(f, protocol).dump(x) appends pickle.dumps(x) to f")
def _pickler(E, a, kw, fr, node):
    return E.alloc(("ext", "pickler", (a[0],)))


@external("pickler.dump", "P1")
def _pickler_dump(E, a, kw, fr, node):
    f = E.cell(a[0])[2][0]
    data = externals.EXT["pickle.dumps"](E, [a[1]], {}, fr, node)
    cur = E.cell(f)[2][0]
    E.setcell(f, ("ext", "bytesio", (SV(z3.Concat(cur.t, data.t), TBytes),)))
    return None


def shelf_inv(who="self"):
    """every cached value is the unpickled record of a key that is present (the cache never disagrees with the store)"""
    def f(E, env):
        flds = E.cell(_obj(E, env, who))[2]
        def dt(v):
            if isinstance(v, Ref) and E.cell(v)[0] == "pydict" and not E.cell(v)[1]:
                return z3.K(BYTES, OBY.none)          # the empty literal {}
            return E.cell(v)[1].t if isinstance(v, Ref) else v.t
        d, c = _named(E, dt(flds["dict"])), _named(E, dt(flds["cache"]))
        k = z3.Const("sk", BYTES)
        return SV(z3.ForAll([k], Imp(Not(OBY.is_none(z3.Select(c, k))),
                                     And(Not(OBY.is_none(z3.Select(d, k))), OBY.val(z3.Select(c, k)) == _vunpk(OBY.val(z3.Select(d, k))))),
                            patterns=[z3.Select(c, k)]), TBool)
    return f


SINV = [shelf_inv()]
S_SAME = ["self.writeback == old(self.writeback)", "self._protocol == old(self._protocol)"]
contract(BS + ".__getitem__", params=dict(self=BST, key=TBytes), returns=TBytes, modifies=["self"], requires=SINV, locals={"value": TBytes},
         raises={"KeyError": dict(when="key not in self.dict", iff=True)},
         raise_ensures={"KeyError": SINV + S_SAME + ["self.dict == old(self.dict)"]},
         ensures=SINV + S_SAME + ["result == unpickled_v(self.dict[key])", "self.dict == old(self.dict)"], no_runtime=True, props=["C20"])
contract(BS + ".__setitem__", params=dict(self=BST, key=TBytes, value=TBytes), modifies=["self"],
         # without write-back the cache is not updated: it must not hold a different value for this key (sync re-stores cached values)
         requires=SINV + ["self.writeback or key not in self.cache or self.cache[key] == value"],
         ensures=SINV + S_SAME + ["dmap(self.dict) == dput(old(self.dict), key, pickled_v(value))",
                                  "dkeys(self.dict) == (dkeys(old(self.dict)) if key in old(self.dict) else dkeys(old(self.dict)) + [key])",
                                  "implies(not old(self.writeback), self.cache == old(self.cache))",
                                  "implies(old(self.writeback), dmap(self.cache) == dput(old(self.cache), key, value))"],
         no_runtime=True, props=["C20"])
contract(BS + ".__delitem__", params=dict(self=BST, key=TBytes), modifies=["self"], requires=SINV,
         raises={"KeyError": dict(when="key not in old(self.dict)", iff=True)},
         raise_ensures={"KeyError": SINV + S_SAME + ["self.dict == old(self.dict)"]},
         ensures=SINV + S_SAME + ["dmap(self.dict) == ddel(old(self.dict), key)"], no_runtime=True, props=["C20"])
contract(BS + ".__contains__", params=dict(self=BST, key=TBytes), returns=TBool, ensures=["result == (key in self.dict)"], no_runtime=True, props=["C20"])
contract(BS + ".__len__", params=dict(self=BST), returns=TInt, ensures=["result == len(self.dict)"], no_runtime=True, props=["C20"])
def keys_present(E, env):
    """every key the iteration yields is present in the store (B4, per element, from the dict iteration facts)"""
    r = _named(E, E.list_sv(env["result"]).t)
    d = E.cell(E.cell(env["self"])[2]["dict"])[1].t
    i = z3.Int("ki")
    return SV(z3.ForAll([i], Imp(And(0 <= i, i < Len(r)), Not(OBY.is_none(z3.Select(d, r[i])))), patterns=[nth_pat(r, i)]), TBool)


contract(BS + ".__iter__", params=dict(self=BST), returns=TList(TBytes), ensures=["result == dkeys(self.dict)", keys_present],
         loops={0: dict(invariant=["result == dkeys(self.dict)[:it]", "n_iter == len(dkeys(self.dict))", keys_present])},
         no_runtime=True, props=["C20"])
contract(BS + ".get", params=dict(self=BST, key=TBytes, default=TBytes), returns=TBytes, modifies=["self"], requires=SINV,
         ensures=SINV + S_SAME + ["result == (unpickled_v(self.dict[key]) if key in self.dict else default)", "self.dict == old(self.dict)"],
         no_runtime=True, props=["C20"])


def shelf_view_same(E, env):
    """same keys in the same order, every record unpickles to the same value (the bytes of a record may have been re-pickled)"""
    pre_env, pre_heap, pre_ghost = E.old_stack[-1]
    dn = E.cell(E.cell(env["self"])[2]["dict"])[1]
    do = pre_heap[pre_heap[pre_env["self"].cid][2]["dict"].cid][1]
    k = z3.Const("sk", BYTES)
    n_, o_ = _named(E, dn.t), do.t
    return SV(And(E.dkeys(dn) == E.dkeys(do),
                  z3.ForAll([k], And(OBY.is_none(z3.Select(n_, k)) == OBY.is_none(z3.Select(o_, k)),
                                     Imp(Not(OBY.is_none(z3.Select(o_, k))),
                                         _vunpk(OBY.val(z3.Select(n_, k))) == _vunpk(OBY.val(z3.Select(o_, k))))),
                            patterns=[z3.Select(n_, k)])), TBool)


contract(BS + ".sync", params=dict(self=BST), modifies=["self"], requires=SINV,
         ensures=SINV + S_SAME + [shelf_view_same], no_runtime=True, props=["C20"],
         loops={0: dict(invariant=SINV + NOFX + ["not self.writeback", "self._protocol == old(self._protocol)", shelf_view_same,
                                                "self.cache == old(self.cache)"])}, modifies_ghost=["fh_pos"])
# collections.abc.MutableMapping.clear / popitem as documented (B5), restated as ghost code over __iter__/__getitem__/__delitem__
contract(BS + ".clear", params=dict(self=BST), modifies=["self"], requires=SINV,
         body="""def clear(self):
    try:
        while True:
            it = iter(self)
            try:
                key = next(it)
            except StopIteration:
                raise KeyError
            value = self[key]
            del self[key]
    except KeyError:
        pass
""",
         ghost_scope="data_persistence/bytes_shelf.py", locals={"value": TBytes},
         loops={0: dict(invariant=SINV + S_SAME + NOFX)}, modifies_ghost=["fh_pos"],
         ensures=SINV + S_SAME + ["len(self.dict) == 0"], no_runtime=True, props=["C20"])

# ---- DBMDict: the public wrapper delegates to its shelf; non-bytes values are refused without effect ----------------------------
DBM = PDM + "DBMDict"
klass(DBM, fields={"_DBMDict__file_path": TStr, "_DBMDict__closed": TBool, "_DBMDict__shelf": BST})
DBMT = TObj(DBM)
SH = "self.__shelf"
D_INV = [shelf_inv("self>_DBMDict__shelf")]
D_SAME = ["%s.writeback == old(%s.writeback)" % (SH, SH), "self.__file_path == old(self.__file_path)", "self.__closed == old(self.__closed)"]
contract(DBM + ".__getitem__", params=dict(self=DBMT, key=TBytes), returns=TBytes, modifies=["self"], requires=D_INV,
         raises={"KeyError": dict(when="key not in %s.dict" % SH, iff=True)},
         raise_ensures={"KeyError": D_INV + D_SAME + ["%s.dict == old(%s.dict)" % (SH, SH)]},
         ensures=D_INV + D_SAME + ["result == unpickled_v(%s.dict[key])" % SH, "%s.dict == old(%s.dict)" % (SH, SH)],
         no_runtime=True, props=["C20"])
contract(DBM + ".__setitem__", params=dict(self=DBMT, key=TBytes, value=TBytes), modifies=["self"],
         requires=D_INV + ["%s.writeback" % SH],
         ensures=D_INV + D_SAME + ["dmap(%s.dict) == dput(old(%s.dict), key, pickled_v(value))" % (SH, SH)], no_runtime=True, props=["C20"])
contract(DBM + ".__setitem__#notbytes", params=dict(self=DBMT, key=TBytes, value=TInt), requires=D_INV,
         raises={"TypeError": dict(when="True", iff=True)}, raise_ensures={"TypeError": D_INV + D_SAME + ["%s.dict == old(%s.dict)" % (SH, SH)]},
         no_runtime=True, props=["C20"])
contract(DBM + ".__delitem__", params=dict(self=DBMT, key=TBytes), modifies=["self"], requires=D_INV,
         raises={"KeyError": dict(when="key not in old(%s.dict)" % SH, iff=True)},
         raise_ensures={"KeyError": D_INV + D_SAME + ["%s.dict == old(%s.dict)" % (SH, SH)]},
         ensures=D_INV + D_SAME + ["dmap(%s.dict) == ddel(old(%s.dict), key)" % (SH, SH)], no_runtime=True, props=["C20"])
contract(DBM + ".__contains__", params=dict(self=DBMT, key=TBytes), returns=TBool, ensures=["result == (key in %s.dict)" % SH],
         no_runtime=True, props=["C20"])
contract(DBM + ".__len__", params=dict(self=DBMT), returns=TInt, ensures=["result == len(%s.dict)" % SH], no_runtime=True, props=["C20"])
contract(DBM + ".clear", params=dict(self=DBMT), modifies=["self"], requires=D_INV,
         ensures=D_INV + D_SAME + ["len(%s.dict) == 0" % SH], no_runtime=True, modifies_ghost=["fh_pos"], props=["C20"])
# one session: what was stored is what is read, a deleted key is gone, clear empties (client lemmas over the contracts)
GD = "data_persistence/persistent_dict.py"
contract("ghost:dbm_set_get", params=dict(d=DBMT, k=TBytes, v=TBytes, k2=TBytes), returns=TBytes, ghost_scope=GD,
         body="def dbm_set_get(d, k, v, k2):\n    d[k] = v\n    return d[k2]\n",
         requires=[shelf_inv("d>_DBMDict__shelf"), "d.__shelf.writeback", "k2 == k or k2 in d.__shelf.dict"], modifies=["d"],
         ensures=["result == (v if k2 == k else unpickled_v(old(d.__shelf.dict)[k2]))"], props=["C20"])
contract("ghost:dbm_del_contains", params=dict(d=DBMT, k=TBytes, k2=TBytes), returns=TBool, ghost_scope=GD,
         body="def dbm_del_contains(d, k, k2):\n    del d[k]\n    return k2 in d\n",
         requires=[shelf_inv("d>_DBMDict__shelf"), "k in d.__shelf.dict"], modifies=["d"],
         ensures=["result == (k2 != k and k2 in old(d.__shelf.dict))"], props=["C20"])
contract("ghost:dbm_clear_len", params=dict(d=DBMT), returns=TInt, ghost_scope=GD,
         body="def dbm_clear_len(d):\n    d.clear()\n    return len(d)\n",
         requires=[shelf_inv("d>_DBMDict__shelf")], modifies=["d"], ensures=["result == 0"], modifies_ghost=["fh_pos"], props=["C20"])


# ---- membership (collections.abc.Sequence.__contains__ as documented, B5) and release -----------------------------------------------
contract(SPF + ".__contains__", params=dict(self=SPFT, value=TBytes), returns=TBool, modifies=["self"], requires=U_AINV,
         body="""def __contains__(self, value):
    for v in self:
        if v is value or v == value:
            return True
    return False
""",
         ghost_scope=GA,
         ensures=U_RO + ["result == (value in %s)" % (U_APK % ("0", "1", ULEN))],
         loops={0: dict(invariant=["not (value in dkeys_prefix)"] if False else [
             (lambda E, env: SV(z3.Not(z3.Contains(z3.Extract(E.list_sv(env["_items"]).t, 0, z3_int(env["it"])),
                                                   z3.Unit(E.to_sv(env["value"], TBytes).t))), TBool))])},
         modifies_ghost=FGHOST, no_runtime=True, props=["C19"])
