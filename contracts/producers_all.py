"""C03 (well-formedness established by the producers) / C04 (token = PRF outputs): `_Gen` and `_Trap` of the schemes whose
`_Enc` / `_Search` are not under contract -- the key has the configured length; the token components are PRF outputs under
the key (of the lengths the wire format expects), so the round-trip lemmas of structures_all.py apply to what they produce."""
from pyvc.api import *
from pyvc.engine import ClassRef
from contracts.sse_common import *
import contracts.structures_all as SA

PRF_INV = lambda f, key_len, out_len: ["self.%s.key_length == %s" % (f, key_len), "self.%s.output_length == %s" % (f, out_len),
                                       "self.%s.message_length == -1" % f, "self.%s.hash_func_name == 'sha1'" % f]


def scheme(d, cfgname, schname, ints, prfs, key_field_len):
    CFG = d + "/config.py:" + cfgname
    SCH = d + "/construction.py:" + schname
    fields = {f: TInt for f in ints}
    inv = ["self.%s >= 0" % f for f in ints]
    for f, (kl, ol) in prfs.items():
        fields[f] = PRFT
        inv += PRF_INV(f, kl.replace("config.", "self."), ol.replace("config.", "self."))
    klass(CFG, fields=fields, invariant=inv)      # replaces the int-only declaration of structures_all
    klass(SCH, fields=dict(config=TObj(CFG)))
    return CFG, SCH


# ---- CJJ14.PiPtr / Pi2Lev: K1 = F(K, 1 || w), K2 = F(K, 2 || w) -------------------------------------------------------------
for d, cfgname, schname, keycls, tokcls in (("schemes/CJJ14/PiPtr", "PiPtrConfig", "PiPtr", "PiPtrKey", "PiPtrToken"),
                                            ("schemes/CJJ14/Pi2Lev", "Pi2LevConfig", "Pi2Lev", "Pi2LevKey", "Pi2LevToken")):
    CFG, SCH = scheme(d, cfgname, schname, ["param_lambda", "prf_f_output_length"],
                      {"prf_f": ("config.param_lambda", "config.prf_f_output_length")}, "param_lambda")
    KT, TT = TObj(d + "/structures.py:" + keycls), TObj(d + "/structures.py:" + tokcls)
    contract(SCH + "._Gen", modifies_ghost=["rng_n"], params=dict(self=TObj(SCH)), returns=KT, ensures=["len(result.K) == self.config.param_lambda", "result.K == draw(old(rng_n))", "rng_n == old(rng_n) + 1"],
             no_runtime=True, props=["C03", "C04"])
    contract(SCH + "._Trap", params=dict(self=TObj(SCH), K=KT, keyword=TBytes), returns=TT,
             requires=["len(K.K) == self.config.param_lambda", "self.config.prf_f_output_length > 0"],
             ensures=["result.K1 == prf('sha1', self.config.prf_f_output_length, K.K, b'\\x01' + keyword)",
                      "result.K2 == prf('sha1', self.config.prf_f_output_length, K.K, b'\\x02' + keyword)",
                      "len(result.K1) == self.config.prf_f_output_length", "len(result.K2) == self.config.prf_f_output_length"],
             no_runtime=True, props=["C03", "C04", "C07"])

# ---- CT14.Pi: K0 || K1 = F(K, w), split at param_k ------------------------------------------------------------------------------
d = "schemes/CT14/Pi"
CFG, SCH = scheme(d, "PiConfig", "Pi", ["param_k", "param_k_prime", "param_l"],
                  {"prf_f": ("config.param_k", "config.param_k + config.param_k_prime"), "prf_f_prime": ("config.param_k", "config.param_l")},
                  "param_k")
KT, TT = TObj(d + "/structures.py:PiKey"), TObj(d + "/structures.py:PiToken")
OUT = "self.config.param_k + self.config.param_k_prime"
contract(SCH + "._Gen", modifies_ghost=["rng_n"], params=dict(self=TObj(SCH)), returns=KT, ensures=["len(result.K) == self.config.param_k", "result.K == draw(old(rng_n))", "rng_n == old(rng_n) + 1"], no_runtime=True, props=["C03", "C04"])
contract(SCH + "._Trap", params=dict(self=TObj(SCH), K=KT, keyword=TBytes), returns=TT,
         requires=["len(K.K) == self.config.param_k", OUT + " > 0"],
         ensures=["result.K0 == prf('sha1', %s, K.K, keyword)[:self.config.param_k]" % OUT,
                  "result.K1 == prf('sha1', %s, K.K, keyword)[self.config.param_k:]" % OUT,
                  "len(result.K0) == self.config.param_k", "len(result.K1) == self.config.param_k_prime"],
         no_runtime=True, props=["C03", "C04", "C07"])

# ---- ANSS16.Scheme3: (li, Ki, li', Ki') = split(F(K, w)) ------------------------------------------------------------------------
d = "schemes/ANSS16/Scheme3"
CFG, SCH = scheme(d, "PiConfig", "Pi", ["param_lambda", "param_k", "param_k_prime", "param_l", "param_l_prime"],
                  {"prf": ("config.prf.key_length", "config.param_k + config.param_k_prime + config.param_l + config.param_l_prime")},
                  "param_lambda")
KT, TT = TObj(d + "/structures.py:PiKey"), TObj(d + "/structures.py:PiToken")
OUT = "self.config.param_k + self.config.param_k_prime + self.config.param_l + self.config.param_l_prime"
contract(SCH + "._Gen", modifies_ghost=["rng_n"], params=dict(self=TObj(SCH)), returns=KT, ensures=["len(result.K) == self.config.param_lambda", "result.K == draw(old(rng_n))", "rng_n == old(rng_n) + 1"], no_runtime=True, props=["C03", "C04"])
contract(SCH + "._Trap", params=dict(self=TObj(SCH), K=KT, keyword=TBytes), returns=TT,
         requires=["self.config.prf.key_length == -1 or len(K.K) == self.config.prf.key_length", OUT + " > 0"],
         ensures=["result.li + result.Ki + result.li_prime + result.Ki_prime == prf('sha1', %s, K.K, keyword)" % OUT,
                  "len(result.li) == self.config.param_l", "len(result.Ki) == self.config.param_k",
                  "len(result.li_prime) == self.config.param_l_prime", "len(result.Ki_prime) == self.config.param_k_prime"],
         lemmas=["psum_full", "psum_nonneg", "pieces_join"], depth=6, no_runtime=True, props=["C03", "C04", "C07"])

# ---- what the producers make survives the wire: deserialize(serialize(_Trap(K, w))) is accepted and equal ---------------------------
for d, schname, tokcls, fields, extra in (
        ("schemes/CJJ14/PiPtr", "PiPtr", "PiPtrToken", ["K1", "K2"], ["sse.config.prf_f_output_length == sse.config.param_lambda", "sse.config.param_lambda > 0"]),
        ("schemes/CJJ14/Pi2Lev", "Pi2Lev", "Pi2LevToken", ["K1", "K2"], ["sse.config.prf_f_output_length == sse.config.param_lambda", "sse.config.param_lambda > 0"]),
        ("schemes/CT14/Pi", "Pi", "PiToken", ["K0", "K1"], ["sse.config.param_k + sse.config.param_k_prime > 0"]),
        ("schemes/ANSS16/Scheme3", "Pi", "PiToken", ["li", "Ki", "li_prime", "Ki_prime"],
         ["sse.config.param_k + sse.config.param_k_prime + sse.config.param_l + sse.config.param_l_prime > 0",
          "sse.config.prf.key_length == -1 or len(key.K) == sse.config.prf.key_length"])):
    SCH = d + "/construction.py:" + schname
    TT = TObj(d + "/structures.py:" + tokcls)
    KT = TObj(d + "/structures.py:" + [k for k in CLASSES if k.startswith(d + "/structures.py:") and k.endswith("Key")][0].split(":")[1])
    n = "%s_token_wire" % d.split("/")[-2].lower() + "_" + d.split("/")[-1].lower()
    keylen = {"PiPtr": "param_lambda", "Pi2Lev": "param_lambda"}.get(schname, "param_k" if "CT14" in d else "param_lambda")
    contract("ghost:" + n, params=dict(sse=TObj(SCH), key=KT, keyword=TBytes), returns=TT, ghost_scope=d + "/construction.py",
             body="def %s(sse, key, keyword):\n    tk = sse._Trap(key, keyword)\n    return %s.deserialize(tk.serialize(), sse.config)\n" % (n, tokcls),
             requires=extra + (["len(key.K) == sse.config.%s" % keylen] if "ANSS16" not in d else []),
             ensures=["result.%s == tk.%s" % (f, f) for f in fields], props=["C03"])
