"""Replay a stored counterexample on the real code:  python -m pyvc.replay <replay.json>"""
import sys, os, json
VERIF = os.path.dirname(os.path.dirname(os.path.abspath(__file__)))
sys.path.insert(0, VERIF)


def main():
    path = sys.argv[1]
    if not os.path.isabs(path):
        path = os.path.join(VERIF, path)
    data = json.load(open(path))
    print("property:", data["property"], " function:", data["function"])
    for o in data.get("failed_obligations", []):
        print("failed obligation:", o["name"], "(line %s)" % o["line"], "-", o["what"])
        print("   solver:", o["solver"])
    w = data.get("witness")
    if not w:
        print("no failing input stored (no-failing-input-found): the obligation above is not provable from the current source")
        sys.exit(1)
    from pyvc import check
    import importlib
    for m in data["modules"]:
        importlib.import_module("contracts." + m)
    if data["function"].startswith("custom:"):
        res = [r for r in check.run_rt(data["modules"], [], custom=[w["custom"]]) if r["verdict"] == "violation"]
        check.cleanup()
        if not res:
            print("bounded check %s no longer reports a violation" % data["function"])
            sys.exit(0)
        r = res[0]
        print("bounded check:", data["function"])
        print("input:", json.dumps(r.get("input")))
        print("verdict: violation -", r.get("clause", ""))
        sys.exit(1)
    res = check.run_rt(data["modules"], [{"key": data["function"], "inputs": [w["input"]]}])
    check.cleanup()
    r = res[0]
    print("input:", json.dumps(r["input"]))
    print("observed:", json.dumps(r.get("observed")))
    print("verdict:", r["verdict"], "-", r.get("clause", ""))
    sys.exit(1 if r["verdict"] == "violation" else 0)


main()
