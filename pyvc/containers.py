"""Methods of builtin containers and values."""
import ast, z3
from .ty import *
from .engine import *
from . import speclib as L
from .builtins_ import get_subscript, set_subscript, eq_term, pyslice, norm_index, contains_term


def container_method(E, recv, c, name, args, kwargs, fr, node):
    line = getattr(node, "lineno", 0)
    kind = c[0]
    if kind in ("pylist", "seq"):
        if name in ("append", "extend", "pop", "sort", "insert", "clear", "reverse", "remove") and E.is_borrowed(recv):
            E.frame_violation(recv, node, "list.%s" % name)
        if name == "append":
            if kind == "pylist":
                E.setcell(recv, ("pylist", c[1] + [args[0]]))
            else:
                sv = c[1]
                a0 = args[0]
                if isinstance(a0, SV) and isinstance(a0.ty, TOpt) and a0.ty.elem == sv.ty.elem and not isinstance(sv.ty.elem, TOpt):
                    # an optional value that is known not to be None on this path (after `if x is None: ...`)
                    so = sort(a0.ty)
                    if not E.entails(so.is_some(a0.t)):
                        raise Unsupported("append of a possibly-None value to a list of %r" % (sv.ty.elem,))
                    a0 = SV(so.val(a0.t), sv.ty.elem)
                x = E.to_sv(a0, sv.ty.elem)
                E.setcell(recv, ("seq", SV(z3.Concat(sv.t, z3.Unit(x.t)), sv.ty)))
            return None
        if name == "extend":
            o = args[0]
            if kind == "pylist" and isinstance(o, Ref) and E.cell(o)[0] == "pylist":
                E.setcell(recv, ("pylist", c[1] + list(E.cell(o)[1])))
                return None
            if kind == "pylist" and isinstance(o, (tuple, list)):
                E.setcell(recv, ("pylist", c[1] + list(o)))
                return None
            if kind == "pylist" and not c[1]:
                so = E.list_sv(o)
                E.setcell(recv, ("seq", so))
                return None
            sv = E.list_sv(recv)
            so = E.list_sv(o, sv.ty.elem)
            if so.ty != sv.ty:
                raise Unsupported("extend with %r onto %r" % (so.ty, sv.ty))
            E.setcell(recv, ("seq", SV(z3.Concat(sv.t, so.t), sv.ty)))
            return None
        if name == "pop":
            if kind == "pylist" and (not args or isinstance(args[0], int)):
                items = list(c[1])
                if not items:
                    raise PyRaise("IndexError", line)
                x = items.pop(*args)
                E.setcell(recv, ("pylist", items))
                return x
            sv = E.list_sv(recv)
            n = z3.Length(sv.t)
            E.may_raise("IndexError", n == 0, line, "pop from empty list")
            if args:
                it = z3_int(args[0])
                E.may_raise("IndexError", z3.Or(it >= n, it < -n), line, "pop index out of range")
                k = z3.simplify(norm_index(args[0], n))
            else:
                k = n - 1
            x = E.unbox(SV(sv.t[k], sv.ty.elem))
            E.setcell(recv, ("seq", SV(z3.Concat(z3.Extract(sv.t, 0, k), z3.Extract(sv.t, k + 1, n - k - 1)), sv.ty)))
            return x
        if name == "clear":
            E.setcell(recv, ("pylist", []))
            return None
        if name == "copy":
            return E.alloc(c)
        if name == "index":
            sv = E.list_sv(recv)
            x = E.to_sv(args[0], sv.ty.elem)
            E.may_raise("ValueError", z3.Not(z3.Contains(sv.t, z3.Unit(x.t))), line)
            return SV(z3.IndexOf(sv.t, z3.Unit(x.t), 0), TInt)
        if name == "sort":
            from .externals import sort_list
            return sort_list(E, recv, kwargs.get("key"), fr, node)
        if name == "__len__":
            return len(c[1]) if kind == "pylist" else SV(z3.Length(c[1].t), TInt)
        raise Unsupported("list.%s" % name)
    if kind == "bytearray":
        raise Unsupported("bytearray.%s" % name)
    if kind in ("dict", "pydict"):
        return dict_method(E, recv, c, name, args, kwargs, fr, node)
    if kind == "iter":
        if name == "__next__":
            return iter_next(E, recv, node)
    if kind == "set":
        return set_method(E, recv, c, name, args, kwargs, fr, node)
    if kind == "slice":
        if name == "indices":
            return slice_indices(E, c[1], args[0], node)
        raise PyRaise("AttributeError", line)
    if kind == "file":
        from .files import file_method
        return file_method(E, recv, c, name, args, kwargs, fr, node)
    if kind == "ext":
        from .externals import ext_method
        return ext_method(E, recv, c, name, args, kwargs, fr, node)
    raise Unsupported("method %s on %s cell" % (name, kind))


def iter_next(E, recv, node, default=NotImplemented):
    cc = E.cell(recv)[1]
    src, pos = cc[0], cc[1]
    n = z3.Length(src.t)
    line = getattr(node, "lineno", 0)
    if default is NotImplemented:
        E.may_raise("StopIteration", pos >= n, line, "next() on an exhausted iterator")
    x = E.unbox(SV(src.t[pos], src.ty.elem))
    if len(cc) > 2 and cc[2]:
        for f in cc[2](pos):
            E.assume(f)
    E.setcell(recv, ("iter", (src, z3.simplify(pos + 1)) + tuple(cc[2:])))
    return x


def slice_indices(E, sl, length, node):
    """slice.indices(n) with python's clamping; components may be None, ints or optional symbolic ints."""
    lo, hi, step = sl
    n = z3_int(length)
    OI = sort(TOpt(TInt))

    def isnone(x):
        if x is None:
            return z3.BoolVal(True)
        if isinstance(x, SV) and isinstance(x.ty, TOpt):
            return OI.is_none(x.t)
        return z3.BoolVal(False)

    def val(x):
        if isinstance(x, SV) and isinstance(x.ty, TOpt):
            return OI.val(x.t)
        return z3_int(x)
    if step is None:
        st = z3.IntVal(1)
    else:
        st = z3.simplify(z3.If(isnone(step), z3.IntVal(1), val(step)))
    E.may_raise("ValueError", st == 0, getattr(node, "lineno", 0), "slice step cannot be zero")
    if z3.is_int_value(st):
        pos = st.as_long() > 0
    elif E.spec_mode:
        pos = None
    else:
        pos = E.fork(st > 0)

    def clamp(x, lower, upper, dflt):
        if x is None:
            return dflt
        t = val(x)
        r = z3.If(t < 0, z3.If(n + t < lower, lower, n + t), z3.If(t > upper, upper, t))
        return z3.simplify(z3.If(isnone(x), dflt, r))
    p_start = clamp(lo, z3.IntVal(0), n, z3.IntVal(0))
    p_stop = clamp(hi, z3.IntVal(0), n, n)
    n_start = clamp(lo, z3.IntVal(-1), n - 1, n - 1)
    n_stop = clamp(hi, z3.IntVal(-1), n - 1, z3.IntVal(-1))
    if pos is True:
        start, stop = p_start, p_stop
    elif pos is False:
        start, stop = n_start, n_stop
    else:
        start, stop = z3.If(st > 0, p_start, n_start), z3.If(st > 0, p_stop, n_stop)
    stv = st.as_long() if z3.is_int_value(st) else SV(st, TInt)
    return (SV(z3.simplify(start), TInt), SV(z3.simplify(stop), TInt), stv)


def dict_method(E, recv, c, name, args, kwargs, fr, node):
    line = getattr(node, "lineno", 0)
    if c[0] == "pydict":
        d = c[1]
        if name == "get":
            k = args[0]
            if is_conc(k) and not isinstance(k, Ref):
                return d.get(k, args[1] if len(args) > 1 else None)
            if len(d) <= 16 and all(is_conc(kk) and not isinstance(kk, Ref) for kk in d):
                for kk, v in d.items():
                    if E.fork(eq_term(E, k, kk, node, fr)):
                        return v
                return args[1] if len(args) > 1 else None
            raise Unsupported("symbolic key into literal dict")
        if name == "keys":
            return E.new_list(list(d.keys()))
        if name == "values":
            return E.new_list(list(d.values()))
        if name == "items":
            return E.new_list([(k, v) for k, v in d.items()])
        if name == "update":
            o = args[0]
            if isinstance(o, Ref) and E.cell(o)[0] == "pydict":
                nd = dict(d)
                nd.update(E.cell(o)[1])
                E.setcell(recv, ("pydict", nd))
                return None
        if name == "pop":
            if args[0] in d:
                nd = dict(d)
                v = nd.pop(args[0])
                E.setcell(recv, ("pydict", nd))
                return v
            if len(args) > 1:
                return args[1]
            raise PyRaise("KeyError", line)
        if name == "copy":
            return E.alloc(("pydict", dict(d)))
        if name == "clear":
            E.setcell(recv, ("pydict", {}))
            return None
        raise Unsupported("dict.%s on literal dict" % name)
    d = c[1]
    ty = d.ty
    s = sort(TOpt(ty.val))
    if name in ("pop", "update", "clear", "setdefault", "popitem") and E.is_borrowed(recv):
        E.frame_violation(recv, node, "dict.%s" % name)
    if name == "get":
        k = E.to_sv(args[0], ty.key)
        cellv = z3.Select(d.t, k.t)
        if len(args) > 1 and args[1] is not None:
            dflt = E.to_sv(args[1], ty.val)
            return E.unbox(SV(z3.If(s.is_none(cellv), dflt.t, s.val(cellv)), ty.val))
        if isinstance(ty.val, (TList, TDict)):
            raise Unsupported("dict.get of container values")
        return SV(cellv, TOpt(ty.val))
    if name == "keys":
        ks = E.dkeys(d)
        if not E.spec_mode:
            # B4: the key sequence of a dict lists present keys (the same fact the dict iteration gives per element)
            i = z3.Int("dk_i")
            E.assume(z3.ForAll([i], z3.Implies(z3.And(0 <= i, i < z3.Length(ks)), z3.Not(s.is_none(z3.Select(d.t, ks[i])))),
                               patterns=[nth_pat(ks, i)]))
        return E.new_symlist(SV(ks, TList(ty.key)))
    if name == "values":
        return E.alloc(("dictvalues", d))
    if name == "items":
        return E.alloc(("dictitems", d))
    if name == "clear":
        E.setcell(recv, ("dict", L.empty_dict(E, ty)))
        return None
    if name == "pop":
        k = E.to_sv(args[0], ty.key)
        cellv = z3.Select(d.t, k.t)
        if len(args) > 1:
            raise Unsupported("dict.pop with default")
        E.may_raise("KeyError", s.is_none(cellv), line)
        E.setcell(recv, ("dict", L.dict_delete(E, d, k)))
        return E.unbox(SV(s.val(cellv), ty.val))
    if name == "__len__":
        return SV(z3.Length(E.dkeys(d)), TInt)
    if name == "__contains__":
        return SV(contains_term(E, args[0], d, node, fr), TBool)
    if name in ("close", "sync") and E.catches("AttributeError"):
        raise PyRaise("AttributeError", line)     # a plain dict has no such method
    raise Unsupported("dict.%s" % name)


def set_method(E, recv, c, name, args, kwargs, fr, node):
    raise Unsupported("set.%s" % name)


def value_method(E, recv, name, args, kwargs, fr, node):
    line = getattr(node, "lineno", 0)
    if isinstance(recv, SV) and isinstance(recv.ty, TOpt) and recv.ty.elem == TFile:
        so = sort(recv.ty)
        E.may_raise("AttributeError", so.is_none(recv.t), line, "method %s of None" % name)
        recv = SV(so.val(recv.t), TFile)
    if isinstance(recv, SV) and recv.ty == TFile:
        from .files import file_method
        return file_method(E, recv, name, args, kwargs, fr, node)
    if isinstance(recv, bool):
        recv = int(recv)
    if is_intlike(recv):
        if name == "bit_length":
            if isinstance(recv, int):
                return recv.bit_length()
            t = z3_int(recv)
            return SV(L.bitlen(z3.If(t < 0, -t, t)), TInt)
        if name == "to_bytes":
            w = args[0] if args else kwargs["length"]
            order = args[1] if len(args) > 1 else kwargs.get("byteorder", "big")
            if order != "big":
                raise Unsupported("little endian")
            if isinstance(recv, int) and isinstance(w, int):
                try:
                    return recv.to_bytes(w, "big")
                except OverflowError:
                    raise PyRaise("OverflowError", line)
                except ValueError:
                    raise PyRaise("ValueError", line)
            x, wt = z3_int(recv), z3_int(w)
            E.may_raise("ValueError", wt < 0, line, "to_bytes length must be non-negative")
            E.may_raise("OverflowError", z3.Or(x < 0, x >= L.pow2(8 * wt)), line, "int too big to convert")
            return SV(L.i2b(x, wt), TBytes)
        if name == "__index__":
            return recv
    if is_byteslike(recv):
        if name == "join":
            if isinstance(recv, (bytes, bytearray)) and len(recv) == 0 and isinstance(args[0], Ref) and E.cell(args[0])[0] == "pylist" \
                    and 0 < len(E.cell(args[0])[1]) <= 16:
                # b"".join([a, b, c]) of a list written out in the source is the concatenation, no recursion needed
                parts = [E.to_sv(x, TBytes).t for x in E.cell(args[0])[1]]
                return SV(parts[0] if len(parts) == 1 else z3.Concat(*parts), TBytes)
            sv = E.list_sv(args[0], TBytes)
            if isinstance(recv, (bytes, bytearray)) and len(recv) == 0:
                t = z3.simplify(sv.t)
                if z3.is_app(t) and t.decl().kind() == z3.Z3_OP_SEQ_EXTRACT:
                    # join of a slice xs[a:a+l] is stated over the original list (index form)
                    s0, a0, l0 = t.children()
                    if E.entails(z3.And(a0 >= 0, l0 >= 0)):
                        n0 = z3.Length(s0)
                        hi = z3.simplify(z3.If(a0 + l0 <= n0, a0 + l0, n0))
                        return SV(L.joinr(s0, a0, z3.If(a0 <= hi, hi, a0)), TBytes)
                return SV(L.join(sv.t), TBytes)
            raise Unsupported("join with separator")
        if name == "hex":
            return SV(hexfn()(lift(recv).t), TStr)
        if name == "decode":
            E.may_raise("UnicodeDecodeError", E.fresh("undecodable", TBool).t, line)
            return SV(decodefn()(lift(recv).t), TStr)
        if name == "__len__":
            return SV(z3.Length(lift(recv).t), TInt)
    if isinstance(recv, str):
        if name == "lower" and not args:
            return recv.lower()
        if name == "format":
            return Opaque("format")
        if name == "join":
            return Opaque("join")
        if name in ("startswith", "endswith", "upper", "strip", "split") and all(is_conc(a) for a in args):
            return getattr(recv, name)(*args)
    if isinstance(recv, SV) and recv.ty == TStr:
        if name == "lower":
            return SV(lowerfn()(recv.t), TStr)
        if name == "format":
            return Opaque("format")
    if isinstance(recv, SV) and isinstance(recv.ty, TList):
        r = E.new_symlist(recv)
        return container_method(E, r, E.cell(r), name, args, kwargs, fr, node)
    if isinstance(recv, SV) and isinstance(recv.ty, TDict):
        r = E.alloc(("dict", recv))
        return dict_method(E, r, E.cell(r), name, args, kwargs, fr, node)
    if isinstance(recv, Opaque):
        return Opaque("method")
    if isinstance(recv, ExcVal):
        if name == "args":
            return ()
    raise Unsupported("method %s on %r (line %d)" % (name, recv, line))


_fns = {}


def hexfn():
    if "hex" not in _fns:
        _fns["hex"] = z3.Function("bytes_hex", BYTES, z3.StringSort())
    return _fns["hex"]


def decodefn():
    if "dec" not in _fns:
        _fns["dec"] = z3.Function("utf8_decode", BYTES, z3.StringSort())
    return _fns["dec"]


def lowerfn():
    if "low" not in _fns:
        _fns["low"] = z3.Function("str_lower", z3.StringSort(), z3.StringSort())
    return _fns["low"]
