"""Access to the real source text under /repo: modules, definitions, module-level names."""
import ast, os, hashlib


class ModuleInfo:
    def __init__(self, root, rel):
        self.root, self.rel = root, rel
        self.path = os.path.join(root, rel)
        with open(self.path, "rb") as f:
            raw = f.read()
        self.source = raw.decode("utf-8")
        self.tree = ast.parse(self.source, filename=self.path)
        self.names = {}
        self._scan()

    def _resolve_mod(self, dotted, level=0):
        base = ""
        if level:
            parts = os.path.dirname(self.rel).split(os.sep)
            parts = parts[:len(parts) - (level - 1)] if level > 1 else parts
            base = os.sep.join(p for p in parts if p)
        rel = os.path.join(base, *dotted.split(".")) if dotted else base
        for cand in (rel + ".py", os.path.join(rel, "__init__.py")):
            if os.path.isfile(os.path.join(self.root, cand)):
                return cand
        return None

    def _scan(self):
        for node in self.tree.body:
            if isinstance(node, ast.Import):
                for a in node.names:
                    rel = self._resolve_mod(a.name)
                    top = (a.asname or a.name.split(".")[0])
                    if a.asname:
                        self.names[top] = ("module", rel, a.name)
                    else:
                        self.names[top] = ("modroot", a.name.split(".")[0], None)
            elif isinstance(node, ast.ImportFrom):
                rel = self._resolve_mod(node.module or "", node.level)
                for a in node.names:
                    nm = a.asname or a.name
                    if rel is None:
                        self.names[nm] = ("ext", (node.module or "") + "." + a.name, None)
                    else:
                        # could itself be a submodule
                        sub = self._resolve_mod(((node.module + ".") if node.module else "") + a.name, node.level)
                        if sub and not self._has_top(rel, a.name):
                            self.names[nm] = ("module", sub, a.name)
                        else:
                            self.names[nm] = ("from", rel, a.name)
            elif isinstance(node, (ast.FunctionDef, ast.AsyncFunctionDef)):
                self.names[node.name] = ("func", node, None)
            elif isinstance(node, ast.ClassDef):
                self.names[node.name] = ("class", node, None)
            elif isinstance(node, ast.Assign):
                for t in node.targets:
                    if isinstance(t, ast.Name):
                        self.names[t.id] = ("assign", node.value, None)
            elif isinstance(node, ast.AnnAssign) and isinstance(node.target, ast.Name) and node.value is not None:
                self.names[node.target.id] = ("assign", node.value, None)

    def _has_top(self, rel, name):
        try:
            m = ModuleInfo.get(self.root, rel)
        except Exception:
            return False
        return name in m.names

    _cache = {}

    @classmethod
    def get(cls, root, rel):
        k = (root, rel)
        if k not in cls._cache:
            cls._cache[k] = None  # cycle guard
            cls._cache[k] = ModuleInfo(root, rel)
        if cls._cache[k] is None:
            raise RuntimeError("import cycle " + rel)
        return cls._cache[k]


class Repo:
    def __init__(self, root):
        self.root = root
        ModuleInfo._cache.clear()

    def module(self, rel):
        return ModuleInfo.get(self.root, rel)

    def find(self, key):
        """key = 'path.py:qual.name' -> (node, module, classnode|None)"""
        rel, qual = key.split("#")[0].split(":")
        m = self.module(rel)
        parts = qual.split(".")
        body, cls = m.tree.body, None
        node = None
        for i, p in enumerate(parts):
            node = None
            for n in body:
                if isinstance(n, (ast.FunctionDef, ast.AsyncFunctionDef, ast.ClassDef)) and n.name == p:
                    node = n  # last definition wins, like python
            if node is None:
                raise KeyError("definition %s not found in %s" % (qual, rel))
            if isinstance(node, ast.ClassDef) and i < len(parts) - 1:
                cls = node
            body = node.body
        return node, m, cls

    def segment(self, key):
        node, m, _ = self.find(key)
        seg = ast.get_source_segment(m.source, node) or ""
        first = min([node.lineno] + [d.lineno for d in getattr(node, "decorator_list", [])])
        return dict(path=m.rel, qualname=key.split("#")[0].split(":")[1], first_line=first, last_line=node.end_lineno,
                    sha256=hashlib.sha256(seg.encode()).hexdigest())
