"""Ownership pass: decides frame contracts of the form "this function mutates nothing reachable from its arguments"
for whole call trees, by abstract interpretation over the AST of the real source (no SMT).

Abstract values are sets of atoms:
    "imm"      numbers, bytes, str, None, bool, tuples of such (cannot be mutated)
    "bor"      something reachable from an argument of the function under contract (borrowed, deep)
    "deep"     freshly allocated, owned all the way down (copy.deepcopy)
    ("loc", site)   an object allocated in this call tree at `site`; heap[site] = atoms of everything stored inside it
Every statement that can mutate an object (item/attribute store or delete, in-place operators, the mutating methods of
list / dict / set / bytearray, the library mutators listed in LIB_MUTATORS) is an obligation
    frame[<function>:<line>]  :  the mutated object is not "bor"
The analysis is flow-sensitive for local variables (join at merges, loops to a fixpoint), flow-insensitive for the heap
summaries, field-insensitive, and resolves method calls by name over every class of the repository that defines the method
(class-hierarchy style), so it over-approximates the run-time behaviour: an obligation it discharges holds for all inputs.
What it assumes (listed in the evidence): library functions other than LIB_MUTATORS do not mutate their arguments;
S3 (no monkey patching); getattr/setattr/eval/exec are not used to mutate (checked syntactically: their presence is reported).
"""
import ast, os
from .repo import Repo

IMM, BOR, DEEP = "imm", "bor", "deep"
# provenance labels (only used when Own.prov is set): where the bytes of a value come from
L_KW, L_ID, L_KEY, L_PROT, L_KEYLESS, L_DEC = (("L", x) for x in ("kw", "id", "key", "prot", "keyless", "dec"))
SRC_DB, SRC_IDS = ("src", "db"), ("src", "ids")


def nonimm(v):
    """the atoms of v that denote mutable objects (labels and "imm" do not)"""
    return {a for a in v if a in (BOR, DEEP) or (isinstance(a, tuple) and a[0] in ("loc", "src", "fn", "super"))}


def is_label(a):
    return isinstance(a, tuple) and a[0] == "L"
MUT_METHODS = {"append", "extend", "insert", "pop", "remove", "clear", "sort", "reverse", "update", "setdefault", "popitem",
               "add", "discard", "difference_update", "intersection_update", "symmetric_difference_update", "__setitem__",
               "__delitem__", "appendleft", "popleft", "extendleft", "rotate", "move_to_end", "subtract"}
LIB_MUTATORS = {"random.shuffle": [0], "shuffle": [0], "heapq.heappush": [0], "heapq.heappop": [0], "heapq.heapify": [0],
                "bisect.insort": [0], "bisect.insort_left": [0], "bisect.insort_right": [0], "setattr": [0], "delattr": [0]}
COPY_SHALLOW = {"list", "dict", "set", "sorted", "tuple", "frozenset", "bytearray", "copy.copy", "copy", "reversed", "enumerate",
                "zip", "iter", "filter", "map", "collections.OrderedDict", "OrderedDict", "collections.deque", "deque",
                "random.sample", "sample", "itertools.chain", "chain", "itertools.accumulate", "defaultdict",
                "collections.defaultdict"}
# library functions whose result is a number / bytes / str / bool (immutable), whatever they are given
PURE_DATA = {"sum", "int", "float", "abs", "ord", "chr", "bytes", "str", "round", "divmod", "pow", "repr", "hex", "bin", "format"}
PURE_IMM = {"len", "sum", "int", "float", "abs", "ord", "chr", "bool", "bytes", "str", "hash", "isinstance", "issubclass", "round",
            "divmod", "pow", "repr", "id", "callable", "hasattr", "print", "any", "all", "type", "hex", "bin", "format", "object",
            "ValueError", "TypeError", "KeyError", "IndexError", "RuntimeError", "NotImplementedError", "AttributeError", "Exception",
            "FileExistsError", "FileNotFoundError", "OverflowError", "ZeroDivisionError", "StopIteration", "AssertionError", "OSError"}
PURE_IMM_PREFIX = ("math.", "os.", "hashlib.", "hmac.", "struct.", "secrets.", "time.", "operator.", "int.", "bytes.", "str.",
                   "random.randint", "random.randrange", "random.getrandbits", "random.random", "random.randbytes", "logging.",
                   "binascii.", "base64.", "typing.", "abc.", "sys.", "warnings.", "json.dumps", "pickle.dumps", "itertools.count")
IMM_ANNOTATIONS = {"int", "bytes", "str", "bool", "float", "None"}
PAIRING = {"enumerate", "zip"}
ELEMENT_OF = {"next", "max", "min", "random.choice", "choice", "random.choices"}
SUSPICIOUS = {"eval", "exec", "globals", "vars", "locals"}


class Violation:
    def __init__(self, func, line, what):
        self.func, self.line, self.what = func, line, what

    def __repr__(self):
        return "%s:%d %s" % (self.func, self.line, self.what)


class Own:
    def __init__(self, repo):
        self.repo = repo
        self.heap = {}            # site -> set(atoms): what is stored in the object (values / elements / fields)
        self.heapk = {}           # site -> set(atoms): the keys of a dict allocated at site (item reads do not return them)
        self.sites = {}           # site -> description
        self.obligations = {}     # (func, line, what) -> bool (True = discharged)
        self.exempt = set()       # stores into write-only attributes (not frame obligations; listed in the evidence)
        self.methods = None
        self.funcs = {}
        self.memo = {}
        self.stack = []
        self.notes = set()
        self.assumed = set()
        self.changed = False
        self.analysed = set()
        self.prov = False         # provenance mode: label atoms are tracked and crypto primitives are summarised

    # ------------------------------------------------------------------ provenance helpers
    def labels(self, *vs):
        """provenance labels reachable from the values (through the heap summaries)"""
        out, seen, todo = set(), set(), []
        for v in vs:
            todo.extend(v)
        while todo:
            a = todo.pop()
            if a in seen:
                continue
            seen.add(a)
            if is_label(a):
                out.add(a)
            elif a == SRC_DB:
                out |= {L_KW, L_ID}
            elif a == SRC_IDS:
                out.add(L_ID)
            elif isinstance(a, tuple) and a[0] == "loc":
                todo.extend(self.heap.get(a[1], ()))
                todo.extend(self.heapk.get(a[1], ()))
        return out

    def I(self, *vs):
        """an immutable value computed from vs (in provenance mode it carries their labels)"""
        return ({IMM} | self.labels(*vs)) if self.prov else {IMM}

    def summary(self, rel, clsnode, fnode, args):
        """ideal-primitive summaries (provenance mode): keyed primitives hide their input when the key is secret"""
        name = fnode.name
        keyed = lambda k, *ms: ({IMM, L_PROT} if ({L_KEY, L_PROT} & self.labels(k)) and not ({L_KW, L_ID, L_KEYLESS} & self.labels(k))
                                else {IMM, L_KEYLESS} | self.labels(k, *ms))
        if (rel.startswith("toolkit/prf/") or rel.startswith("toolkit/prp/")) and name == "__call__" and len(args) >= 3:
            return keyed(args[1], *args[2:])
        if rel == "toolkit/hash.py" and name == "__call__" and len(args) >= 2:
            lm = self.labels(*args[1:])
            return {IMM, L_PROT} if ({L_KEY, L_PROT} & lm) else {IMM} | lm
        if rel.startswith("toolkit/symmetric_encryption/"):
            if name in ("Encrypt", "encrypt") and len(args) >= 3:
                return keyed(args[1], *args[2:])
            if name in ("Decrypt", "decrypt") and len(args) >= 3:
                return {IMM, L_DEC}
            if name == "KeyGen":
                return {IMM, L_KEY}
        if rel == "toolkit/bytes_utils.py" and name == "bytes_xor" and len(args) >= 2:
            la, lb = self.labels(args[0]), self.labels(args[1])
            return {IMM, L_PROT} if (L_PROT in la or L_PROT in lb) else {IMM} | la | lb
        return None

    # ------------------------------------------------------------------ repository index
    def index(self):
        if self.methods is not None:
            return
        self.methods, self.classes = {}, {}
        self.attr_loads, self.str_consts, self.attr_stores = set(), set(), set()
        for dirpath, dirs, fs in os.walk(self.repo.root):
            dirs[:] = [d for d in dirs if d not in (".git", "test", "tests", "__pycache__", "docs", "examples")]
            for f in fs:
                if not f.endswith(".py"):
                    continue
                rel = os.path.relpath(os.path.join(dirpath, f), self.repo.root)
                try:
                    m = self.repo.module(rel)
                except Exception:
                    continue
                for n in ast.walk(m.tree):
                    if isinstance(n, ast.Attribute):
                        (self.attr_loads if isinstance(n.ctx, ast.Load) else self.attr_stores).add(n.attr)
                    elif isinstance(n, ast.Constant) and isinstance(n.value, str):
                        self.str_consts.add(n.value)
                for n in m.tree.body:
                    if isinstance(n, ast.ClassDef):
                        self.classes.setdefault(n.name, []).append((rel, n))
                        for st in n.body:
                            if isinstance(st, (ast.FunctionDef, ast.AsyncFunctionDef)):
                                self.methods.setdefault(st.name, []).append((rel, n, st))
                            elif isinstance(st, ast.Assign) and isinstance(st.value, ast.Name):
                                for t in st.targets:       # aliases  a = b = method
                                    if isinstance(t, ast.Name):
                                        for st2 in n.body:
                                            if isinstance(st2, ast.FunctionDef) and st2.name == st.value.id:
                                                self.methods.setdefault(t.id, []).append((rel, n, st2))
                    elif isinstance(n, (ast.FunctionDef, ast.AsyncFunctionDef)):
                        self.funcs.setdefault(n.name, []).append((rel, None, n))

    def write_only(self, attr):
        """an attribute that the repository (tests aside) only ever assigns (`x.a = e`, `x.a += e`) and never reads, not
        even by name through getattr / __slots__: whatever is stored in it cannot influence any behaviour, so storing
        an immutable value there is not a mutation a caller could observe (statistics counters)"""
        self.index()
        return attr not in self.attr_loads and attr not in self.str_consts and attr.lstrip("_") not in self.str_consts

    # ------------------------------------------------------------------ heap
    def alloc(self, site, content=(), what=""):
        if site not in self.heap:
            self.heap[site] = set()
            self.sites[site] = what
            self.changed = True
        self.store(("loc", site), content)
        return {("loc", site)}

    def store(self, atom, content, keys=()):
        if atom[0] == "loc":
            before = len(self.heap[atom[1]]) + len(self.heapk.get(atom[1], ()))
            self.heap[atom[1]] |= set(content)
            if keys:
                self.heapk.setdefault(atom[1], set()).update(keys)
            if len(self.heap[atom[1]]) + len(self.heapk.get(atom[1], ())) != before:
                self.changed = True

    def content(self, v, mode="item"):
        out = set()
        for a in v:
            if is_label(a):
                out.add(a)          # labels are sticky: whatever is read out of a labelled value carries the label
            elif a == SRC_DB:       # the plaintext database: iteration yields keywords, subscripts yield identifier lists
                out |= {IMM, L_KW} if mode == "iter" else ({SRC_IDS} if mode == "item" else {IMM, L_KW, SRC_IDS})
            elif a == SRC_IDS:
                out |= {IMM, L_ID}
            elif a == BOR:
                out |= {BOR, IMM}
            elif a == DEEP:
                out |= {DEEP, IMM}
            elif a == IMM:
                out.add(IMM)
            else:
                out |= self.heap.get(a[1], set()) | {IMM}
                if mode in ("iter", "both"):
                    out |= self.heapk.get(a[1], set())
        return out or {IMM}

    def mutate(self, v, func, node, what, stored=(), keys=()):
        line = getattr(node, "lineno", 0)
        key = (func, line, what)
        ok = BOR not in v
        self.obligations[key] = self.obligations.get(key, True) and ok
        for a in v:
            if isinstance(a, tuple):
                self.store(a, stored, keys)

    # ------------------------------------------------------------------ analysis of one function
    def analyse(self, rel, clsnode, fnode, args, top=False):
        """args: list of atom sets (positional, self first for methods). Returns the atoms of the return value."""
        key = "%s:%s%s" % (rel, (clsnode.name + ".") if clsnode is not None else "", fnode.name)
        sig = (key, tuple(frozenset(a) for a in args))
        if sig in self.memo and not top:
            return set(self.memo[sig])
        if sig in self.stack or sum(1 for s_ in self.stack if s_[0] == key) >= 2:
            # recursion: the result is approximated by everything reachable from the arguments (resolved by the outer fixpoint)
            out = {IMM}
            for a_ in args:
                out |= a_ | self.content(a_)
            return out
        if self.prov:
            sm = self.summary(rel, clsnode, fnode, args)
            if sm is not None:
                return sm
        self.stack.append(sig)
        self.analysed.add(key)
        try:
            env = {}
            a = fnode.args
            names = [p.arg for p in a.posonlyargs + a.args]
            params = a.posonlyargs + a.args
            for i, n in enumerate(names):
                env[n] = set(args[i]) if i < len(args) else {IMM}
                ann = params[i].annotation
                if ann is not None and ast.unparse(ann) in IMM_ANNOTATIONS:
                    env[n] = self.I(env[n])
            extra = set().union(*args[len(names):]) if len(args) > len(names) else set()
            if a.vararg:
                env[a.vararg.arg] = self.alloc((key, "vararg"), extra | {IMM}, "*args tuple")
            if a.kwarg:
                env[a.kwarg.arg] = self.alloc((key, "kwarg"), extra | {IMM}, "**kwargs dict")
            for p in a.kwonlyargs:
                env[p.arg] = extra | {IMM}
            fr = _Frame(self, key, rel, clsnode, fnode)
            ret = set()
            for _ in range(12):
                self.changed = False
                fr.ret = set()
                fr.block(fnode.body, dict((k, set(v)) for k, v in env.items()))
                if fr.ret == ret and not self.changed:
                    break
                ret |= fr.ret
            ret = ret or {IMM}
            if fnode.returns is not None and ast.unparse(fnode.returns) in IMM_ANNOTATIONS:
                ret = self.I(ret)
            if nonimm(ret) and any(ast.unparse(d).split("(")[0].split(".")[-1] in ("lru_cache", "cache", "cached_property")
                                   for d in fnode.decorator_list):
                # a memoised function hands the SAME object to every caller: what it returns is shared state, never the caller's own
                ret = ret | {BOR}
            self.memo[sig] = set(ret)
            return ret
        finally:
            self.stack.pop()


class _Frame:
    def __init__(self, own, key, rel, clsnode, fnode):
        self.o, self.key, self.rel, self.clsnode, self.fnode = own, key, rel, clsnode, fnode
        self.mod = own.repo.module(rel)
        self.ret = set()

    # ---------------- statements
    def block(self, stmts, env):
        for s in stmts:
            env = self.stmt(s, env)
        return env

    @staticmethod
    def join(a, b):
        out = {}
        for k in set(a) | set(b):
            out[k] = set(a.get(k, ())) | set(b.get(k, ()))
        return out

    def stmt(self, s, env):
        o = self.o
        if isinstance(s, (ast.Expr,)):
            self.ev(s.value, env)
        elif isinstance(s, ast.Assign):
            if isinstance(s.value, ast.Tuple) and len(s.targets) == 1 and isinstance(s.targets[0], ast.Tuple) and \
                    len(s.targets[0].elts) == len(s.value.elts) and not any(isinstance(x, ast.Starred) for x in s.value.elts + s.targets[0].elts):
                vals = [self.ev(x, env) for x in s.value.elts]
                for t, v in zip(s.targets[0].elts, vals):
                    self.assign(t, v, env, s)
                return env
            v = self.ev(s.value, env)
            for t in s.targets:
                self.assign(t, v, env, s)
        elif isinstance(s, ast.AnnAssign):
            if s.value is not None:
                self.assign(s.target, self.ev(s.value, env), env, s)
        elif isinstance(s, ast.AugAssign):
            rhs = self.ev(s.value, env)
            load = ast.copy_location(_as_load(s.target), s.target)
            cur = self.ev(load, env)
            if nonimm(rhs):      # list += iterable / set |= set ... mutate in place; numbers and bytes rebind
                o.mutate(cur, self.key, s, "in-place operator on %s" % ast.unparse(s.target), o.content(rhs))
            if isinstance(s.target, ast.Attribute) and not nonimm(rhs) and o.write_only(s.target.attr):
                o.exempt.add("%s:%d write-only attribute %s" % (self.key, s.lineno, s.target.attr))
            elif not isinstance(s.target, ast.Name):
                base = self.ev(s.target.value, env)
                o.mutate(base, self.key, s, "store into %s" % ast.unparse(s.target.value), cur | rhs)
            else:
                env[s.target.id] = cur | rhs
        elif isinstance(s, ast.Delete):
            for t in s.targets:
                if isinstance(t, (ast.Subscript, ast.Attribute)):
                    o.mutate(self.ev(t.value, env), self.key, s, "del %s" % ast.unparse(t))
                elif isinstance(t, ast.Name):
                    env.pop(t.id, None)
        elif isinstance(s, ast.Return):
            if s.value is not None:
                self.ret |= self.ev(s.value, env)
            else:
                self.ret.add(IMM)
        elif isinstance(s, ast.If):
            self.ev(s.test, env)
            a = self.block(s.body, dict((k, set(v)) for k, v in env.items()))
            b = self.block(s.orelse, dict((k, set(v)) for k, v in env.items()))
            env = self.join(a, b)
        elif isinstance(s, (ast.For, ast.AsyncFor)):
            it = self.ev(s.iter, env)
            elem = o.content(it, "iter")
            for _ in range(8):
                before = dict((k, set(v)) for k, v in env.items())
                e2 = dict(before)
                self.assign(s.target, elem, e2, s)
                e2 = self.block(s.body, e2)
                env = self.join(before, e2)
                if env == before:
                    break
            env = self.block(s.orelse, env)
        elif isinstance(s, ast.While):
            for _ in range(8):
                before = dict((k, set(v)) for k, v in env.items())
                self.ev(s.test, env)
                e2 = self.block(s.body, dict(before))
                env = self.join(before, e2)
                if env == before:
                    break
            env = self.block(s.orelse, env)
        elif isinstance(s, ast.Try):
            before = dict((k, set(v)) for k, v in env.items())
            after = self.block(s.body, dict(before))
            out = self.block(s.orelse, dict(after))
            mid = self.join(before, after)
            for h in s.handlers:
                e2 = dict((k, set(v)) for k, v in mid.items())
                if h.name:
                    e2[h.name] = {IMM}
                out = self.join(out, self.block(h.body, e2))
            env = self.block(s.finalbody, out)
        elif isinstance(s, (ast.With, ast.AsyncWith)):
            for it in s.items:
                v = self.ev(it.context_expr, env)
                if it.optional_vars is not None:
                    self.assign(it.optional_vars, v, env, s)
            env = self.block(s.body, env)
        elif isinstance(s, ast.Raise):
            if s.exc is not None:
                self.ev(s.exc, env)
        elif isinstance(s, ast.Assert):
            self.ev(s.test, env)
        elif isinstance(s, (ast.FunctionDef, ast.AsyncFunctionDef)):
            env[s.name] = {("fn", id(s))}
            self.o.local_fns = getattr(self.o, "local_fns", {})
            self.o.local_fns[id(s)] = (self.rel, self.clsnode, s, env)
        elif isinstance(s, (ast.Pass, ast.Break, ast.Continue, ast.Import, ast.ImportFrom, ast.Global, ast.Nonlocal)):
            pass
        elif isinstance(s, ast.ClassDef):
            o.notes.add("%s:%d nested class definition not analysed" % (self.key, s.lineno))
        elif isinstance(s, ast.Match):
            for c in s.cases:
                env = self.join(env, self.block(c.body, dict((k, set(v)) for k, v in env.items())))
        else:
            o.notes.add("%s:%d statement %s not analysed" % (self.key, s.lineno, type(s).__name__))
        return env

    def assign(self, t, v, env, node):
        o = self.o
        if isinstance(t, ast.Name):
            env[t.id] = set(v)
        elif isinstance(t, (ast.Tuple, ast.List)):
            elem = o.content(v, "iter") if nonimm(v) else o.I(v)
            # a tuple built in this function and unpacked at once: components are what was stored in it
            for e in t.elts:
                self.assign(e.value if isinstance(e, ast.Starred) else e, elem, env, node)
        elif isinstance(t, ast.Subscript):
            kv = self.ev(t.slice, env)
            o.mutate(self.ev(t.value, env), self.key, node, "item store into %s" % ast.unparse(t.value), set(v), keys=set(kv))
        elif isinstance(t, ast.Attribute):
            if not nonimm(v) and o.write_only(t.attr):
                o.exempt.add("%s:%d write-only attribute %s" % (self.key, getattr(node, "lineno", 0), t.attr))
            else:
                o.mutate(self.ev(t.value, env), self.key, node, "attribute store %s" % ast.unparse(t), v)
        elif isinstance(t, ast.Starred):
            self.assign(t.value, v, env, node)

    # ---------------- expressions
    def ev(self, e, env):
        o = self.o
        if e is None:
            return {IMM}
        if isinstance(e, ast.Constant):
            return {IMM}
        if isinstance(e, ast.Name):
            if e.id in env:
                return set(env[e.id])
            return self.global_name(e.id)
        if isinstance(e, (ast.JoinedStr, ast.FormattedValue)):
            vs = [self.ev(v.value, env) for v in ast.walk(e) if isinstance(v, ast.FormattedValue)]
            return o.I(*vs)
        if isinstance(e, (ast.List, ast.Set)):
            c = set()
            for x in e.elts:
                c |= self.ev(x.value if isinstance(x, ast.Starred) else x, env) if not isinstance(x, ast.Starred) else o.content(self.ev(x.value, env))
            return o.alloc((self.key, e.lineno, e.col_offset), c | {IMM}, "list/set display")
        if isinstance(e, ast.Tuple):
            c = set()
            for x in e.elts:
                c |= self.ev(x.value, env) if isinstance(x, ast.Starred) else self.ev(x, env)
            if not nonimm(c):
                return o.I(c)
            return o.alloc((self.key, e.lineno, e.col_offset), c | {IMM}, "tuple")
        if isinstance(e, ast.Dict):
            c, ks = set(), set()
            for k, v in zip(e.keys, e.values):
                if k is None:
                    c |= o.content(self.ev(v, env), "both")
                else:
                    ks |= self.ev(k, env)
                    c |= self.ev(v, env)
            r = o.alloc((self.key, e.lineno, e.col_offset), c | {IMM}, "dict display")
            o.store(next(iter(r)), (), ks)
            return r
        if isinstance(e, (ast.ListComp, ast.SetComp, ast.GeneratorExp, ast.DictComp)):
            env2 = dict((k, set(v)) for k, v in env.items())
            for g in e.generators:
                self.assign(g.target, o.content(self.ev(g.iter, env2), "iter"), env2, e)
                for c in g.ifs:
                    self.ev(c, env2)
            if isinstance(e, ast.DictComp):
                r = o.alloc((self.key, e.lineno, e.col_offset), self.ev(e.value, env2) | {IMM}, "comprehension")
                o.store(next(iter(r)), (), self.ev(e.key, env2))
                return r
            c = self.ev(e.elt, env2)
            return o.alloc((self.key, e.lineno, e.col_offset), c | {IMM}, "comprehension")
        if isinstance(e, ast.BinOp):
            a, b = self.ev(e.left, env), self.ev(e.right, env)
            if not nonimm(a | b):
                return o.I(a, b)
            if isinstance(e.op, (ast.Div, ast.FloorDiv, ast.Mod, ast.Pow, ast.LShift, ast.RShift, ast.MatMult)) and not isinstance(e.left, ast.Constant):
                return o.I(a, b)      # numbers only ('%' on a str/bytes literal formats: still immutable)
            if isinstance(e.op, (ast.Add, ast.BitOr, ast.BitAnd, ast.BitXor)) and (not nonimm(a) or not nonimm(b)):
                return o.I(a, b)      # one operand is a number / bytes / str: so is the other, and the result
            if isinstance(e.op, ast.Sub) and (not nonimm(a) or not nonimm(b)):
                return o.I(a, b)
            # list + list, list * n, set | set ...: a new container holding the operands' contents
            return o.alloc((self.key, e.lineno, e.col_offset), o.content(a) | o.content(b), "binary operator result") | {IMM}
        if isinstance(e, ast.UnaryOp):
            return o.I(self.ev(e.operand, env))
        if isinstance(e, ast.BoolOp):
            out = set()
            for v in e.values:
                out |= self.ev(v, env)
            return out
        if isinstance(e, ast.Compare):
            self.ev(e.left, env)
            for c in e.comparators:
                self.ev(c, env)
            return {IMM}
        if isinstance(e, ast.IfExp):
            self.ev(e.test, env)
            return self.ev(e.body, env) | self.ev(e.orelse, env)
        if isinstance(e, ast.Attribute):
            return self.attr(e, env)
        if isinstance(e, ast.Subscript):
            base = self.ev(e.value, env)
            self.ev(e.slice, env)
            if isinstance(e.slice, ast.Slice):
                if not nonimm(base):
                    return o.I(base)
                return o.alloc((self.key, e.lineno, e.col_offset), o.content(base), "slice copy") | {IMM}
            return o.content(base)
        if isinstance(e, ast.Slice):
            for x in (e.lower, e.upper, e.step):
                if x is not None:
                    self.ev(x, env)
            return {IMM}
        if isinstance(e, ast.Starred):
            return o.content(self.ev(e.value, env))
        if isinstance(e, ast.Lambda):
            return {IMM}
        if isinstance(e, ast.Await):
            return self.ev(e.value, env)
        if isinstance(e, (ast.Yield, ast.YieldFrom)):
            if e.value is not None:
                v = self.ev(e.value, env)
                self.ret |= o.alloc((self.key, "gen"), v if isinstance(e, ast.Yield) else o.content(v), "generator")
            return {IMM}
        if isinstance(e, ast.NamedExpr):
            v = self.ev(e.value, env)
            env[e.target.id] = set(v)
            return v
        if isinstance(e, ast.Call):
            return self.call(e, env)
        o.notes.add("%s:%d expression %s not analysed" % (self.key, getattr(e, "lineno", 0), type(e).__name__))
        return {IMM}

    def global_name(self, n):
        kind = self.mod.names.get(n)
        if kind is None:
            return {IMM}
        if kind[0] == "assign":
            # module-level mutable constants (DEFAULT_CONFIG ...) belong to everybody: borrowed
            if isinstance(kind[1], (ast.Dict, ast.List, ast.Set, ast.Call, ast.ListComp, ast.DictComp)):
                return {BOR}
            return {IMM}
        return {IMM}

    def attr(self, e, env):
        # dotted module constant?
        base = self.ev(e.value, env)
        return self.o.content(base)

    def dotted(self, f):
        parts = []
        while isinstance(f, ast.Attribute):
            parts.append(f.attr)
            f = f.value
        if isinstance(f, ast.Name):
            parts.append(f.id)
            return ".".join(reversed(parts))
        return None

    def call(self, e, env):
        o = self.o
        args = [self.ev(a, env) for a in e.args if not isinstance(a, ast.Starred)]
        star = [o.content(self.ev(a.value, env)) for a in e.args if isinstance(a, ast.Starred)]
        kws = [self.ev(k.value, env) if k.arg is not None else o.content(self.ev(k.value, env)) for k in e.keywords]
        allv = args + star + kws
        allc = set().union(*allv) if allv else set()
        site = (self.key, e.lineno, e.col_offset)
        f = e.func
        name = self.dotted(f)
        last = f.attr if isinstance(f, ast.Attribute) else (f.id if isinstance(f, ast.Name) else None)
        if name in SUSPICIOUS:
            o.notes.add("%s:%d call of %s (not analysed)" % (self.key, e.lineno, name))
        # ---- plain names: local function, repository function / class, builtin
        if isinstance(f, ast.Name) and f.id not in env:
            n = f.id
            tgt = self.resolve_global(n)
            if tgt is not None:
                kind, rel, node = tgt
                if kind == "func":
                    return o.analyse(rel, None, node, allv)
                return self.construct(rel, node, allv, site)
            if n in LIB_MUTATORS:
                for i in LIB_MUTATORS[n]:
                    if i < len(args):
                        o.mutate(args[i], self.key, e, "%s(...)" % n, allc)
                return {IMM}
            if n == "deepcopy":
                return {DEEP} | {a for a in allc if is_label(a) or (isinstance(a, tuple) and a[0] == "src")}
            if n in PURE_DATA:
                return o.I(*allv)
            if n in PURE_IMM:
                return {IMM}
            if n == "range":
                return o.alloc(site, {IMM}, "range")
            if n in PAIRING:
                c = set()
                for a in allv:
                    c |= o.content(a, "iter")
                pair = o.alloc(site + ("pair",), c | {IMM}, "%s pair" % n)
                return o.alloc(site, pair, "%s(...)" % n)
            if n in COPY_SHALLOW:
                c, ks = set(), set()
                for a in allv:
                    c |= o.content(a, "iter" if n in ("list", "set", "sorted", "tuple", "frozenset", "iter", "reversed", "filter", "map") else "item")
                    ks |= o.content(a, "iter") if n in ("dict", "copy", "OrderedDict", "defaultdict") else set()
                r = o.alloc(site, c | {IMM}, "%s(...)" % n)
                if ks:
                    o.store(next(iter(r)), (), ks)
                return r
            if n in ELEMENT_OF:
                c = set()
                for a in allv:
                    c |= o.content(a, "iter")
                return c | {IMM}
            if n in ("super",):
                return set(env.get("self", {IMM})) | {("super",)}
            if n in ("getattr",):
                return o.content(args[0]) if args else {IMM}
            o.assumed.add(n)
            return o.I(*allv) if not nonimm(allc) else (o.I(*allv) | (o.alloc(site, set().union(*[o.content(a) for a in allv]), "result of %s" % n)))
        if isinstance(f, ast.Name) and f.id in env:
            # calling a local value: a nested function, or a callable object received from outside
            out = set()
            for a in env[f.id]:
                if isinstance(a, tuple) and a[0] == "fn":
                    rel, cls, node, cenv = o.local_fns[a[1]]
                    out |= self.call_local(node, cenv, allv)
            return out | self.call_method_by_name("__call__", env[f.id], allv, e, site)
        # ---- attribute calls
        if isinstance(f, ast.Attribute):
            # module functions: copy.deepcopy, random.shuffle, os.urandom, math.ceil ...
            root = f
            while isinstance(root, ast.Attribute):
                root = root.value
            if isinstance(root, ast.Name) and root.id not in env:
                k = self.mod.names.get(root.id)
                if k is not None and k[0] in ("modroot", "module", "ext") or (k is None and root.id not in env):
                    if name in ("copy.deepcopy",):
                        return {DEEP} | {a for a in allc if is_label(a) or (isinstance(a, tuple) and a[0] == "src")}
                    if name in ("os.urandom", "secrets.token_bytes", "random.randbytes"):
                        return {IMM, L_PROT} if o.prov else {IMM}
                    if name.startswith(("random.randint", "random.randrange", "random.getrandbits", "random.random")):
                        return {IMM}
                    if name.startswith(PURE_IMM_PREFIX):
                        return o.I(*allv)
                    if name in LIB_MUTATORS:
                        for i in LIB_MUTATORS[name]:
                            if i < len(args):
                                o.mutate(args[i], self.key, e, "%s(...)" % name, allc)
                        return {IMM}
                    if name in COPY_SHALLOW:
                        c = set()
                        for a in allv:
                            c |= o.content(a, "both")
                        r = o.alloc(site, c | {IMM}, "%s(...)" % name)
                        o.store(next(iter(r)), (), set().union(*[o.content(a, "iter") for a in allv]) if allv else set())
                        return r
                    if name in ELEMENT_OF:
                        c = set()
                        for a in allv:
                            c |= o.content(a, "iter")
                        return c | {IMM}
                    # a repository module?  schemes.x.y.func(...)
                    tgt = self.resolve_dotted(name)
                    if tgt is not None:
                        kind, rel, node = tgt
                        if kind == "func":
                            return o.analyse(rel, None, node, allv)
                        return self.construct(rel, node, allv, site)
                    o.assumed.add(name)
                    return o.I(*allv) if not nonimm(allc) else (o.I(*allv) | o.alloc(site, set().union(*[o.content(a) for a in allv]), "result of %s" % name))
                if k is not None and k[0] in ("class", "from"):
                    # ClassName.method(...) (classmethod / staticmethod / unbound)
                    tgt = self.resolve_global(root.id)
                    if tgt is not None and tgt[0] == "class" and isinstance(f.value, ast.Name):
                        rel, cnode = tgt[1], tgt[2]
                        m = self.find_in_class(rel, cnode, f.attr)
                        if m is not None:
                            mrel, mcls, mnode = m
                            decos = [getattr(d, "id", getattr(d, "attr", "")) for d in mnode.decorator_list]
                            first = [] if "staticmethod" in decos else [{IMM}]
                            return o.analyse(mrel, mcls, mnode, first + allv)
            recv = self.ev(f.value, env)
            if isinstance(f.value, ast.Name) and f.value.id == "self" and self.clsnode is not None and ("super",) not in recv:
                # self.method(...): the class's own method (or an override in a subclass), not every method of that name
                o.index()
                cands = []
                m = self.find_in_class(self.rel, self.clsnode, f.attr)
                if m is not None:
                    cands.append(m)
                for (mrel, mcls, mnode) in o.methods.get(f.attr, []):
                    if mcls is not self.clsnode and self.is_subclass(mrel, mcls, self.clsnode.name):
                        cands.append((mrel, mcls, mnode))
                if cands:
                    out = set()
                    for (mrel, mcls, mnode) in cands:
                        decos = [getattr(d, "id", getattr(d, "attr", "")) for d in mnode.decorator_list]
                        out |= o.analyse(mrel, mcls, mnode, (allv if "staticmethod" in decos else [set(recv)] + allv))
                    return out
            if ("super",) in recv:
                recv = recv - {("super",)}
                out = {IMM}
                if self.clsnode is not None:
                    for b in self.clsnode.bases:
                        bn = b.attr if isinstance(b, ast.Attribute) else (b.id if isinstance(b, ast.Name) else None)
                        o.index()
                        for (brel, bnode) in o.classes.get(bn, []):
                            m = self.find_in_class(brel, bnode, f.attr)
                            if m is not None:
                                out |= o.analyse(m[0], m[1], m[2], [set(recv)] + allv)
                return out
            return self.call_method_by_name(f.attr, recv, allv, e, site)
        # anything else (call of a call result ...)
        fv = self.ev(f, env)
        return self.call_method_by_name("__call__", fv, allv, e, site)

    def call_local(self, node, cenv, allv):
        o = self.o
        env = dict((k, set(v)) for k, v in cenv.items())
        names = [p.arg for p in node.args.args]
        for i, n in enumerate(names):
            env[n] = set(allv[i]) if i < len(allv) else {IMM}
        sub = _Frame(o, self.key + "." + node.name, self.rel, self.clsnode, node)
        sub.block(node.body, env)
        return sub.ret or {IMM}

    def call_method_by_name(self, name, recv, allv, e, site, super_of=None):
        o = self.o
        out = set()
        allc = set().union(*allv) if allv else set()
        is_container_like = bool(nonimm(recv))
        # builtin container semantics
        if name in MUT_METHODS and is_container_like:
            stored = set()
            for a in allv:
                stored |= a
                if name in ("extend", "update", "extendleft", "difference_update", "intersection_update"):
                    stored |= o.content(a, "both")
            o.mutate(recv, self.key, e, ".%s(...) on %s" % (name, ast.unparse(e.func.value) if isinstance(e.func, ast.Attribute) else "value"), stored)
            if name in ("pop", "popitem", "setdefault", "popleft"):
                out |= o.content(recv) | allc
            else:
                out.add(IMM)
        elif name in ("get", "items", "values", "keys", "__getitem__", "__iter__", "__next__", "most_common", "elements"):
            if name == "items":
                pair = o.alloc(site + ("pair",), o.content(recv, "both"), "items() pair")
                out |= o.alloc(site, pair, ".items() view")
            elif name == "keys":
                out |= o.alloc(site, o.content(recv, "iter"), ".keys() view")
            elif name == "values":
                out |= o.alloc(site, o.content(recv, "item"), ".values() view")
            elif name in ("__iter__", "__next__"):
                out |= o.content(recv, "iter") | allc
            else:
                out |= o.content(recv, "item") | allc
        elif name in ("copy",):
            r = o.alloc(site, o.content(recv), ".copy()")
            o.store(next(iter(r)), (), o.content(recv, "iter"))
            out |= r
        elif name in ("join", "encode", "decode", "hex", "to_bytes", "from_bytes", "digest", "hexdigest", "format", "lower", "upper",
                      "strip", "split", "startswith", "endswith", "bit_length", "index", "count", "find", "replace", "zfill",
                      "ljust", "rjust", "isdigit", "fromhex", "finalize", "encryptor", "decryptor", "padder", "unpadder"):
            out |= o.I(recv, *allv)
            if name == "update" and False:
                pass
        # repository methods of that name (class-hierarchy resolution)
        o.index()
        cands = o.methods.get(name, [])
        if super_of is not None:
            cands = [c for c in cands if c[1] is not super_of]
        if name == "__call__":   # a callable attribute: only classes whose __call__ takes this many arguments can be meant
            cands = [c for c in cands if len(c[2].args.args) - 1 == len(allv) or c[2].args.vararg is not None or c[2].args.defaults]
        if cands:
            self.found_cands = True
        if cands and (nonimm(recv) or name in ("__call__",)):
            for (rel, cls, node) in cands:
                decos = [getattr(d, "id", getattr(d, "attr", "")) for d in node.decorator_list]
                if "staticmethod" in decos:
                    out |= o.analyse(rel, cls, node, allv)
                elif "property" in decos:
                    continue
                else:
                    out |= o.analyse(rel, cls, node, [set(recv)] + allv)
        elif not cands and name not in MUT_METHODS and not out:
            found = False
            if nonimm(recv) and name != "__call__":
                # no class of the repository defines a method of this name: a callable stored in an attribute
                # (config.prf_f(...)), i.e. a call of __call__ on the attribute's value -- or a library object's method
                self.found_cands = False
                r = self.call_method_by_name("__call__", o.content(recv), allv, e, site)
                found = self.found_cands
                out |= r
            if not found or not o.prov:
                o.assumed.add("." + name)
                out |= o.I(recv, *allv) | (o.content(recv) if nonimm(recv) else set())
        return out or {IMM}

    def construct(self, rel, cnode, allv, site):
        o = self.o
        content = set().union(*allv) if allv else set()
        obj = o.alloc(site, content | {IMM}, "instance of %s" % cnode.name)
        m = self.find_in_class(rel, cnode, "__init__")
        if m is not None:
            mrel, mcls, mnode = m
            o.analyse(mrel, mcls, mnode, [set(obj)] + allv)
        return obj

    def find_in_class(self, rel, cnode, name, seen=None):
        seen = seen or set()
        if (rel, cnode.name) in seen:
            return None
        seen.add((rel, cnode.name))
        for st in cnode.body:
            if isinstance(st, (ast.FunctionDef, ast.AsyncFunctionDef)) and st.name == name:
                return (rel, cnode, st)
        m = self.o.repo.module(rel)
        for b in cnode.bases:
            bn = b.attr if isinstance(b, ast.Attribute) else (b.id if isinstance(b, ast.Name) else None)
            if bn is None:
                continue
            self.o.index()
            for (brel, bnode) in self.o.classes.get(bn, []):
                r = self.find_in_class(brel, bnode, name, seen)
                if r is not None:
                    return r
        return None

    def is_subclass(self, rel, cnode, base_name, depth=0):
        if depth > 8:
            return False
        for b in cnode.bases:
            bn = b.attr if isinstance(b, ast.Attribute) else (b.id if isinstance(b, ast.Name) else None)
            if bn == base_name:
                return True
            for (brel, bnode) in self.o.classes.get(bn, []):
                if self.is_subclass(brel, bnode, base_name, depth + 1):
                    return True
        return False

    def resolve_global(self, n, mod=None, depth=0):
        m = mod or self.mod
        k = m.names.get(n)
        if k is None or depth > 6:
            return None
        if k[0] == "func":
            return ("func", m.rel, k[1])
        if k[0] == "class":
            return ("class", m.rel, k[1])
        if k[0] == "from":
            try:
                m2 = self.o.repo.module(k[1])
            except Exception:
                return None
            return self.resolve_global(k[2], m2, depth + 1)
        return None

    def resolve_dotted(self, name):
        parts = name.split(".")
        for cut in range(len(parts) - 1, 0, -1):
            rel = None
            for cand in ("/".join(parts[:cut]) + ".py", "/".join(parts[:cut]) + "/__init__.py"):
                if os.path.isfile(os.path.join(self.o.repo.root, cand)):
                    rel = cand
            if rel is not None and cut == len(parts) - 1:
                try:
                    return self.resolve_global(parts[-1], self.o.repo.module(rel))
                except Exception:
                    return None
        return None


def _as_load(t):
    import copy as _c
    t2 = _c.deepcopy(t)
    for n in ast.walk(t2):
        if hasattr(n, "ctx"):
            n.ctx = ast.Load()
    return t2


def check_frame(repo_root, key):
    """key: 'path.py:Class.method' -- all parameters (self included) are borrowed. Returns (Own, [violations])"""
    repo = Repo(repo_root)
    o = Own(repo)
    o.index()
    node, mod, cls = repo.find(key)
    nargs = len(node.args.posonlyargs + node.args.args)
    o.analyse(mod.rel, cls, node, [{BOR} for _ in range(nargs)], top=True)
    bad = [Violation(f, l, w) for (f, l, w), ok in sorted(o.obligations.items()) if not ok]
    return o, bad


def check_prov(repo_root, key, roles, allow=()):
    """provenance contract of `key`: no byte string reachable from the returned object derives from plaintext keywords /
    identifiers / key material other than through a keyed primitive under a secret key (ideal-primitive reading).
    roles: one of "self" | "key" | "db" | "kw" | "pub" | "edb" | "token" per parameter.  Returns (Own, labels found, bad labels)"""
    repo = Repo(repo_root)
    o = Own(repo)
    o.prov = True
    o.index()
    node, mod, cls = repo.find(key)
    atoms = {"self": {BOR}, "key": {BOR, L_KEY}, "db": {SRC_DB}, "kw": {IMM, L_KW}, "pub": {IMM}, "edb": {BOR, L_PROT},
             "token": {BOR, L_PROT}}
    ret = o.analyse(mod.rel, cls, node, [set(atoms[r]) for r in roles], top=True)
    found = o.labels(ret)
    bad = {l for l in found if l in (L_KW, L_ID, L_KEY, L_KEYLESS) and l not in allow}
    return o, found, bad
