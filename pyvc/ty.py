"""Types and z3 sorts of the pyvc engine (runs under python3-vt only)."""
import z3

BV8 = z3.BitVecSort(8)
BYTES = z3.SeqSort(BV8)


class Ty:
    def __eq__(self, o):
        return isinstance(o, Ty) and repr(self) == repr(o)

    def __hash__(self):
        return hash(repr(self))


class _Prim(Ty):
    def __init__(self, name):
        self.name = name

    def __repr__(self):
        return self.name


TInt = _Prim("Int")
TBool = _Prim("Bool")
TBytes = _Prim("Bytes")
TStr = _Prim("Str")
TAny = _Prim("Any")  # python-level only, never boxed
TSlice = _Prim("Slice")  # python slice object (python-level)
TNone = _Prim("None")
TFile = _Prim("File")  # open binary file object: a handle id; all mutable state lives in the ghost file system (pyvc/files.py)


class TList(Ty):
    def __init__(self, elem):
        self.elem = elem

    def __repr__(self):
        return "List[%r]" % (self.elem,)


class TTuple(Ty):
    def __init__(self, *elems):
        self.elems = tuple(elems)

    def __repr__(self):
        return "Tuple[%s]" % ",".join(map(repr, self.elems))


class TOpt(Ty):
    def __init__(self, elem):
        self.elem = elem

    def __repr__(self):
        return "Opt[%r]" % (self.elem,)


class TDict(Ty):
    def __init__(self, key, val):
        self.key, self.val = key, val

    def __repr__(self):
        return "Dict[%r,%r]" % (self.key, self.val)


class TSet(Ty):
    def __init__(self, elem):
        self.elem = elem

    def __repr__(self):
        return "Set[%r]" % (self.elem,)


class TPyDict(Ty):
    """a python dict with a fixed set of string keys (configuration dictionaries): values are symbolic of the
    given type, or the given concrete python value"""

    def __init__(self, fields):
        self.fields = dict(fields)

    def __repr__(self):
        return "PyDict[%s]" % ",".join(sorted(self.fields))


class TObj(Ty):
    """Reference to an instance of a declared class (python-level record on the symbolic heap)."""

    def __init__(self, cls):
        self.cls = cls

    def __repr__(self):
        return "Obj[%s]" % self.cls


_sort_cache = {}


def _mangle(ty):
    return repr(ty).replace("[", "_").replace("]", "").replace(",", "_")


def sort(ty):
    if ty in _sort_cache:
        return _sort_cache[ty]
    if ty == TInt or ty == TFile:
        s = z3.IntSort()
    elif ty == TBool:
        s = z3.BoolSort()
    elif ty == TBytes:
        s = BYTES
    elif ty == TStr:
        s = z3.StringSort()
    elif isinstance(ty, TList):
        s = z3.SeqSort(sort(ty.elem))
    elif isinstance(ty, TTuple):
        m = _mangle(ty)
        dt = z3.Datatype("T_" + m)
        dt.declare("mk_" + m, *[("f%d_%s" % (i, m), sort(e)) for i, e in enumerate(ty.elems)])
        s = dt.create()
        s.mk = s.constructor(0)          # constructor / accessor names are unique per type (SMT-LIB has one namespace)
    elif isinstance(ty, TOpt):
        m = _mangle(ty)
        dt = z3.Datatype("O_" + m)
        dt.declare("none_" + m)
        dt.declare("some_" + m, ("val_" + m, sort(ty.elem)))
        s = dt.create()
        s.none = s.constructor(0)()
        s.some = s.constructor(1)
        s.is_none = s.recognizer(0)
        s.is_some = s.recognizer(1)
        s.val = s.accessor(1, 0)
    elif isinstance(ty, TDict):
        # a dict value is the map  key -> Option(value); its insertion-ordered key sequence is the uninterpreted
        # function dkeys_<T>(map), constrained at every operation site (see speclib.dict_store / dict_delete)
        s = z3.ArraySort(sort(ty.key), sort(TOpt(ty.val)))
    elif isinstance(ty, TSet):
        s = z3.ArraySort(sort(ty.elem), z3.BoolSort())
    else:
        raise TypeError("no z3 sort for %r" % (ty,))
    _sort_cache[ty] = s
    return s


class SV:
    """A symbolic value: z3 term + engine type."""
    __slots__ = ("t", "ty")

    def __init__(self, t, ty):
        self.t, self.ty = t, ty

    def __repr__(self):
        return "SV(%s:%r)" % (self.t, self.ty)


def bytes_const(b):
    if len(b) == 0:
        return z3.Empty(BYTES)
    units = [z3.Unit(z3.BitVecVal(x, 8)) for x in b]
    return units[0] if len(units) == 1 else z3.Concat(*units)


def py_ty(v):
    """Type of a concrete python value."""
    if isinstance(v, bool):
        return TBool
    if isinstance(v, int):
        return TInt
    if isinstance(v, (bytes, bytearray)):
        return TBytes
    if isinstance(v, str):
        return TStr
    return None


def lift(v, ty=None):
    """Concrete python value (or SV) -> SV."""
    if isinstance(v, SV):
        return v
    if isinstance(v, bool):
        return SV(z3.BoolVal(v), TBool)
    if isinstance(v, int):
        return SV(z3.IntVal(v), TInt)
    if isinstance(v, (bytes, bytearray)):
        return SV(bytes_const(bytes(v)), TBytes)
    if isinstance(v, str):
        return SV(z3.StringVal(v), TStr)
    if v is None and isinstance(ty, TOpt):
        return SV(sort(ty).none, ty)
    if isinstance(v, (tuple, list)) and ty is not None:
        if isinstance(ty, TTuple):
            return SV(sort(ty).mk(*[box(x, e).t for x, e in zip(v, ty.elems)]), ty)
        if isinstance(ty, TList):
            if not v:
                return SV(z3.Empty(sort(ty)), ty)
            us = [z3.Unit(box(x, ty.elem).t) for x in v]
            return SV(us[0] if len(us) == 1 else z3.Concat(*us), ty)
    raise TypeError("cannot lift %r to %r" % (v, ty))


def box(v, ty):
    """Coerce a value to an SV of exactly type ty (used when storing into z3 containers)."""
    if isinstance(v, SV):
        if v.ty == ty:
            return v
        if isinstance(ty, TOpt) and v.ty == ty.elem:
            return SV(sort(ty).some(v.t), ty)
        if v.ty == TBool and ty == TInt:
            return SV(z3.If(v.t, 1, 0), TInt)
        raise TypeError("type mismatch: have %r want %r" % (v.ty, ty))
    if isinstance(ty, TOpt) and v is not None:
        return SV(sort(ty).some(box(v, ty.elem).t), ty)
    if ty == TInt and isinstance(v, bool):
        return SV(z3.IntVal(int(v)), TInt)
    return lift(v, ty)


def fresh(name, ty, ctr=[0]):
    ctr[0] += 1
    return SV(z3.Const("%s!%d" % (name, ctr[0]), sort(ty)), ty)


_nth_i = {}


def nth_pat(s, k):
    """E-matching trigger for `s[k]` on sequences: z3 rewrites seq.nth into an in-bounds part (seq.nth_i) and an
    out-of-bounds part before matching, so a pattern must name the in-bounds operator (the cvc5 dump maps it back to seq.nth)"""
    key = s.sort().get_id() if hasattr(s.sort(), "get_id") else s.sort().sexpr()
    if key not in _nth_i:
        a = z3.Const("nthpat_s", s.sort())
        i = z3.Int("nthpat_i")
        fs = z3.parse_smt2_string("(assert (= (seq.nth_i nthpat_s nthpat_i) (seq.nth_i nthpat_s nthpat_i)))",
                                  decls={"nthpat_s": a, "nthpat_i": i})
        t = fs[0]
        # the parser may simplify x = x; fall back to a fresh comparison
        if not z3.is_app(t) or t.num_args() == 0:
            b = z3.Const("nthpat_x", s.sort().basis())
            fs = z3.parse_smt2_string("(assert (= (seq.nth_i nthpat_s nthpat_i) nthpat_x))",
                                      decls={"nthpat_s": a, "nthpat_i": i, "nthpat_x": b})
            t = fs[0]
        _nth_i[key] = t.arg(0).decl()
    return _nth_i[key](s, k)
