import sys, importlib, time, traceback, os
sys.path.insert(0, os.path.dirname(os.path.dirname(os.path.abspath(__file__))))
from pyvc import registry, solve
from pyvc.engine import Engine, Unsupported
from pyvc.repo import Repo

def lemma_vcs():
    from pyvc.engine import VC
    out = []
    names = list(registry.LEMMAS)
    for i, (name, l) in enumerate(registry.LEMMAS.items()):
        earlier = set(names[:i])
        if l.lean or l.assumed:
            continue
        for u in l.uses:
            assert u in earlier, "lemma %s uses %s which is not defined earlier" % (name, u)
        uses = (set(l.uses) - l.ground_only) | ({n for n in earlier if registry.LEMMAS[n].auto} if not l.no_auto else set())
        for (nm, hyps, goal) in l.obligations():
            vc = VC("lemma/" + nm, hyps, goal, 0, "lemma:" + name, "lemma", uses)
            vc.depth = l.depth
            vc.unfold_only = l.unfold_only
            vc.inline_defs = l.inline_defs
            out.append(vc)
    return out

def prove_lemmas(tmo):
    vcs = lemma_vcs()
    solve.discharge(vcs, timeout_ms=tmo)
    for v in vcs:
        print(v.name, v.status, v.backend, "%.2fs" % v.seconds, "" if v.status == "unsat" else v.tried)

def main():
    mod = sys.argv[1]
    pat = sys.argv[2] if len(sys.argv) > 2 else ""
    importlib.import_module("contracts." + mod)
    repo = Repo(os.environ.get("REPO", "/repo"))
    tmo = int(os.environ.get("TMO", "10000"))
    if pat == "--lemmas":
        prove_lemmas(tmo)
        return
    for key, c in registry.CONTRACTS.items():
        if pat not in key or c.trusted:
            continue
        E = Engine(repo)
        t0 = time.time()
        try:
            np = E.verify(key)
        except Unsupported as ex:
            print("UNSUPPORTED", key, ex)
            if os.environ.get("TB"): traceback.print_exc()
            continue
        vcs = [E.vcs[d] for d in E.order]
        if os.environ.get("VC"):
            vcs = [v for v in vcs if any(x in v.name for x in os.environ["VC"].split(","))]
        solve.discharge(vcs, timeout_ms=tmo)
        bad = [v for v in vcs if v.status != "unsat"]
        print("%s  paths=%d vcs=%d undischarged=%d  %.1fs" % (key, np, len(vcs), len(bad), time.time() - t0))
        if os.environ.get("SHOWT"):
            for v in sorted(vcs, key=lambda v: -v.seconds)[:int(os.environ["SHOWT"])]:
                print("   t=%.1fs %s %s %s %s" % (v.seconds, v.name, v.status, v.backend, v.tried if v.seconds > 3 else ""))
        if os.environ.get("DUMPALL"):
            for v in vcs:
                open("/tmp/vcd_%s.smt2" % v.name.replace("/", "_").replace("[", "_").replace("]", ""), "w").write(v.smt2)
        for v in bad:
            print("   ", v.name, v.status, "line", v.line, "|", v.detail, "|", v.tried)
            if v.status == "sat" and v.model:
                print("      model:", {k: x for k, x in v.model.items() if "!" in k and x is not None and not k.startswith("k!")})
            if os.environ.get("DUMP"):
                open("/tmp/vc_%s.smt2" % v.name.replace("/", "_").replace("[", "_").replace("]", ""), "w").write(v.smt2)
main()
