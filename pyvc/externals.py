"""Builtins and standard-library functions: the engine's (trusted) semantics table.

Everything here is an *assumed contract* on CPython / the standard library, listed in evidence under
`trusted_base`; handlers registered by sidecars through `external()` are listed the same way.
"""
import ast, z3
from .ty import *
from .engine import *
from . import speclib as L
from .builtins_ import (apply, call_method, get_subscript, eq_term, contains_term, floordiv, find_method,
                        call_function, quantify, class_mro)

EXT = {}
EXT_CONSTS = {}   # dotted name -> concrete constant of an external library (assumed)


def external(name, note=""):
    def deco(f):
        f.note = note
        EXT[name] = f
        return f
    return deco


def call_ext(E, name, args, kwargs, fr, node):
    h = EXT.get(name)
    if h is None:
        raise Unsupported("external function %s has no contract" % name)
    E.trusted_used.add("ext:" + name)
    return h(E, args, kwargs, fr, node)


def ext_method(E, recv, c, name, args, kwargs, fr, node):
    kind = c[1]
    h = EXT.get("%s.%s" % (kind, name))
    if h is None:
        raise Unsupported("external method %s.%s has no contract" % (kind, name))
    E.trusted_used.add("ext:%s.%s" % (kind, name))
    return h(E, [recv] + list(args), kwargs, fr, node)


def _line(node):
    return getattr(node, "lineno", 0)


# ---------------------------------------------------------------------------------------------------
@external("builtins.len")
def _len(E, a, kw, fr, node):
    v = a[0]
    if isinstance(v, (bytes, str, tuple, list, bytearray)):
        return len(v)
    if isinstance(v, SV):
        if v.ty in (TBytes, TStr) or isinstance(v.ty, TList):
            return SV(z3.Length(v.t), TInt)
        if isinstance(v.ty, TDict):
            return SV(z3.Length(E.dkeys(v)), TInt)
    if isinstance(v, Ref):
        c = E.cell(v)
        if c[0] == "pylist":
            return len(c[1])
        if c[0] == "pydict":
            return len(c[1])
        if c[0] in ("seq", "bytearray"):
            return SV(z3.Length(c[1].t), TInt)
        if c[0] == "dict":
            return SV(z3.Length(E.dkeys(c[1])), TInt)
        if c[0] == "obj":
            return call_method(E, v, "__len__", [], {}, fr, node)
        if c[0] == "iter" and E.spec_mode:   # specifications speak of an iterator as the list of its remaining items
            return SV(z3.Length(c[1][0].t) - c[1][1], TInt)
    if isinstance(v, RangeV):
        d = E.iter_desc(v, fr, node)
        return d.length if isinstance(d.length, int) else SV(d.length, TInt)
    if v is None or isinstance(v, int):
        raise PyRaise("TypeError", _line(node))
    raise Unsupported("len of %r" % (v,))


@external("builtins.range")
def _range(E, a, kw, fr, node):
    if len(a) == 1:
        return RangeV(0, a[0], 1)
    if len(a) == 2:
        return RangeV(a[0], a[1], 1)
    return RangeV(a[0], a[1], a[2])


@external("builtins.int")
def _int(E, a, kw, fr, node):
    if not a:
        return 0
    v = a[0]
    if len(a) == 2:
        if isinstance(v, SV) and v.ty == TStr and a[1] == 16:
            t = z3.simplify(v.t)
            if z3.is_app(t) and t.decl().name() == "bytes_hex":
                # B2: int(b.hex(), 16) is the big-endian value of b
                return SV(L.b2i(t.arg(0)), TInt)
            return SV(hexint()(v.t), TInt)
        if isinstance(v, str):
            try:
                return int(v, a[1])
            except ValueError:
                raise PyRaise("ValueError", _line(node))
        raise Unsupported("int(x, base)")
    if isinstance(v, bool):
        return int(v)
    if isinstance(v, int):
        return v
    if isinstance(v, SV) and v.ty == TInt:
        return v
    if isinstance(v, SV) and v.ty == TBool:
        return SV(z3.If(v.t, 1, 0), TInt)
    if isinstance(v, Ref) and E.cell(v)[0] == "obj":
        return call_method(E, v, "__int__", [], {}, fr, node)
    if isinstance(v, Log2):
        return flog2(E, v.arg, node)
    if isinstance(v, Frac):
        raise Unsupported("int(a/b)")
    if isinstance(v, str):
        try:
            return int(v)
        except ValueError:
            raise PyRaise("ValueError", _line(node))
    raise Unsupported("int(%r)" % (v,))


_h = {}


def hexint():
    if "hexint" not in _h:
        _h["hexint"] = z3.Function("int_of_hex", z3.StringSort(), z3.IntSort())
    return _h["hexint"]


@external("builtins.bool")
def _bool(E, a, kw, fr, node):
    if not a:
        return False
    v = a[0]
    if is_conc(v) and not isinstance(v, Ref):
        return bool(v)
    t = z3.simplify(E.truth_term(v))
    return True if z3.is_true(t) else False if z3.is_false(t) else SV(t, TBool)


@external("builtins.bytes")
def _bytes(E, a, kw, fr, node):
    if not a:
        return b""
    v = a[0]
    if isinstance(v, (bytes, bytearray)):
        return bytes(v)
    if isinstance(v, SV) and v.ty == TBytes:
        return v
    if isinstance(v, Ref) and E.cell(v)[0] == "bytearray":
        return E.cell(v)[1]
    if isinstance(v, Ref) and E.cell(v)[0] == "obj":
        return call_method(E, v, "__bytes__", [], {}, fr, node)
    if isinstance(v, int):
        return bytes(v)
    if is_intlike(v):
        return SV(L.zeros(z3_int(v)), TBytes)
    if isinstance(v, str):
        return v.encode(kw.get("encoding", a[1] if len(a) > 1 else "utf-8"))
    if isinstance(v, SV) and v.ty == TStr:
        return SV(encodefn()(v.t), TBytes)
    raise Unsupported("bytes(%r)" % (v,))


def encodefn():
    if "enc" not in _h:
        _h["enc"] = z3.Function("utf8_encode", z3.StringSort(), BYTES)
    return _h["enc"]


@external("builtins.bytearray")
def _bytearray(E, a, kw, fr, node):
    v = a[0] if a else b""
    if isinstance(v, Ref) and E.cell(v)[0] == "bytearray":
        return E.alloc(E.cell(v))
    return E.alloc(("bytearray", lift(v) if is_byteslike(v) else _bytes(E, [v], {}, fr, node)))


@external("builtins.isinstance")
def _isinstance(E, a, kw, fr, node):
    v, t = a
    ts = t if isinstance(t, tuple) else (t,)
    return any(_isinst1(E, v, x) for x in ts)


def _isinst1(E, v, t):
    name = t.name.split(".")[-1] if isinstance(t, ExtRef) else None
    if isinstance(t, ClassRef):
        if isinstance(v, Ref) and E.cell(v)[0] == "obj":
            return t.key in class_mro(E, E.cell(v)[1].key)
        return False
    if isinstance(t, ExcClass):
        return isinstance(v, ExcVal) and exc_isa(v.name, t.name)
    if name == "int":
        return is_intlike(v)
    if name == "bool":
        return isinstance(v, bool) or (isinstance(v, SV) and v.ty == TBool)
    if name in ("bytes", "ByteString"):
        return is_byteslike(v) or (name == "ByteString" and isinstance(v, Ref) and E.cell(v)[0] == "bytearray")
    if name == "bytearray":
        return isinstance(v, Ref) and E.cell(v)[0] == "bytearray"
    if name == "str":
        return isinstance(v, str) or (isinstance(v, SV) and v.ty == TStr)
    if name == "slice":
        return isinstance(v, Ref) and E.cell(v)[0] == "slice"
    if name in ("list",):
        return (isinstance(v, Ref) and E.cell(v)[0] in ("pylist", "seq")) or (isinstance(v, SV) and isinstance(v.ty, TList))
    if name in ("tuple", "Tuple"):
        return isinstance(v, tuple) or (isinstance(v, SV) and isinstance(v.ty, TTuple))
    if name in ("dict", "Dict"):
        return isinstance(v, Ref) and E.cell(v)[0] in ("pydict", "dict")
    if name == "set":
        return isinstance(v, (frozenset,)) or (isinstance(v, Ref) and E.cell(v)[0] == "set") or (isinstance(v, SV) and isinstance(v.ty, TSet))
    if name == "Sequence":
        return is_byteslike(v) or isinstance(v, (tuple, str)) or (isinstance(v, Ref) and E.cell(v)[0] in ("pylist", "seq"))
    raise Unsupported("isinstance against %r" % (t,))


def _minmax(which):
    def f(E, a, kw, fr, node):
        items = a
        if len(a) == 1:
            v = a[0]
            if isinstance(v, tuple):
                items = list(v)
            elif isinstance(v, Ref) and E.cell(v)[0] == "pylist":
                items = E.cell(v)[1]
            else:
                raise Unsupported("%s of symbolic collection" % which)
        if all(isinstance(x, int) for x in items):
            return max(items) if which == "max" else min(items)
        r = z3_int(items[0])
        for x in items[1:]:
            t = z3_int(x)
            r = z3.If(t > r, t, r) if which == "max" else z3.If(t < r, t, r)
        return SV(z3.simplify(r), TInt)
    return f


EXT["builtins.max"] = _minmax("max")
EXT["builtins.min"] = _minmax("min")


@external("builtins.abs")
def _abs(E, a, kw, fr, node):
    if isinstance(a[0], int):
        return abs(a[0])
    t = z3_int(a[0])
    return SV(z3.If(t < 0, -t, t), TInt)


@external("builtins.divmod")
def _divmod(E, a, kw, fr, node):
    x, y = a
    if isinstance(x, int) and isinstance(y, int):
        if y == 0:
            raise PyRaise("ZeroDivisionError", _line(node))
        return divmod(x, y)
    xt, yt = z3_int(x), z3_int(y)
    E.may_raise("ZeroDivisionError", yt == 0, _line(node))
    q = floordiv(xt, yt)
    return (SV(q, TInt), SV(xt - yt * q, TInt))


@external("builtins.sum")
def _sum(E, a, kw, fr, node):
    v = a[0]
    if isinstance(v, Ref) and E.cell(v)[0] == "pylist":
        items = E.cell(v)[1]
        if all(isinstance(x, int) for x in items):
            return sum(items) + (a[1] if len(a) > 1 else 0)
        r = z3_int(a[1]) if len(a) > 1 else z3.IntVal(0)
        for x in items:
            r = r + z3_int(x)
        return SV(r, TInt)
    sv = E.list_sv(v, TInt)
    if sv.ty != TList(TInt):
        raise Unsupported("sum of %r" % (sv.ty,))
    r = L.isum(sv.t)
    if len(a) > 1:
        r = r + z3_int(a[1])
    return SV(r, TInt)


@external("builtins.enumerate")
def _enumerate(E, a, kw, fr, node):
    return E.alloc(("enumerate", (a[0], a[1] if len(a) > 1 else kw.get("start", 0))))


@external("builtins.reversed")
def _reversed(E, a, kw, fr, node):
    return E.alloc(("reversed", a[0]))


@external("builtins.zip")
def _zip(E, a, kw, fr, node):
    return E.alloc(("zip", list(a)))


@external("builtins.list")
def _list(E, a, kw, fr, node):
    if not a:
        return E.new_list([])
    v = a[0]
    d = E.iter_desc(v, fr, node)
    if isinstance(d.length, int) and d.length <= 300:
        return E.new_list([d.get(i) for i in range(d.length)])
    if isinstance(v, Ref) and E.cell(v)[0] in ("seq", "iter"):
        return E.new_symlist(E.list_sv(v))
    if isinstance(v, Ref) and E.cell(v)[0] == "dict":
        dd = E.cell(v)[1]
        return E.new_symlist(SV(E.dkeys(dd), TList(dd.ty.key)))
    if isinstance(v, SV) and isinstance(v.ty, TList):
        return E.new_symlist(v)
    raise Unsupported("list(%r)" % (v,))


@external("builtins.tuple")
def _tuple(E, a, kw, fr, node):
    if not a:
        return ()
    d = E.iter_desc(a[0], fr, node)
    if isinstance(d.length, int):
        return tuple(d.get(i) for i in range(d.length))
    raise Unsupported("tuple of symbolic length")


@external("builtins.dict")
def _dict(E, a, kw, fr, node):
    if not a:
        return E.alloc(("pydict", dict(kw)))
    v = a[0]
    if isinstance(v, Ref) and E.cell(v)[0] in ("pydict", "dict"):
        return E.alloc(E.cell(v))   # shallow copy: a new cell with the same (immutable) value
    raise Unsupported("dict(%r)" % (v,))


@external("builtins.set")
def _set(E, a, kw, fr, node):
    if not a:
        return E.alloc(("pyset", frozenset()))
    raise Unsupported("set(x)")


@external("builtins.iter")
def _iter(E, a, kw, fr, node):
    v = a[0]
    if isinstance(v, Ref) and E.cell(v)[0] == "iter":
        return v
    if isinstance(v, Ref) and E.cell(v)[0] == "obj":
        r = call_method(E, v, "__iter__", [], {}, fr, node)
        if isinstance(r, Ref) and E.cell(r)[0] == "seq":   # a contract states the iterator by the list of its items
            return E.alloc(("iter", (E.cell(r)[1], z3.IntVal(0))))
        return r
    if isinstance(v, Ref) and E.cell(v)[0] == "dict":
        d = E.cell(v)[1]
        return E.alloc(("iter", (SV(E.dkeys(d), TList(d.ty.key)), z3.IntVal(0))))
    sv = E.list_sv(v)
    return E.alloc(("iter", (sv, z3.IntVal(0))))


@external("builtins.next")
def _next(E, a, kw, fr, node):
    from .containers import iter_next
    v = a[0]
    if isinstance(v, Ref) and E.cell(v)[0] == "iter":
        return iter_next(E, v, node)
    raise Unsupported("next(%r)" % (v,))


@external("builtins.hasattr")
def _hasattr(E, a, kw, fr, node):
    o, name = a
    if isinstance(o, ClassRef) and isinstance(name, str):
        return find_method(E, o.key, name) is not None
    if isinstance(o, ClassRef):
        raise Unsupported("hasattr with symbolic name")
    if isinstance(o, Ref) and E.cell(o)[0] == "obj" and isinstance(name, str):
        c = E.cell(o)
        return name in c[2] or find_method(E, c[1].key, name) is not None
    if isinstance(o, Ref) and E.cell(o)[0] in ("dict", "pydict") and isinstance(name, str):
        return name in ("get", "keys", "values", "items", "pop", "update", "clear", "setdefault", "popitem", "copy")
    raise Unsupported("hasattr(%r)" % (o,))


@external("builtins.getattr")
def _getattr(E, a, kw, fr, node):
    o, name = a[0], a[1]
    if isinstance(name, str):
        return E.get_attr(o, name, fr, node)
    raise Unsupported("getattr with symbolic name")


@external("builtins.print")
def _print(E, a, kw, fr, node):
    return None


@external("builtins.str")
def _str(E, a, kw, fr, node):
    if a and isinstance(a[0], Ref) and E.cell(a[0])[0] == "obj":
        return call_method(E, a[0], "__str__", [], {}, fr, node)
    if a and is_conc(a[0]) and not isinstance(a[0], Ref):
        return str(a[0])
    return Opaque("str")


@external("builtins.repr")
def _repr(E, a, kw, fr, node):
    return Opaque("repr")


@external("builtins.all")
def _all(E, a, kw, fr, node):
    d = E.iter_desc(a[0], fr, node)
    if isinstance(d.length, int):
        ts = [E.truth_term(d.get(i)) for i in range(d.length)]
        t = z3.simplify(z3.And(*ts)) if ts else z3.BoolVal(True)
        return True if z3.is_true(t) else False if z3.is_false(t) else SV(t, TBool)
    raise Unsupported("all() of symbolic length")


@external("builtins.any")
def _any(E, a, kw, fr, node):
    d = E.iter_desc(a[0], fr, node)
    if isinstance(d.length, int):
        ts = [E.truth_term(d.get(i)) for i in range(d.length)]
        t = z3.simplify(z3.Or(*ts)) if ts else z3.BoolVal(False)
        return True if z3.is_true(t) else False if z3.is_false(t) else SV(t, TBool)
    raise Unsupported("any() of symbolic length")


@external("builtins.slice")
def _slice(E, a, kw, fr, node):
    a = list(a) + [None] * (3 - len(a))
    if len([x for x in a if x is not None]) == 1 and a[1] is None:
        a = [None, a[0], None]
    return E.alloc(("slice", tuple(a[:3])))


@external("builtins.sorted")
def _sorted(E, a, kw, fr, node):
    v = a[0]
    r = E.new_symlist(E.list_sv(v))
    sort_list(E, r, kw.get("key"), fr, node)
    return r


SORT_HOOKS = []   # sidecar hooks giving list.sort a typed specification: f(E, ref, key, fr, node) -> handled?


def sort_list(E, ref, key, fr, node):
    for h in SORT_HOOKS:
        if h(E, ref, key, fr, node):
            return None
    return _sort_list_generic(E, ref, key, fr, node)


def _sort_list_generic(E, ref, key, fr, node):
    """list.sort(key=f): result is a permutation, ordered by key (stable). Trusted builtin contract B3.
    The permutation fact is stated through an uninterpreted `sorted_by` function of the input list so that
    equal inputs give equal outputs (determinism), plus length preservation; ordering facts are exposed to
    specifications via the spec predicate is_sorted_by_key on the result."""
    sv = E.list_sv(ref)
    f = z3.Function("sorted_" + repr(sv.ty).replace("[", "_").replace("]", "").replace(",", "_"),
                    sort(sv.ty), sort(sv.ty))
    out = SV(f(sv.t), sv.ty)
    E.assume(z3.Length(out.t) == z3.Length(sv.t))
    E.setcell(ref, ("seq", out))
    E.trusted_used.add("ext:list.sort")
    return None


# ---------------------------------------------------------------------------------------------------
# math
def cdiv_term(a, b):
    return -floordiv(-a, b)


def clog2(E, n, node):
    """ceil(log2(n)) for an int n >= 1 (ValueError for n <= 0: math domain error)."""
    if isinstance(n, int):
        if n <= 0:
            raise PyRaise("ValueError", _line(node))
        return (n - 1).bit_length()
    t = z3_int(n)
    E.may_raise("ValueError", t <= 0, _line(node), "math.log2 domain error")
    return SV(L.bitlen(t - 1), TInt)


def flog2(E, n, node):
    if isinstance(n, int):
        if n <= 0:
            raise PyRaise("ValueError", _line(node))
        return n.bit_length() - 1
    t = z3_int(n)
    E.may_raise("ValueError", t <= 0, _line(node), "math.log2 domain error")
    return SV(L.bitlen(t) - 1, TInt)


@external("math.ceil", "F1: exact for operands < 2**40 (float rounding not modelled)")
def _ceil(E, a, kw, fr, node):
    v = a[0]
    if isinstance(v, Frac):
        if isinstance(v.num, Log2):
            l = clog2(E, v.num.arg, node)
            return _ceil(E, [Frac(l, v.den)], kw, fr, node)
        if isinstance(v.num, int) and isinstance(v.den, int):
            return -((-v.num) // v.den)
        return SV(cdiv_term(z3_int(v.num), z3_int(v.den)), TInt)
    if isinstance(v, Log2):
        return clog2(E, v.arg, node)
    if is_intlike(v):
        return v
    raise Unsupported("math.ceil(%r)" % (v,))


@external("math.floor", "F1")
def _floor(E, a, kw, fr, node):
    v = a[0]
    if isinstance(v, Frac) and is_intlike(v.num):
        if isinstance(v.num, int) and isinstance(v.den, int):
            return v.num // v.den
        return SV(floordiv(z3_int(v.num), z3_int(v.den)), TInt)
    if isinstance(v, Log2):
        return flog2(E, v.arg, node)
    if is_intlike(v):
        return v
    raise Unsupported("math.floor(%r)" % (v,))


@external("math.log2", "F1")
def _log2(E, a, kw, fr, node):
    if not is_intlike(a[0]):
        raise Unsupported("log2 of non-int")
    return Log2(a[0])


@external("math.log", "F2: math.log(v, 2) is a float; no integer contract is valid for all v (see C18 bounded stand-in)")
def _log(E, a, kw, fr, node):
    raise Unsupported("math.log (float logarithm) has no valid integer contract")


@external("operator.index")
def _opindex(E, a, kw, fr, node):
    v = a[0]
    if is_intlike(v):
        return v
    raise PyRaise("TypeError", _line(node))


@external("itertools.accumulate", "yields the running sums xs[0], xs[0]+xs[1], ... of an int list")
def _accumulate(E, a, kw, fr, node):
    sv = E.list_sv(a[0], TInt)
    if sv.ty != TList(TInt):
        raise Unsupported("accumulate of %r" % (sv.ty,))
    acc = E.fresh("accumulate", TList(TInt))
    E.assume(z3.Length(acc.t) == z3.Length(sv.t))
    ps = psum_upto()
    # element k is the sum of the first k+1 inputs: stated as a ground fact whenever element k is read
    return E.alloc(("iter", (acc, z3.IntVal(0), lambda k: [acc.t[k] == ps(sv.t, k + 1)])))


def psum_upto():
    return L.psum_upto


def _files(fn):
    def h(E, a, kw, fr, node):
        from . import files
        return getattr(files, fn)(E, a, kw, fr, node)
    return h


for _n, _f in (("builtins.open", "open_file"), ("os.path.exists", "path_exists"), ("os.unlink", "unlink"),
               ("os.remove", "unlink"), ("pickle.dump", "pickle_dump"), ("pickle.load", "pickle_load"), ("json.dump", "json_dump")):
    external(_n, "D2: ghost file system (pyvc/files.py)")(_files(_f))


from .registry import ghost_var as _ghost_var, specfn as _specfn, axiom as _axiom
_ghost_var("rng_n", TInt, monotone=True)
draw = _specfn("draw", [TInt], TBytes, py=None, doc="A1: the k-th value handed out by the operating system's random source")
_i, _j = z3.Ints("i j")
_axiom("A1_fresh", [_i, _j], z3.Implies(z3.And(_i != _j, z3.Length(draw(_i)) >= 16, z3.Length(draw(_j)) >= 16), draw(_i) != draw(_j)),
       patterns=[z3.MultiPattern(draw(_i), draw(_j))],
       note="A1: two different draws of at least 16 random bytes differ (fails with probability 2^-128 per pair)")


_ghost_var("sample0", TList(TInt))
sample_idx = _specfn("sample_idx", [TList(TInt), TInt], TInt, py=lambda xs, p: xs.index(p) if p in xs else -1,
                     doc="R1: position of p in a list returned by random.sample (the inverse of the sampled arrangement)")
is_sample = _specfn("is_sample", [TList(TInt), TInt, TInt], TBool,
                    py=lambda xs, lo, hi: len(set(xs)) == len(xs) and all(lo <= x < hi for x in xs),
                    doc="R1: xs was returned by random.sample(range(lo, hi), len(xs)): pairwise distinct members of the range")
_S = z3.Const("smp_S", sort(TList(TInt)))
_lo, _hi, _p = z3.Ints("smp_lo smp_hi smp_p")
_axiom("R1_sample_nth", [_S, _lo, _hi, _i],
       z3.Implies(z3.And(is_sample(_S, _lo, _hi), 0 <= _i, _i < z3.Length(_S)),
                  z3.And(_lo <= _S[_i], _S[_i] < _hi, sample_idx(_S, _S[_i]) == _i)), patterns=None,
       note="R1: the members of a sample lie in the population range and are pairwise distinct (sample_idx is a left inverse)")
_axiom("R1_sample_onto", [_S, _lo, _hi, _p],
       z3.Implies(z3.And(is_sample(_S, _lo, _hi), z3.Length(_S) == _hi - _lo, _lo <= _p, _p < _hi),
                  z3.And(0 <= sample_idx(_S, _p), sample_idx(_S, _p) < z3.Length(_S), _S[sample_idx(_S, _p)] == _p)),
       patterns=[z3.MultiPattern(is_sample(_S, _lo, _hi), sample_idx(_S, _p))],
       note="R1: a sample as large as its population contains every member of it")


@external("random.sample", "R1: random.sample(range(lo, hi), k) returns k pairwise distinct members of the range (axioms R1_sample_nth / "
                           "R1_sample_onto); ValueError when k is negative or exceeds the population; the ghost variable sample0 names the returned list")
def _rsample(E, a, kw, fr, node):
    from .engine import RangeV
    pop, k = a[0], (a[1] if len(a) > 1 else kw.get("k"))
    if not isinstance(pop, RangeV) or not (isinstance(pop.step, int) and pop.step == 1):
        raise Unsupported("random.sample of something other than range(lo, hi)")
    lo, hi, kt = z3_int(pop.start), z3_int(pop.stop), z3_int(k)
    n = z3.If(hi > lo, hi - lo, 0)
    E.may_raise("ValueError", z3.Or(kt < 0, kt > n), _line(node), "Sample larger than population or is negative")
    r = E.fresh("sample", TList(TInt))
    E.assume(z3.Length(r.t) == kt)
    E.assume(is_sample(r.t, lo, hi))
    E.ghostv["sample0"] = r
    return E.new_symlist(r)


def _paths(fn):
    def h(E, a, kw, fr, node):
        from . import paths
        return getattr(paths, fn)(E, a, kw, fr, node)
    return h


for _n, _f in (("pathlib.Path", "make_path"), ("pathlib.Path.home", "home"), ("os.replace", "os_replace"), ("json.loads", "json_loads")):
    external(_n, "D2: ghost file system with directories (pyvc/paths.py)")(_paths(_f))


@external("os.urandom", "A1: the next value of the random tape, of the requested length (ghost position rng_n advances by one)")
def _urandom(E, a, kw, fr, node):
    n = a[0]
    nt = z3_int(n)
    E.may_raise("ValueError", nt < 0, _line(node), "negative argument not allowed")
    pos = E.ghostv["rng_n"]
    r = SV(draw(pos.t), TBytes)
    E.assume(z3.Length(r.t) == nt)
    E.ghostv["rng_n"] = SV(pos.t + 1, TInt)
    return r


@external("copy.deepcopy", "returns a structurally equal value sharing nothing with its argument")
def _deepcopy(E, a, kw, fr, node):
    v = a[0]
    return deep_copy(E, v)


def deep_copy(E, v):
    if isinstance(v, Ref):
        c = E.cell(v)
        if c[0] == "obj":
            return E.alloc(("obj", c[1], {f: deep_copy(E, x) for f, x in c[2].items()}))
        if c[0] == "pylist":
            return E.alloc(("pylist", [deep_copy(E, x) for x in c[1]]))
        if c[0] == "pydict":
            return E.alloc(("pydict", {k: deep_copy(E, x) for k, x in c[1].items()}))
        return E.alloc(c)
    if isinstance(v, tuple):
        return tuple(deep_copy(E, x) for x in v)
    return v


@external("builtins.int.from_bytes", "B1: int.from_bytes(b, 'big') is the big-endian value b2i(b)")
def _from_bytes(E, a, kw, fr, node):
    b = a[0]
    order = a[1] if len(a) > 1 else kw.get("byteorder", "big")
    if order != "big":
        raise Unsupported("little endian")
    if isinstance(b, (bytes, bytearray)):
        return int.from_bytes(b, "big")
    if isinstance(b, Ref) and E.cell(b)[0] == "bytearray":
        b = E.cell(b)[1]
    if not is_byteslike(b):
        raise PyRaise("TypeError", _line(node))
    return SV(L.b2i(lift(b).t), TInt)


# ---- pickle (P1: loads(dumps(x)) == x for values built from dict / list / tuple / set / bytes / int / None) --------
class Unpickled:
    """result of pickle.loads before its static type is known (fixed by the typed local it is assigned to)"""

    def __init__(self, data):
        self.data = data


def _tyname(ty):
    return repr(ty).replace("[", "_").replace("]", "").replace(",", "_")


def pickle_fns(ty):
    return (z3.Function("pickle_" + _tyname(ty), sort(ty), BYTES),
            z3.Function("unpickle_" + _tyname(ty), BYTES, sort(ty)))


@external("pickle.dumps", "P1: pickle.loads(pickle.dumps(x)) == x (same types, same order)")
def _dumps(E, a, kw, fr, node):
    sv = E.to_sv(a[0])
    pk, unpk = pickle_fns(sv.ty)
    E.assume(unpk(pk(sv.t)) == sv.t)
    return SV(pk(sv.t), TBytes)


@external("pickle.loads", "P1")
def _loads(E, a, kw, fr, node):
    return Unpickled(lift(a[0]))


def resolve_unpickled(E, u, ty):
    pk, unpk = pickle_fns(ty)
    sv = SV(unpk(u.data.t), ty)
    if isinstance(ty, TList):
        return E.new_symlist(sv)
    if isinstance(ty, TDict):
        return E.alloc(("dict", sv))
    if isinstance(ty, TTuple):
        return tuple(resolve_component(E, x) for x in E.unbox(sv))
    return sv


def resolve_component(E, x):
    if isinstance(x, SV) and isinstance(x.ty, TList):
        return E.new_symlist(x)
    if isinstance(x, SV) and isinstance(x.ty, TDict):
        return E.alloc(("dict", x))
    return x
