"""Discharging verification conditions: definitional instantiation, SMT-LIB dump, worker pool, back ends."""
import z3, time, os, subprocess, tempfile, hashlib, json, multiprocessing, re
from .registry import SPEC, LEMMAS

DEPTH = 2


def _has_var(t, cache):
    k = t.get_id()
    if k in cache:
        return cache[k]
    if z3.is_var(t):
        r = True
    elif z3.is_quantifier(t):
        r = True
    else:
        r = any(_has_var(c, cache) for c in t.children())
    cache[k] = r
    return r


def spec_apps(formulas, seen, cache, reveal=(), only=None):
    """ground applications of defined spec functions occurring in the formulas (outside binders)"""
    out = []
    names = {f.name: f for f in SPEC.values() if f.define is not None and (not f.opaque or f.name in reveal)
             and (only is None or f.name in only)}
    visited = set()

    def walk(t):
        k = t.get_id()
        if k in visited:
            return
        visited.add(k)
        if z3.is_quantifier(t):
            return
        if z3.is_app(t):
            n = t.decl().name()
            if n in names and t.decl().arity() == len(names[n].arg_tys) and k not in seen and not _has_var(t, cache):
                seen.add(k)
                out.append((names[n], t))
            for c in t.children():
                walk(c)
    for f in formulas:
        walk(f)
    return out


def instantiate(formulas, depth=DEPTH, reveal=(), only=None):
    """Add the defining equation of every defined spec-function application, `depth` rounds."""
    seen, cache = set(), {}
    extra = []
    frontier = list(formulas)
    for _ in range(depth):
        apps = spec_apps(frontier, seen, cache, reveal, only)
        if not apps:
            break
        new = []
        for f, t in apps:
            new.append(t == f.define(*t.children()))
        extra.extend(new)
        frontier = new
    return extra


def build_query(vc, depth=DEPTH, extra_assumptions=()):
    fs = list(vc.assumptions) + list(extra_assumptions) + [z3.Not(vc.goal)]
    # non-recursive definitions a lemma proof wants expanded in place (equations between sequence-valued
    # uninterpreted functions defeat cvc5; the expanded terms do not)
    for name in (getattr(vc, "inline_defs", None) or ()):
        f = SPEC[name]
        vs = [z3.Var(i, f.decl.domain(i)) for i in range(f.decl.arity())]
        body = f.define(*vs)
        fs = [z3.substitute_funs(x, (f.decl, body)) for x in fs]
    # pattern-less lemmas are only usable through explicit ground instances (hints); giving the bare
    # quantifier to the solver would only start model-based instantiation
    lem = [LEMMAS[n].formula for n in sorted(vc.uses) if n in LEMMAS and (LEMMAS[n].patterns or not LEMMAS[n].vars)]
    inst = instantiate(fs, depth, getattr(vc, "reveal", ()), getattr(vc, "unfold_only", None))
    # non-recursive ("macro") definitions may also be needed at terms that only E-matching creates
    # ... but only of the functions that occur in this query (directly or through another included definition)
    occurring, seen_ids = set(), set()

    def names_in(t):
        if t.get_id() in seen_ids:
            return
        seen_ids.add(t.get_id())
        if z3.is_quantifier(t):
            names_in(t.body())
            for i in range(t.num_patterns()):
                names_in(t.pattern(i))
            return
        if z3.is_app(t):
            occurring.add(t.decl().name())
            for c in t.children():
                names_in(c)
    for x in lem + fs + inst:
        names_in(x)
    added, progress = set(), True
    while progress:
        progress = False
        for f in SPEC.values():
            if f.name in added or f.name not in occurring:
                continue
            if f.macro and f.define is not None and (not f.opaque or f.name in getattr(vc, "reveal", ())):
                vs = [z3.Const("m%d_%s" % (i, f.name), f.decl.domain(i)) for i in range(f.decl.arity())]
                q = z3.ForAll(vs, f.decl(*vs) == f.define(*vs), patterns=[f.decl(*vs)])
                lem.append(q)
                names_in(q)
                added.add(f.name)
                progress = True
    s = z3.Solver()
    for f in lem + fs + inst:
        s.add(f)
    return s.to_smt2()


# ---------------------------------------------------------------------------------------------------
def _val_to_py(v):
    if z3.is_int_value(v):
        return v.as_long()
    if z3.is_true(v):
        return True
    if z3.is_false(v):
        return False
    if z3.is_bv_value(v):
        return v.as_long()
    if z3.is_string_value(v):
        return v.as_string()
    if z3.is_seq(v):
        items = _seq_items(v)
        if items is None:
            return None
        if v.sort().basis().kind() == z3.Z3_BV_SORT:
            return {"bytes": bytes(items).hex()}
        return items
    if z3.is_app(v) and v.sort().kind() == z3.Z3_DATATYPE_SORT:
        n = v.decl().name()
        if n == "none":
            return None
        if n == "some":
            return _val_to_py(v.arg(0))
        return {"tuple": [_val_to_py(c) for c in v.children()]}
    return None


def _seq_items(v):
    k = v.decl().kind() if z3.is_app(v) else None
    if k == z3.Z3_OP_SEQ_EMPTY:
        return []
    if k == z3.Z3_OP_SEQ_UNIT:
        x = _val_to_py(v.arg(0))
        return [x]
    if k == z3.Z3_OP_SEQ_CONCAT:
        out = []
        for c in v.children():
            r = _seq_items(c)
            if r is None:
                return None
            out.extend(r)
        return out
    return None


def _solve_one(task):
    smt2, timeout_ms, want_model, backends = task
    res = {"status": "unknown", "backend": None, "seconds": 0.0, "model": None, "tried": []}
    for be in backends:
        t0 = time.time()
        st, model = "unknown", None
        try:
            if be.startswith("z3-api"):
                ctx = z3.Context()
                s = z3.Solver(ctx=ctx)
                # z3's default strategy is unstable on ground sequence + arithmetic queries (the same query is
                # `unknown` at 8 s by default and `unsat` in 10 ms with another arithmetic core), hence a portfolio
                if be == "z3-api/arith2":
                    s.set("smt.arith.solver", 2)
                elif be == "z3-api/nombqi":
                    # E-matching only. (auto_config=false was dropped from the portfolio: with model-based quantifier
                    # instantiation it returned a non-reproducible `unsat` on a satisfiable canary query.)
                    s.set("smt.mbqi", False)
                elif be == "z3-api/seed":
                    s.set("smt.random_seed", 7)
                s.set("timeout", timeout_ms if be == "z3-api" else max(1000, timeout_ms // 2))
                s.from_string(smt2)
                r = s.check()
                st = str(r)
                if r == z3.sat and want_model:
                    m = s.model()
                    model = {}
                    for d in m.decls():
                        if d.arity() == 0:
                            try:
                                model[d.name()] = _val_to_py(m[d])
                            except Exception:
                                model[d.name()] = None
            elif be in ("cvc5", "z3-cli", "z3-new-cli"):
                with tempfile.NamedTemporaryFile("w", suffix=".smt2", delete=False, dir=os.environ.get("PYVC_TMP")) as f:
                    f.write("(set-logic ALL)\n" if be == "cvc5" else "")
                    txt = smt2
                    if be == "cvc5":   # z3 5.x spells the int/bit-vector conversions differently from cvc5 1.0
                        txt = txt.replace("(_ int_to_bv ", "(_ int2bv ").replace("ubv_to_int", "bv2nat").replace("bv2int", "bv2nat")
                        # z3's simplifier splits seq.nth into in-bounds / out-of-bounds parts; cvc5 knows only seq.nth
                        txt = txt.replace("seq.nth_u", "seq.nth").replace("seq.nth_i", "seq.nth")
                    f.write(txt)
                    if "(check-sat)" not in smt2:
                        f.write("\n(check-sat)\n")
                    path = f.name
                try:
                    if be == "cvc5":
                        cmd = ["/usr/bin/cvc5", "--strings-exp", "--tlimit=%d" % timeout_ms, path]
                    elif be == "z3-new-cli":
                        cmd = ["z3-new", "-T:%d" % max(1, timeout_ms // 1000), path]
                    else:
                        cmd = ["/usr/bin/z3", "-T:%d" % max(1, timeout_ms // 1000), path]
                    p = subprocess.run(cmd, capture_output=True, text=True, timeout=timeout_ms / 1000 + 10)
                    out = p.stdout.strip().splitlines()
                    st = out[0].strip() if out and out[0].strip() in ("sat", "unsat", "unknown") else "unknown"
                    if out and out[0].startswith("(error"):
                        res["tried"].append("%s:ERROR:%s" % (be, " ".join(out[:2])[:160]))
                finally:
                    os.unlink(path)
        except Exception as ex:  # a back-end failure is never a verdict
            st = "unknown"
            res["tried"].append("%s:error:%s" % (be, type(ex).__name__))
        dt = time.time() - t0
        res["seconds"] += dt
        res["tried"].append("%s:%s:%.2fs" % (be, st, dt))
        if st == "unsat":
            res.update(status="unsat", backend=be)
            return res
        if st == "sat" and be.startswith("z3-api"):
            res.update(status="sat", backend=be, model=model)
            return res
    return res


_pool = None


def _njobs():
    return int(os.environ.get("PYVC_JOBS", "0")) or min(16, os.cpu_count() or 4)


def pool():
    global _pool
    if _pool is None:
        import concurrent.futures
        _pool = concurrent.futures.ProcessPoolExecutor(_njobs(), mp_context=multiprocessing.get_context("fork"))
    return _pool


def _isolated(task, conn):
    try:
        conn.send(_solve_one(task))
    finally:
        conn.close()


def run_tasks(tasks):
    """All tasks through the worker pool.  A back end that takes its worker process down (z3 has crashed inside
    model construction) must neither hang the check nor turn into a verdict: when the pool breaks, every task without a
    result is re-run in a process of its own, and the one that dies there is `unknown` with the crash recorded."""
    global _pool
    import concurrent.futures
    from concurrent.futures.process import BrokenProcessPool
    results = [None] * len(tasks)
    try:
        futs = [pool().submit(_solve_one, t) for t in tasks]
        for i, f in enumerate(futs):
            try:
                results[i] = f.result()
            except BrokenProcessPool:
                pass
    except BrokenProcessPool:
        pass
    todo = [i for i, r in enumerate(results) if r is None]
    if not todo:
        return results
    try:
        _pool.shutdown(wait=False, cancel_futures=True)
    except Exception:
        pass
    _pool = None
    ctx = multiprocessing.get_context("fork")
    running = {}
    todo = list(reversed(todo))
    while todo or running:
        while todo and len(running) < _njobs():
            i = todo.pop()
            a, b = ctx.Pipe(duplex=False)
            p = ctx.Process(target=_isolated, args=(tasks[i], b))
            p.start()
            b.close()
            running[i] = (p, a, time.time())
        for i, (p, a, t0) in list(running.items()):
            limit = tasks[i][1] / 1000.0 * (len(tasks[i][3]) + 1) + 60
            if a.poll(0.02):
                try:
                    results[i] = a.recv()
                except EOFError:
                    results[i] = None
                p.join(5)
            elif not p.is_alive() or time.time() - t0 > limit:
                if p.is_alive():
                    p.kill()
                p.join(5)
            else:
                continue
            if results[i] is None:
                results[i] = {"status": "unknown", "backend": None, "seconds": time.time() - t0, "model": None,
                              "tried": ["worker process died (exit code %s): back-end crash, not a verdict" % p.exitcode]}
            a.close()
            del running[i]
    return results


def discharge(vcs, timeout_ms=10000, backends=("z3-api", "cvc5", "z3-api/arith2", "z3-api/nombqi"), want_model=True, depths=(1, 2, 3)):
    """Discharge all undecided VCs in parallel. Fills vc.status / backend / seconds / model.
    Portfolio: each VC is first tried with one round of definitional unfolding and a short budget, the
    ones left open are retried with deeper unfolding and the full budget."""
    total = {}
    for rnd, depth in enumerate(depths):
        todo = [v for v in vcs if v.status is None or (v.status != "unsat" and rnd > 0 and not getattr(v, "final", False))]
        if not todo:
            break
        tasks = []
        tmo = timeout_ms if rnd == len(depths) - 1 else max(1000, timeout_ms // 4)
        for v in todo:
            d = getattr(v, "depth", None)
            d = depth if d is None else d
            v.smt2 = build_query(v, d)
            # a contract may ask for a multiple of the budget (heavy quantified contexts); capped so that a failing obligation
            # of such a contract cannot hold a thorough run for tens of minutes
            tasks.append((v.smt2, int(min(tmo * getattr(v, "budget", 1), max(tmo, 90000))), want_model, list(backends)))
        results = run_tasks(tasks)
        for v, r in zip(todo, results):
            v.status, v.backend, v.model = r["status"], r["backend"], r["model"]
            v.seconds = getattr(v, "seconds", 0.0) + r["seconds"]
            v.tried = getattr(v, "tried", None) or []
            v.tried = v.tried + ["d%d:%s" % (depth, x) for x in r["tried"]]
            if v.status == "sat":
                # a model of the *instantiated* query is only a candidate counterexample: deeper unfolding may refute it
                pass
