"""Run-time (concrete) evaluation of contracts against the real repository code.

Used for: replaying counterexamples, the CPython cross-check of contracts/spec functions, directed search
for failing inputs, and bounded stand-ins.  Runs as a subprocess:  python -m pyvc.rt <job.json>  -> JSON on
stdout.  Contract expressions are plain python; they are evaluated with `eval` in an environment where spec
functions are bound to their python implementations.
"""
import ast, sys, os, json, importlib, copy, traceback, random, itertools


# ---- value (de)serialisation ------------------------------------------------------------------------
def enc(v):
    if isinstance(v, (bytes, bytearray)):
        return {"b": bytes(v).hex()}
    if isinstance(v, bool) or v is None or isinstance(v, (int, str)):
        return v
    if isinstance(v, tuple):
        return {"t": [enc(x) for x in v]}
    if isinstance(v, list):
        return [enc(x) for x in v]
    if isinstance(v, dict):
        return {"d": [[enc(k), enc(x)] for k, x in v.items()]}
    if isinstance(v, (set, frozenset)):
        return {"s": sorted((enc(x) for x in v), key=repr)}
    if isinstance(v, ObjSpec):
        return {"o": v.cls, "f": {k: enc(x) for k, x in v.fields.items()}}
    if isinstance(v, slice):
        return {"sl": [v.start, v.stop, v.step]}
    return {"repr": repr(v)[:200]}


def dec(v):
    if isinstance(v, list):
        return [dec(x) for x in v]
    if isinstance(v, dict):
        if "b" in v:
            return bytes.fromhex(v["b"])
        if "t" in v:
            return tuple(dec(x) for x in v["t"])
        if "d" in v:
            return {dec(k): dec(x) for k, x in v["d"]}
        if "s" in v:
            return set(dec(x) for x in v["s"])
        if "o" in v:
            return ObjSpec(v["o"], {k: dec(x) for k, x in v["f"].items()})
        if "sl" in v:
            return slice(*v["sl"])
        if "repr" in v:
            return v["repr"]
    return v


class ObjSpec:
    """Description of an object to build: class key + field values."""

    def __init__(self, cls, fields):
        self.cls, self.fields = cls, fields


# ---- old() support ------------------------------------------------------------------------------------
class _OldLift(ast.NodeTransformer):
    def __init__(self):
        self.olds = []

    def visit_Call(self, node):
        if isinstance(node.func, ast.Name) and node.func.id == "old":
            self.olds.append(node.args[0])
            return ast.copy_location(ast.Name(id="__old_%d" % (len(self.olds) - 1), ctx=ast.Load()), node)
        if isinstance(node.func, ast.Name) and node.func.id == "use":
            return ast.copy_location(ast.Constant(True), node)
        return self.generic_visit(node)


def compile_expr(src):
    tree = ast.parse(src.strip(), mode="eval")
    tr = _OldLift()
    tree = ast.fix_missing_locations(tr.visit(tree))
    olds = [compile(ast.fix_missing_locations(ast.Expression(o)), "<old>", "eval") for o in tr.olds]
    return compile(tree, "<contract>", "eval"), olds


def base_env():
    from pyvc import registry
    env = {n: f.py for n, f in registry.SPEC.items() if f.py is not None}
    env.update(registry.CONSTS)
    env["implies"] = lambda a, b: (not a) or b
    env["dmap"] = lambda d: dict(d)
    env["dkeys"] = lambda d: list(d.keys())
    return env


def build_obj(spec, repo_root):
    from pyvc import registry
    cd = registry.CLASSES[spec.cls]
    rel, name = spec.cls.split(":")
    mod = importlib.import_module(rel[:-3].replace("/", "."))
    cls = getattr(mod, name)
    fields = {k: realise(v, repo_root) for k, v in spec.fields.items()}
    if cd.construct:
        env = {name: cls, **vars(mod)}
        env.update({"__f_" + k: v for k, v in fields.items()})
        obj = eval(cd.construct.format(**{k: "__f_" + k for k in fields}), env)
    else:
        obj = None
        if rel.startswith(("schemes/", "toolkit/")):
            # run the real constructor with its defaults first, so that attributes the sidecar does not declare (private state
            # added by a later change of the repository) exist; the declared fields are then set to the generated values
            try:
                obj = cls()
            except Exception:
                obj = None
        if obj is None:
            obj = cls.__new__(cls)
    for k, v in fields.items():
        try:
            object.__setattr__(obj, k, v)
        except Exception:
            pass
    return obj


def realise(v, repo_root):
    if isinstance(v, ObjSpec):
        return build_obj(v, repo_root)
    if isinstance(v, list):
        return [realise(x, repo_root) for x in v]
    if isinstance(v, tuple):
        return tuple(realise(x, repo_root) for x in v)
    if isinstance(v, dict):
        return {realise(k, repo_root): realise(x, repo_root) for k, x in v.items()}
    return v


def inv_of(obj):
    from pyvc import registry
    for key, cd in registry.CLASSES.items():
        if type(obj).__name__ == cd.name:
            env = base_env()
            env["self"] = obj
            return all(eval(compile_expr(i)[0], env) for i in cd.invariant)
    return True


def resolve_callable(key):
    rel, qual = key.split("#")[0].split(":")
    mod = importlib.import_module(rel[:-3].replace("/", "."))
    obj = mod
    for p in qual.split("."):
        if p.startswith("__") and not p.endswith("__") and isinstance(obj, type):
            p = "_%s%s" % (obj.__name__.lstrip("_"), p)
        obj = getattr(obj, p)
    return obj


def snapshot(v):
    try:
        return copy.deepcopy(v)
    except Exception:
        return v


def check_one(c, args, repo_root):
    """Run the real function on `args` (dict param -> value) and evaluate the contract. Returns a dict."""
    env = base_env()
    env["inv"] = inv_of
    real = {k: realise(v, repo_root) for k, v in args.items()}
    env.update(real)
    out = {"input": {k: enc(v) for k, v in args.items()}}
    try:
        for p, v in real.items():
            if isinstance(args.get(p), ObjSpec) and c.assume_valid and not inv_of(v):
                out["verdict"] = "precondition_false"
                out["clause"] = "class invariant of " + p
                return out
        for r in c.requires:
            code, olds = compile_expr(r)
            if not eval(code, env):
                out["verdict"] = "precondition_false"
                out["clause"] = r
                return out
    except Exception as ex:
        out["verdict"] = "precondition_error"
        out["error"] = "%s: %s" % (type(ex).__name__, ex)
        return out
    # pre-state values for old()
    env["rng_n"] = 0
    compiled = {}
    pre = {}
    all_exprs = list(c.ensures)
    for exc, cond in c.raises.items():
        all_exprs.append(cond["when"] if isinstance(cond, dict) else cond)
    for lst in c.raise_ensures.values():
        all_exprs.extend(lst)
    for e in all_exprs:
        if callable(e):
            continue
        code, olds = compile_expr(e)
        vals = {}
        for i, oc in enumerate(olds):
            try:
                vals["__old_%d" % i] = snapshot(eval(oc, env))
            except Exception as ex:
                vals["__old_%d" % i] = None
        compiled[e] = (code, vals)
    fn = resolve_callable(c.key)
    call_args = [real[p] for p in c.params if p != "cls"]
    raised = None
    result = None
    # the random tape (ghost rng_n / draw(k)): os.urandom is recorded while the real function runs
    tape = []
    _urandom = os.urandom

    def _rec(n):
        v = _urandom(n)
        tape.append(v)
        return v
    os.urandom = _rec
    try:
        result = fn(*call_args)
        if hasattr(result, "__next__") and not isinstance(result, (list, tuple)):
            result = list(result)
    except BaseException as ex:   # noqa
        if isinstance(ex, (KeyboardInterrupt, SystemExit)):
            raise
        raised = ex
    finally:
        os.urandom = _urandom
    env["rng_n"] = len(tape)
    env["draw"] = lambda k: tape[k] if 0 <= k < len(tape) else None
    if raised is None:
        out["observed"] = {"returned": enc(result)}
        env["result"] = result
        for exc, cond in c.raises.items():
            if isinstance(cond, dict) and cond.get("iff"):
                code, vals = compiled[cond["when"]]
                e2 = dict(env)
                e2.update(vals)
                if eval(code, e2):
                    out["verdict"] = "violation"
                    out["clause"] = "must raise %s when %s" % (exc, cond["when"])
                    return out
        for e in c.ensures:
            if callable(e):
                continue
            code, vals = compiled[e]
            e2 = dict(env)
            e2.update(vals)
            try:
                ok = eval(code, e2)
            except Exception as ex:
                out["verdict"] = "spec_error"
                out["clause"] = e
                out["error"] = "postcondition evaluation raised %s: %s" % (type(ex).__name__, ex)
                return out
            if not ok:
                out["verdict"] = "violation"
                out["clause"] = e
                return out
        out["verdict"] = "ok"
        return out
    ename = type(raised).__name__
    if isinstance(raised, (MemoryError, RecursionError)):
        # resource exhaustion is outside the model (assumption S4); never a verdict
        out["verdict"] = "skipped"
        out["error"] = ename
        return out
    out["observed"] = {"raised": ename, "message": str(raised)[:200]}
    mro = [k.__name__ for k in type(raised).__mro__]
    allowed = None
    for exc, cond in c.raises.items():
        if exc in mro:
            allowed = (exc, cond)
    if allowed is None:
        out["verdict"] = "violation"
        out["clause"] = "no exception permitted, got %s" % ename
        return out
    exc, cond = allowed
    when = cond["when"] if isinstance(cond, dict) else cond
    code, vals = compiled[when]
    e2 = dict(env)
    e2.update(vals)
    if not eval(code, e2):
        out["verdict"] = "violation"
        out["clause"] = "%s raised outside the permitted condition: %s" % (ename, when)
        return out
    for e in c.raise_ensures.get(exc, []):
        code, vals = compiled[e]
        e2 = dict(env)
        e2.update(vals)
        if not eval(code, e2):
            out["verdict"] = "violation"
            out["clause"] = "on %s: %s" % (ename, e)
            return out
    out["verdict"] = "ok"
    return out


class _Timeout(BaseException):
    pass


def _alarm(sig, frm):
    raise _Timeout()


def main():
    import signal
    signal.signal(signal.SIGALRM, _alarm)
    job = json.load(open(sys.argv[1]))
    repo_root = job["repo"]
    sys.path.insert(0, repo_root)
    sys.path.insert(0, job["verif"])
    os.chdir(job.get("cwd") or repo_root)
    for m in job["modules"]:
        importlib.import_module("contracts." + m)
    from pyvc import registry
    res = []
    extra = json.loads(os.environ.get("PYVC_EXTRA_REQUIRES", "{}"))
    for item in job["items"]:
        c = registry.CONTRACTS[item["key"]]
        if item["key"] in extra:
            c.requires = list(c.requires) + list(extra[item["key"]])
        for args in item["inputs"]:
            a = {k: dec(v) for k, v in args.items()}
            try:
                signal.alarm(int(job.get("per_input_timeout", 10)))
                try:
                    r = check_one(c, a, repo_root)
                finally:
                    signal.alarm(0)
            except _Timeout:
                r = {"input": args, "verdict": "timeout"}
            except (MemoryError, OverflowError, RecursionError) as ex:
                r = {"input": args, "verdict": "skipped", "error": type(ex).__name__}
            except Exception as ex:
                r = {"input": args, "verdict": "harness_error", "error": traceback.format_exc()[-600:]}
            r["key"] = item["key"]
            res.append(r)
    # property-specific bounded checks written in the sidecar (histories, repeated calls): each returns a list of
    # violation descriptions ({"clause":..., "input":...}); they are labelled bounded in the evidence
    for (m, fname) in job.get("custom", []):
        mod = importlib.import_module("contracts." + m)
        try:
            signal.alarm(int(job.get("custom_timeout", 300)))
            try:
                out = getattr(mod, fname)(random.Random(job.get("seed", 0)), job.get("tier", "quick"))
            finally:
                signal.alarm(0)
            for v in out.get("violations", []):
                v.update(verdict="violation", key="custom:%s.%s" % (m, fname), custom=[m, fname])
                res.append(v)
            res.append({"verdict": "custom_ok", "key": "custom:%s.%s" % (m, fname), "cases": out.get("cases", 0),
                        "bound": out.get("bound", ""), "nviol": len(out.get("violations", []))})
        except _Timeout:
            res.append({"verdict": "timeout", "key": "custom:%s.%s" % (m, fname)})
        except Exception:
            res.append({"verdict": "harness_error", "key": "custom:%s.%s" % (m, fname), "error": traceback.format_exc()[-800:]})
    json.dump(res, sys.stdout)


if __name__ == "__main__":
    main()
