"""Ghost file system (assumption D2): the engine's model of binary files, `open`, `os.path.exists`, `os.unlink`
and `pickle.dump/load` on a file object.

State (ghost variables, visible in specifications, snapshotted by old()):
  fs        : path -> Option(bytes)   regular files and their contents (absent: no such file)
  fh_state  : handle -> 0 unallocated | 1 open | 2 closed
  fh_path   : handle -> path          (fixed when the handle is opened)
  fh_pos    : handle -> position
A file object is the value of its handle id (type TFile); file objects can therefore sit in lists and optional fields.

What D2 assumes of the platform (listed in the evidence of every check that uses a file operation):
  * paths name regular files in one directory; `open` fails only with FileNotFoundError (modes r*, missing file);
  * buffering is transparent: a write is visible to every later read of the same path;
  * `seek` beyond the end followed by `write` fills the gap with zero bytes; `read` at or beyond the end returns b"";
  * `truncate(n)` cuts or zero-extends to n bytes and leaves the position alone;
  * `pickle.dump(x, f)` is `f.write(pickle.dumps(x))`; `pickle.load(f)` consumes the rest of the file and is
    `pickle.loads` of it (P1), raising UnpicklingError exactly when the bytes are not a pickle.
"""
import z3
from .ty import *
from .engine import *
from .registry import specfn, lemma, ghost_var, GHOSTS
from . import speclib as L

FS = TDict(TStr, TBytes)
HI = TDict(TFile, TInt)     # used as total maps: the Option layer is not used for the handle tables
_OB = sort(TOpt(TBytes))
_b, _c = z3.Consts("fw_d fw_c", BYTES)
_p, _q, _n = z3.Ints("fw_p fw_q fw_n")
Len = z3.Length

fwrite = specfn("fwrite", [TBytes, TInt, TBytes], TBytes,
                py=lambda d, p, c: (d[:p] + c + d[p + len(c):]) if p <= len(d) else d + b"\x00" * (p - len(d)) + c,
                doc="file contents after writing c at position p (a gap beyond the end is zero-filled)")
fwrite.define = lambda d, p, c: z3.If(p <= Len(d),
                                      z3.Concat(z3.Extract(d, 0, p), c, z3.Extract(d, p + Len(c), Len(d) - p - Len(c))),
                                      z3.Concat(d, L.zeros(p - Len(d)), c))
ftrunc = specfn("ftrunc", [TBytes, TInt], TBytes,
                py=lambda d, n: d[:n] if n <= len(d) else d + b"\x00" * (n - len(d)),
                doc="file contents after truncate(n)")
ftrunc.define = lambda d, n: z3.If(n <= Len(d), z3.Extract(d, 0, n), z3.Concat(d, L.zeros(n - Len(d))))
fitem = specfn("fitem", [TBytes, TInt, TInt], TBytes, macro=True,
               py=lambda d, off, n: d[off:off + n] + b"\x00" * (n - len(d[off:off + n])),
               doc="the n bytes at offset off of a file read as if it were followed by zeros")
fitem.define = lambda d, off, n: z3.Concat(z3.Extract(d, off, n), L.zeros(n - Len(z3.Extract(d, off, n))))

And, Or, Imp = z3.And, z3.Or, z3.Implies
_Ld = Len(_b)
lemma("fwrite_len", [_b, _p, _c], Imp(_p >= 0, Len(fwrite(_b, _p, _c)) == z3.If(_p + Len(_c) > _Ld, _p + Len(_c), _Ld)),
      patterns=[fwrite(_b, _p, _c)])
lemma("fitem_len", [_b, _q, _n], Imp(And(_q >= 0, _n >= 0), Len(fitem(_b, _q, _n)) == _n), patterns=[fitem(_b, _q, _n)])
_CASES = [_p + Len(_c) <= _Ld, And(_p <= _Ld, _Ld < _p + Len(_c)), _p > _Ld]
lemma("fwrite_same", [_b, _p, _c], Imp(_p >= 0, fitem(fwrite(_b, _p, _c), _p, Len(_c)) == _c),
      patterns=[fwrite(_b, _p, _c)], cases=_CASES, uses=["zeros_len"], no_auto=True, unfold_only=[], inline_defs=["fitem", "fwrite"])
# a write does not disturb any item-sized window that does not overlap it (including windows over the zero-filled gap)
lemma("fwrite_other", [_b, _p, _c, _q, _n],
      Imp(And(_p >= 0, _q >= 0, _n >= 0, Or(_q + _n <= _p, _p + Len(_c) <= _q)),
          fitem(fwrite(_b, _p, _c), _q, _n) == fitem(_b, _q, _n)),
      patterns=[fitem(fwrite(_b, _p, _c), _q, _n)],
      cases=[And(c_, w_) for c_ in _CASES[:2] for w_ in (_q + _n <= _p, _p + Len(_c) <= _q)] +
            [And(_p > _Ld, _p + Len(_c) <= _q), And(_p > _Ld, _q + _n <= _p, _q + _n <= _Ld),
             (And(_p > _Ld, _q + _n <= _p, _q >= _Ld), [("zeros_add", [_q - _Ld, _p - _q]), ("zeros_add", [_n, _p - _q - _n])]),
             (And(_p > _Ld, _q + _n <= _p, _q < _Ld, _Ld < _q + _n), [("zeros_add", [_q + _n - _Ld, _p - _q - _n])])],
      uses=["zeros_len", "zeros_add"], ground_only=["zeros_add"], no_auto=True, unfold_only=[], inline_defs=["fitem", "fwrite"])


def install():
    """declare the ghost state (called by contract modules that use files)"""
    ghost_var("fs", FS)
    ghost_var("fh_state", HI)
    ghost_var("fh_path", TDict(TFile, TStr))
    ghost_var("fh_pos", HI)


FILE_GHOSTS = ("fs", "fh_state", "fh_path", "fh_pos")
# which ghost variables a file operation may change (used to havoc ghost state at loop heads)
OP_TOUCHES = {"open": FILE_GHOSTS, "write": ("fs", "fh_pos"), "truncate": ("fs",), "read": ("fh_pos",), "seek": ("fh_pos",),
              "close": ("fh_state",), "unlink": ("fs",), "dump": ("fs", "fh_pos"), "load": ("fh_pos",), "remove": ("fs",)}


def _need(E):
    if "fs" not in E.ghostv:
        raise Unsupported("file operation in a check whose contracts did not install the ghost file system")
    E.trusted_used.add("D2:ghost file system")


def _sel(E, g, k):
    """total-map read of a handle table"""
    d = E.ghostv[g]
    return sort(TOpt(d.ty.val)).val(z3.Select(d.t, k))


def _upd(E, g, k, v):
    d = E.ghostv[g]
    E.ghostv[g] = SV(z3.Store(d.t, k, sort(TOpt(d.ty.val)).some(v)), d.ty)


def fs_has(E, path):
    return z3.Not(_OB.is_none(z3.Select(E.ghostv["fs"].t, path)))


def fs_data(E, path):
    return _OB.val(z3.Select(E.ghostv["fs"].t, path))


def crash_point(E, what):
    """a crash may happen right after this file-system mutation: the verified function's crash invariant (a statement about
    the disk only) is an obligation here, so it holds at every prefix of the function's effect sequence"""
    c = E.frames[0].contract if E.frames else None
    if c is None or not c.crash_invariant or E.spec_mode:
        return
    env = dict(E.frames[0].env)
    env.update(getattr(E, "entry_env", {}))
    for inv in c.crash_invariant:
        E.oblige("crash_prefix", E.spec_bool(inv, env, old=True), 0, "after %s: %s" % (what, inv))


def fs_put(E, path, data):
    d = E.ghostv["fs"]
    E.ghostv["fs"] = SV(z3.Store(d.t, path, _OB.some(data)), d.ty)
    crash_point(E, "a write to %s" % path)


def fs_del(E, path):
    d = E.ghostv["fs"]
    E.ghostv["fs"] = SV(z3.Store(d.t, path, _OB.none), d.ty)
    crash_point(E, "the removal of %s" % path)


def open_file(E, a, kw, fr, node):
    _need(E)
    line = getattr(node, "lineno", 0)
    path = E.to_sv(a[0], TStr).t
    mode = a[1] if len(a) > 1 else kw.get("mode", "r")
    if not isinstance(mode, str):
        raise Unsupported("open() with a symbolic mode")
    if "b" not in mode and mode not in ("w", "x"):
        raise Unsupported("text-mode open")
    # text mode "w" / "x": the handle is created like a binary one; only json.dump(obj, f) is modelled as a writer of text
    # (f.write(str) has no model and leaves the verified subset)
    m = mode.replace("b", "")
    if m in ("r", "r+"):
        E.may_raise("FileNotFoundError", z3.Not(fs_has(E, path)), line, "open(%s) of a missing file" % mode)
    elif m in ("w", "w+"):
        from .paths import parent_check
        parent_check(E, a[0], line, "open(%s)" % mode)
        fs_put(E, path, z3.Empty(BYTES))
    elif m in ("x", "x+"):
        from .paths import parent_check
        parent_check(E, a[0], line, "open(%s)" % mode)
        E.may_raise("FileExistsError", fs_has(E, path), line, "open(%s) of an existing file" % mode)
        fs_put(E, path, z3.Empty(BYTES))
    else:
        raise Unsupported("open mode %r" % mode)
    h = E.fresh("fh", TFile)
    E.assume(_sel(E, "fh_state", h.t) == 0)     # a new file object is none of the existing ones
    _upd(E, "fh_state", h.t, z3.IntVal(1))
    _upd(E, "fh_pos", h.t, z3.IntVal(0))
    _upd(E, "fh_path", h.t, path)
    return h


def _open_check(E, h, line, what):
    E.may_raise("ValueError", _sel(E, "fh_state", h) == 2, line, "%s on a closed file" % what)


def file_attr(E, f, attr):
    _need(E)
    if attr == "closed":
        return SV(_sel(E, "fh_state", f.t) == 2, TBool)
    if attr == "name":
        return SV(_sel(E, "fh_path", f.t), TStr)
    return None


def as_file(E, f, line, exc="AttributeError"):
    if f is None:
        raise PyRaise(exc, line)
    if isinstance(f, SV) and isinstance(f.ty, TOpt) and f.ty.elem == TFile:
        so = sort(f.ty)
        E.may_raise(exc, so.is_none(f.t), line, "None used as a file object")
        return SV(so.val(f.t), TFile)
    if isinstance(f, SV) and f.ty == TFile:
        return f
    raise Unsupported("not a file object: %r" % (f,))


def file_method(E, f, name, args, kwargs, fr, node):
    _need(E)
    line = getattr(node, "lineno", 0)
    f = as_file(E, f, line)
    h = f.t
    path = _sel(E, "fh_path", h)
    pos = _sel(E, "fh_pos", h)
    if name == "close":
        _upd(E, "fh_state", h, z3.IntVal(2))
        return None
    if name == "flush":
        _open_check(E, h, line, "flush")
        return None
    if name == "tell":
        _open_check(E, h, line, "tell")
        return SV(pos, TInt)
    if name == "seek":
        if len(args) > 1 and not (isinstance(args[1], int) and args[1] == 0):
            raise Unsupported("seek with whence != 0")
        _open_check(E, h, line, "seek")
        off = z3_int(args[0])
        E.may_raise("ValueError", off < 0, line, "negative seek position")
        _upd(E, "fh_pos", h, off)
        return SV(off, TInt)
    if name == "read":
        _open_check(E, h, line, "read")
        data = fs_data(E, path)
        if args and args[0] is not None:
            n = z3_int(args[0])
            r = z3.If(n < 0, z3.Extract(data, pos, Len(data) - pos), z3.Extract(data, pos, n))
        else:
            r = z3.Extract(data, pos, Len(data) - pos)
        r = z3.simplify(r)
        _upd(E, "fh_pos", h, pos + Len(r))
        return SV(r, TBytes)
    if name == "write":
        _open_check(E, h, line, "write")
        b = E.to_sv(args[0], TBytes).t
        fs_put(E, path, fwrite(fs_data(E, path), pos, b))
        _upd(E, "fh_pos", h, pos + Len(b))
        return SV(Len(b), TInt)
    if name == "truncate":
        _open_check(E, h, line, "truncate")
        n = z3_int(args[0]) if args and args[0] is not None else pos
        E.may_raise("ValueError", n < 0, line, "negative size")
        fs_put(E, path, ftrunc(fs_data(E, path), n))
        return SV(n, TInt)
    raise Unsupported("file.%s" % name)


valid_pickle = z3.Function("valid_pickle", BYTES, z3.BoolSort())


def pickle_dump(E, a, kw, fr, node):
    from .externals import EXT
    data = EXT["pickle.dumps"](E, [a[0]], {}, fr, node)
    E.assume(valid_pickle(data.t))
    return file_method(E, as_file(E, a[1], getattr(node, "lineno", 0), "TypeError"), "write", [data], {}, fr, node)


JSON_BYTES = z3.Function("json_bytes", BYTES, BYTES)     # the text json.dump writes for an (opaque) value, as bytes


def json_dump(E, a, kw, fr, node):
    """json.dump(obj, f): the file receives a function of the value (the value itself is an opaque token here)"""
    v = E.to_sv(a[0], TBytes)
    data = SV(JSON_BYTES(v.t), TBytes)
    return file_method(E, as_file(E, a[1], getattr(node, "lineno", 0), "TypeError"), "write", [data], {}, fr, node)


def pickle_load(E, a, kw, fr, node):
    from .externals import Unpickled
    line = getattr(node, "lineno", 0)
    f = as_file(E, a[0], line, "TypeError")
    rest = file_method(E, f, "read", [], {}, fr, node)
    E.may_raise("UnpicklingError", z3.Not(valid_pickle(rest.t)), line, "pickle.load of bytes that are not a pickle")
    return Unpickled(rest)


def path_exists(E, a, kw, fr, node):
    _need(E)
    return SV(fs_has(E, E.to_sv(a[0], TStr).t), TBool)


def unlink(E, a, kw, fr, node):
    _need(E)
    path = E.to_sv(a[0], TStr).t
    E.may_raise("FileNotFoundError", z3.Not(fs_has(E, path)), getattr(node, "lineno", 0), "unlink of a missing file")
    fs_del(E, path)
    return None
