"""Semantics table of the pyvc engine: operators, subscripts, attributes, builtin and external calls."""
import ast, z3, operator
from .ty import *
from .engine import *
from .engine import _Return, _Break, _Continue, _mangle_ty, MUTATORS
from .registry import SPEC, CLASSES, CONTRACTS, INLINE, LEMMAS
from . import speclib as L


# ------------------------------------------------------------------------------------------------
def bv2int_arg(t):
    t = z3.simplify(t)
    if z3.is_app(t) and t.decl().kind() == z3.Z3_OP_BV2INT:
        return t.arg(0)
    return None


def as_pow2(t):
    """if term t is pow2(k) return k"""
    t = z3.simplify(t)
    if z3.is_app(t) and t.decl().name() == "pow2":
        return t.arg(0)
    if z3.is_int_value(t):
        v = t.as_long()
        if v > 0 and v & (v - 1) == 0:
            return z3.IntVal(v.bit_length() - 1)
    return None


def p2(k):
    """2**k as a term: a numeral when k is one"""
    k = z3.simplify(k) if isinstance(k, z3.ExprRef) else z3.IntVal(k)
    if z3.is_int_value(k) and 0 <= k.as_long() <= 4096:
        return z3.IntVal(2 ** k.as_long())
    return L.pow2(k)


def norm_index(idx, n):
    """python index normalisation for a sequence of length n (z3 terms)."""
    if isinstance(idx, int):
        return z3.IntVal(idx) if idx >= 0 else n + idx
    t = z3_int(idx)
    return z3.If(t < 0, n + t, t)


def slice_bounds(lo, hi, n, E=None):
    def nb(x, default):
        if x is None:
            return default
        if isinstance(x, int):
            if x >= 0:
                return z3.IntVal(x)
            return z3.If(n + x < 0, z3.IntVal(0), n + x)
        t = z3_int(x)
        s = z3.simplify(t)
        if is_nonneg(s) or (E is not None and E.entails(s >= 0)):
            return s
        return z3.If(s < 0, z3.If(n + s < 0, z3.IntVal(0), n + s), s)
    return nb(lo, z3.IntVal(0)), nb(hi, n)


def is_nonneg(t):
    """cheap syntactic check that an Int term is >= 0"""
    if z3.is_int_value(t):
        return t.as_long() >= 0
    if z3.is_app(t):
        k = t.decl().kind()
        if k == z3.Z3_OP_SEQ_LENGTH or k == z3.Z3_OP_BV2INT:
            return True
        if t.decl().name() in ("pow2", "cdiv_nn", "bitlen"):
            return True
        if k in (z3.Z3_OP_ADD, z3.Z3_OP_MUL) and all(is_nonneg(c) for c in t.children()):
            return True
    return False


def pyslice(sv, lo, hi, E=None):
    n = z3.Length(sv.t)
    a, b = slice_bounds(lo, hi, n, E)
    return SV(z3.Extract(sv.t, a, z3.simplify(b - a)), sv.ty)


def floordiv(a, b):
    bs = z3.simplify(b)
    if z3.is_int_value(bs) and bs.as_long() > 0:
        return a / bs
    if is_pos(bs):
        return a / bs
    return z3.If(bs > 0, a / bs, (-a) / (-bs))


def is_pos(t):
    if z3.is_int_value(t):
        return t.as_long() > 0
    if z3.is_app(t) and t.decl().name() == "pow2":
        return True
    return False


# ------------------------------------------------------------------------------------------------
def binop(E, op, a, b, node, fr):
    line = getattr(node, "lineno", 0)
    # object operators
    if isinstance(a, Ref) and E.cell(a)[0] == "obj":
        mname = {ast.Add: "__add__", ast.Sub: "__sub__", ast.BitXor: "__xor__", ast.BitAnd: "__and__",
                 ast.BitOr: "__or__", ast.LShift: "__lshift__", ast.RShift: "__rshift__", ast.Mult: "__mul__"}.get(type(op))
        if mname:
            return E.call_method(a, mname, [b], {}, fr, node)
    conc = lambda v: isinstance(v, (int, bytes, str, tuple)) and not isinstance(v, SV)
    if conc(a) and conc(b) and not (isinstance(a, tuple) or isinstance(b, tuple)):
        try:
            if isinstance(op, ast.Div):
                if isinstance(a, int) and isinstance(b, int):
                    if b == 0:
                        raise ZeroDivisionError
                    return Frac(a, b)
                raise Unsupported("division")
            if isinstance(op, ast.Pow) and isinstance(b, int) and b < 0:
                raise Unsupported("negative power")
            if isinstance(op, ast.Mod) and isinstance(a, (str, bytes)):
                return Opaque("format")
            f = {ast.Add: operator.add, ast.Sub: operator.sub, ast.Mult: operator.mul, ast.FloorDiv: operator.floordiv,
                 ast.Mod: operator.mod, ast.Pow: operator.pow, ast.LShift: operator.lshift, ast.RShift: operator.rshift,
                 ast.BitAnd: operator.and_, ast.BitOr: operator.or_, ast.BitXor: operator.xor}[type(op)]
            return f(a, b)
        except ZeroDivisionError:
            raise PyRaise("ZeroDivisionError", line)
        except (TypeError, ValueError) as ex:
            raise PyRaise(type(ex).__name__, line)
    if isinstance(a, tuple) and isinstance(b, tuple) and isinstance(op, ast.Add):
        return a + b
    if (isinstance(a, str) or (isinstance(a, SV) and a.ty == TStr)) and \
            (isinstance(b, str) or (isinstance(b, SV) and b.ty == TStr)) and isinstance(op, ast.Add):
        return SV(z3.Concat(lift(a).t, lift(b).t), TStr)
    if isinstance(a, (str, Opaque)) or isinstance(b, (str, Opaque)):
        return Opaque("str-op")
    # lists
    if isinstance(a, SV) and isinstance(a.ty, TList):
        a = E.new_symlist(a)
    if isinstance(b, SV) and isinstance(b.ty, TList) and isinstance(a, Ref):
        b = E.new_symlist(b)
    if isinstance(a, Ref) and E.cell(a)[0] in ("pylist", "seq"):
        if isinstance(op, ast.Add):
            ca, cb = E.cell(a), E.cell(b) if isinstance(b, Ref) else None
            if ca[0] == "pylist" and cb and cb[0] == "pylist":
                return E.new_list(ca[1] + cb[1])
            try:
                sa = E.list_sv(a)
                sb = E.list_sv(b, sa.ty.elem)
            except Unsupported:
                sb = E.list_sv(b)
                sa = E.list_sv(a, sb.ty.elem)
            return E.new_symlist(SV(z3.Concat(sa.t, sb.t), sa.ty))
        if isinstance(op, ast.Mult):
            ca = E.cell(a)
            if isinstance(b, int) and ca[0] == "pylist":
                return E.new_list(ca[1] * b)
            if ca[0] == "pylist" and len(ca[1]) == 1:
                return list_repeat(E, ca[1][0], b, node)
        raise Unsupported("list operator")
    # bytes
    if is_byteslike(a):
        if isinstance(op, ast.Add):
            if isinstance(b, Ref) and E.cell(b)[0] == "bytearray":
                b = E.cell(b)[1]
            if not is_byteslike(b):
                raise PyRaise("TypeError", line)
            la, lb = lift(a), lift(b)
            return SV(z3.Concat(la.t, lb.t), TBytes)
        if isinstance(op, ast.Mult) and is_intlike(b):
            return bytes_repeat(E, a, b)
        if isinstance(op, ast.Mod):
            return Opaque("format")
        raise Unsupported("bytes operator %s" % type(op).__name__)
    if is_intlike(a) and is_byteslike(b) and isinstance(op, ast.Mult):
        return bytes_repeat(E, b, a)
    if isinstance(a, Frac) or isinstance(b, Frac) or isinstance(a, Log2) or isinstance(b, Log2):
        if isinstance(op, ast.Div) and isinstance(a, Log2) and is_intlike(b):
            return Frac(a, b)
        raise Unsupported("float arithmetic")
    if not (is_intlike(a) and is_intlike(b)):
        raise Unsupported("operator %s on %r, %r" % (type(op).__name__, a, b))
    x, y = z3_int(a), z3_int(b)
    if isinstance(op, ast.Add):
        return SV(x + y, TInt)
    if isinstance(op, ast.Sub):
        return SV(x - y, TInt)
    if isinstance(op, ast.Mult):
        return SV(x * y, TInt)
    if isinstance(op, ast.Div):
        E.may_raise("ZeroDivisionError", y == 0, line)
        return Frac(a, b)
    if isinstance(op, (ast.FloorDiv, ast.Mod)):
        E.may_raise("ZeroDivisionError", y == 0, line)
        ys = z3.simplify(y)
        if not is_pos(ys) and not z3.is_int_value(ys) and E.entails(ys > 0):
            # the divisor is positive on this path: python's // and % are z3's div and mod
            return SV(x / ys if isinstance(op, ast.FloorDiv) else x % ys, TInt)
        q = floordiv(x, y)
        if isinstance(op, ast.FloorDiv):
            return SV(q, TInt)
        if is_pos(ys):
            return SV(x % ys, TInt)
        return SV(x - y * q, TInt)
    if isinstance(op, ast.Pow):
        if isinstance(a, int) and a in (2, 256):
            if not E.spec_mode:
                E.oblige("pow_exponent_nonneg", y >= 0, line, "negative exponent would give a float")
            return SV(L.pow2(y if a == 2 else 8 * y), TInt)
        if isinstance(b, int) and b >= 0:
            r = z3.IntVal(1)
            for _ in range(b):
                r = r * x
            return SV(r, TInt)
        raise Unsupported("general power")
    if isinstance(op, ast.LShift):
        E.may_raise("ValueError", y < 0, line, "negative shift count")
        return SV(x * p2(y), TInt)
    if isinstance(op, ast.RShift):
        E.may_raise("ValueError", y < 0, line, "negative shift count")
        return SV(x / p2(y), TInt)
    if isinstance(op, (ast.BitAnd, ast.BitOr, ast.BitXor)):
        ba, bb = bv2int_arg(x), bv2int_arg(y)
        if ba is not None and bb is not None and ba.size() == bb.size():
            f = {ast.BitAnd: operator.and_, ast.BitOr: operator.or_, ast.BitXor: operator.xor}[type(op)]
            return SV(z3.BV2Int(f(ba, bb)), TInt)
        # a non-negative constant operand with several bits: exact, bit by bit (x // 2**i % 2 is bit i of x for every int x)
        for u, v in ((x, y), (y, x)):
            vs = z3.simplify(v)
            if z3.is_int_value(vs) and 0 <= vs.as_long() < (1 << 64) and bin(vs.as_long()).count("1") > 1 \
                    and bin(vs.as_long() + 1).count("1") != 1:
                cval = vs.as_long()
                masked = z3.Sum([((u / z3.IntVal(1 << i)) % 2) * z3.IntVal(1 << i) for i in range(cval.bit_length()) if (cval >> i) & 1])
                if isinstance(op, ast.BitAnd):
                    return SV(masked, TInt)
                if isinstance(op, ast.BitOr):
                    return SV(u + cval - masked, TInt)
                return SV(u + cval - 2 * masked, TInt)
        if isinstance(op, ast.BitAnd):
            for u, v in ((x, y), (y, x)):
                k = as_pow2(v + 1)
                if k is not None:   # u & (2^k - 1), exact also for negative u (two's complement semantics)
                    return SV(u % p2(k), TInt)
                k = as_pow2(v)
                if k is not None:   # u & 2^k  (single bit)
                    return SV(((u / p2(k)) % 2) * p2(k), TInt)
                k = as_pow2(-v - 1)
                if k is not None:   # u & ~2^k  (clear one bit; exact in two's complement for every int u)
                    return SV(u - ((u / p2(k)) % 2) * p2(k), TInt)
            return SV(L.band(x, y), TInt)
        if isinstance(op, ast.BitOr):
            for u, v in ((x, y), (y, x)):
                k = as_pow2(v)
                if k is not None:   # u | 2^k  (set one bit; exact in two's complement for every int u)
                    return SV(u + (1 - (u / p2(k)) % 2) * p2(k), TInt)
            return SV(L.bor(x, y), TInt)
        return SV(L.bxor(x, y), TInt)
    raise Unsupported("operator %s" % type(op).__name__)


def bytes_repeat(E, b, n):
    if isinstance(b, (bytes, bytearray)) and isinstance(n, int):
        return bytes(b) * n
    nt = z3_int(n)
    if isinstance(b, (bytes, bytearray)) and bytes(b) == b"\x00":
        return SV(L.zeros(nt), TBytes)
    if isinstance(b, (bytes, bytearray)) and len(b) == 0:
        return b""
    return SV(L.brepeat(lift(b).t, nt), TBytes)


def list_repeat(E, item, n, node):
    nt = z3_int(n)
    if item is None:
        return NoneRepeat(nt)     # typed when it is stored into a field with a declared list-of-optional type
    sv = E.to_sv(item)
    return E.new_symlist(SV(L.lrepeat(sv.ty)(sv.t, nt), TList(sv.ty)))


# ------------------------------------------------------------------------------------------------
def eq_term(E, a, b, node, fr):
    """z3 Bool for python a == b"""
    if isinstance(a, Ref) and E.cell(a)[0] == "obj":
        r = E.call_method(a, "__eq__", [b], {}, fr, node)
        return E.truth_term(r)
    if isinstance(b, Ref) and E.cell(b)[0] == "obj":
        r = E.call_method(b, "__eq__", [a], {}, fr, node)
        return E.truth_term(r)
    if a is None or b is None:
        o = b if a is None else a
        if o is None:
            return z3.BoolVal(True)
        if isinstance(o, MaybeNone):
            return o.is_none
        if isinstance(o, SV) and isinstance(o.ty, TOpt):
            return sort(o.ty).is_none(o.t)
        return z3.BoolVal(False)
    if isinstance(a, tuple) or isinstance(b, tuple):
        if isinstance(a, tuple) and isinstance(b, tuple):
            if len(a) != len(b):
                return z3.BoolVal(False)
            return z3.And(*[eq_term(E, x, y, node, fr) for x, y in zip(a, b)]) if a else z3.BoolVal(True)
        sa, sb = E.to_sv(a), E.to_sv(b)
        if sa.ty != sb.ty:
            return z3.BoolVal(False)
        return sa.t == sb.t
    def _dict_sv(x, other=None):
        if isinstance(x, SV) and isinstance(x.ty, TDict):
            return x
        if isinstance(x, Ref) and E.cell(x)[0] == "dict":
            return E.cell(x)[1]
        if isinstance(x, Ref) and E.cell(x)[0] == "pydict" and not E.cell(x)[1] and other is not None:
            return L.empty_dict(E, other.ty)
        return None
    da, db = _dict_sv(a), _dict_sv(b)
    if da is not None or db is not None:
        da = da if da is not None else _dict_sv(a, db)
        db = db if db is not None else _dict_sv(b, da)
        if da is None or db is None or da.ty != db.ty:
            raise Unsupported("dict comparison %r == %r" % (a, b))
        # same mapping and same insertion order (B4: the key sequence is a function of the dict value)
        return z3.And(da.t == db.t, E.dkeys(da) == E.dkeys(db))
    if isinstance(a, Ref) or isinstance(b, Ref):
        ca = E.cell(a)[0] if isinstance(a, Ref) else None
        cb = E.cell(b)[0] if isinstance(b, Ref) else None
        if ca == "bytearray" or cb == "bytearray":
            # bytearray == bytes compares contents
            sa = E.cell(a)[1] if ca == "bytearray" else lift(a)
            sb = E.cell(b)[1] if cb == "bytearray" else lift(b)
            return sa.t == sb.t
        hint = None
        try:
            sa = E.list_sv(a)
            hint = sa.ty.elem
        except Unsupported:
            sa = None
        sb = E.list_sv(b, hint)
        if sa is None:
            sa = E.list_sv(a, sb.ty.elem)
        return sa.t == sb.t
    if is_conc(a) and is_conc(b):
        return z3.BoolVal(a == b)
    sa, sb = lift(a), lift(b)
    if sa.ty == sb.ty:
        return sa.t == sb.t
    if {sa.ty, sb.ty} == {TInt, TBool}:
        return z3_int(sa) == z3_int(sb)
    if isinstance(sa.ty, TOpt) and sa.ty.elem == sb.ty:
        s = sort(sa.ty)
        return z3.And(s.is_some(sa.t), s.val(sa.t) == sb.t)
    if isinstance(sb.ty, TOpt) and sb.ty.elem == sa.ty:
        s = sort(sb.ty)
        return z3.And(s.is_some(sb.t), s.val(sb.t) == sa.t)
    return z3.BoolVal(False)


def contains_term(E, x, coll, node, fr):
    if isinstance(coll, (tuple, list, set, frozenset)):
        return z3.Or(*[eq_term(E, x, y, node, fr) for y in coll]) if coll else z3.BoolVal(False)
    if isinstance(coll, (bytes, str)) and is_conc(x):
        return z3.BoolVal(x in coll)
    if isinstance(coll, Ref):
        c = E.cell(coll)
        if c[0] == "pylist":
            return contains_term(E, x, list(c[1]), node, fr)
        if c[0] == "pydict":
            return contains_term(E, x, list(c[1].keys()), node, fr)
        if c[0] == "seq":
            return contains_term(E, x, c[1], node, fr)
        if c[0] == "dict":
            return contains_term(E, x, c[1], node, fr)
        if c[0] == "obj":
            return E.truth_term(E.call_method(coll, "__contains__", [x], {}, fr, node))
        if c[0] == "set":
            return z3.Select(c[1].t, E.to_sv(x, c[1].ty.elem).t)
    if isinstance(coll, SV):
        if isinstance(coll.ty, TList):
            return z3.Contains(coll.t, z3.Unit(E.to_sv(x, coll.ty.elem).t))
        if isinstance(coll.ty, TDict):
            return z3.Not(sort(TOpt(coll.ty.val)).is_none(z3.Select(coll.t, E.to_sv(x, coll.ty.key).t)))
        if isinstance(coll.ty, TSet):
            return z3.Select(coll.t, E.to_sv(x, coll.ty.elem).t)
        if coll.ty == TBytes and is_byteslike(x):
            return z3.Contains(coll.t, lift(x).t)
    if isinstance(coll, ExtRef):
        if coll.name in CONTAINS_EXT:
            return CONTAINS_EXT[coll.name](E, x)
        raise Unsupported("membership in external collection %s" % coll.name)
    raise Unsupported("membership in %r" % (coll,))


def compare(E, op, a, b, node, fr):
    if isinstance(op, (ast.Eq, ast.NotEq)):
        if is_conc(a) and is_conc(b) and not isinstance(a, Ref) and not isinstance(b, Ref) \
                and not isinstance(a, tuple) and not isinstance(b, tuple):
            return (a == b) if isinstance(op, ast.Eq) else (a != b)
        t = eq_term(E, a, b, node, fr)
        return SV(t if isinstance(op, ast.Eq) else z3.Not(t), TBool)
    if isinstance(op, (ast.Is, ast.IsNot)):
        if a is None or b is None:
            t = eq_term(E, a, b, node, fr)
        elif isinstance(a, Ref) and isinstance(b, Ref):
            t = z3.BoolVal(a.cid == b.cid)
        elif is_conc(a) and is_conc(b):
            t = z3.BoolVal(a is b)
        elif (is_byteslike(a) or is_intlike(a)) and (is_byteslike(b) or is_intlike(b)):
            # identity of immutable values is an implementation detail: some boolean that implies equality
            idb = E.fresh("same_object", TBool).t
            E.assume(z3.Implies(idb, eq_term(E, a, b, node, fr)))
            t = idb
        else:
            raise Unsupported("identity comparison")
        t = z3.simplify(t)
        r = t if isinstance(op, ast.Is) else z3.Not(t)
        r = z3.simplify(r)
        return True if z3.is_true(r) else False if z3.is_false(r) else SV(r, TBool)
    if isinstance(op, (ast.In, ast.NotIn)):
        t = z3.simplify(contains_term(E, a, b, node, fr))
        r = t if isinstance(op, ast.In) else z3.simplify(z3.Not(t))
        return True if z3.is_true(r) else False if z3.is_false(r) else SV(r, TBool)
    if is_conc(a) and is_conc(b) and not isinstance(a, Ref):
        f = {ast.Lt: operator.lt, ast.LtE: operator.le, ast.Gt: operator.gt, ast.GtE: operator.ge}[type(op)]
        return f(a, b)
    if is_intlike(a) and is_intlike(b):
        x, y = z3_int(a), z3_int(b)
        return SV({ast.Lt: x < y, ast.LtE: x <= y, ast.Gt: x > y, ast.GtE: x >= y}[type(op)], TBool)
    if is_byteslike(a) and is_byteslike(b):
        x, y = lift(a).t, lift(b).t
        lt = L.bytes_lt
        return SV({ast.Lt: lt(x, y), ast.LtE: z3.Or(lt(x, y), x == y), ast.Gt: lt(y, x),
                   ast.GtE: z3.Or(lt(y, x), x == y)}[type(op)], TBool)
    raise Unsupported("comparison %s of %r and %r" % (type(op).__name__, a, b))


# ------------------------------------------------------------------------------------------------
def get_subscript(E, base, idx, node, fr):
    line = getattr(node, "lineno", 0)
    if isinstance(base, Ref):
        c = E.cell(base)
        if c[0] == "obj":
            if isinstance(idx, tuple) and idx and idx[0] == "slice":
                idx = E.alloc(("slice", idx[1:]))
            return E.call_method(base, "__getitem__", [idx], {}, fr, node)
        if c[0] == "pylist":
            items = c[1]
            if isinstance(idx, int) and not isinstance(idx, bool) or isinstance(idx, bool):
                i = int(idx)
                if not -len(items) <= i < len(items):
                    raise PyRaise("IndexError", line)
                return items[i]
            if isinstance(idx, tuple) and idx[0] == "slice" and all(x is None or isinstance(x, int) for x in idx[1:]):
                return E.new_list(items[slice(idx[1], idx[2], idx[3])])
            if isinstance(idx, SV) and idx.ty == TBool and len(items) == 2:
                return items[1] if E.fork(idx.t) else items[0]
            return get_subscript(E, E.pylist_sv(items), idx, node, fr)
        if c[0] == "seq":
            r = get_subscript(E, c[1], idx, node, fr)
            return r
        if c[0] == "bytearray":
            return get_subscript(E, c[1], idx, node, fr)
        if c[0] == "pydict":
            if is_conc(idx):
                if idx not in c[1]:
                    raise PyRaise("KeyError", line)
                return c[1][idx]
            # symbolic key into a small literal table: one path per entry (keys of a literal dict are distinct)
            if len(c[1]) <= 16 and all(is_conc(k) and not isinstance(k, Ref) for k in c[1]):
                for k, v in c[1].items():
                    if E.fork(eq_term(E, idx, k, node, fr)):
                        return v
                raise PyRaise("KeyError", line)
            raise Unsupported("symbolic key into literal dict")
        if c[0] == "dict":
            return get_subscript(E, c[1], idx, node, fr)
        raise Unsupported("subscript of %s" % c[0])
    if isinstance(base, tuple):
        if isinstance(idx, int):
            if not -len(base) <= idx < len(base):
                raise PyRaise("IndexError", line)
            return base[idx]
        if isinstance(idx, tuple) and idx[0] == "slice" and all(x is None or isinstance(x, int) for x in idx[1:]):
            return base[slice(idx[1], idx[2], idx[3])]
        if isinstance(idx, SV) and idx.ty == TBool and len(base) == 2:
            return base[1] if E.fork(idx.t) else base[0]
        raise Unsupported("symbolic tuple index")
    if isinstance(base, (bytes, bytearray)) and (is_conc(idx) or (isinstance(idx, tuple) and all(
            x is None or isinstance(x, int) for x in idx[1:]))):
        try:
            if isinstance(idx, tuple):
                return bytes(base[slice(idx[1], idx[2], idx[3])])
            return base[idx]
        except IndexError:
            raise PyRaise("IndexError", line)
    if isinstance(base, (bytes, bytearray)):
        base = lift(bytes(base))
    if isinstance(base, SV):
        if base.ty == TBytes or isinstance(base.ty, TList):
            if isinstance(idx, tuple) and idx[0] == "slice":
                if idx[3] is not None and idx[3] != 1:
                    raise Unsupported("slice step")
                r = pyslice(base, idx[1], idx[2], E)
                return r if base.ty == TBytes else E.new_symlist(r)
            n = z3.Length(base.t)
            it = z3_int(idx)
            E.may_raise("IndexError", z3.Or(it >= n, it < -n), line, "sequence index out of range")
            k = z3.simplify(it) if (is_nonneg(z3.simplify(it)) or E.entails(it >= 0)) else z3.simplify(norm_index(idx, n))
            el = base.t[k]
            if base.ty == TBytes:
                return SV(z3.BV2Int(el), TInt)
            return E.unbox(SV(el, base.ty.elem))
        if isinstance(base.ty, TDict):
            k = E.to_sv(idx, base.ty.key)
            s = sort(TOpt(base.ty.val))
            cellv = z3.Select(base.t, k.t)
            E.may_raise("KeyError", s.is_none(cellv), line, "key may be absent")
            return E.unbox(SV(s.val(cellv), base.ty.val))
        if isinstance(base.ty, TTuple) and isinstance(idx, int):
            return E.unbox(base)[idx]
    if isinstance(base, SPECFN_T):
        raise Unsupported("subscript of spec function")
    raise Unsupported("subscript of %r" % (base,))


def set_subscript(E, base, idx, v, node, fr):
    line = getattr(node, "lineno", 0)
    if not isinstance(base, Ref):
        raise PyRaise("TypeError", line)
    c = E.cell(base)
    if c[0] == "obj":
        if isinstance(idx, tuple) and idx and idx[0] == "slice":
            idx = E.alloc(("slice", idx[1:]))
        return E.call_method(base, "__setitem__", [idx, v], {}, fr, node)
    if E.is_borrowed(base):
        E.frame_violation(base, node, "item assignment")
    if c[0] == "pylist":
        if isinstance(idx, int):
            if not -len(c[1]) <= idx < len(c[1]):
                raise PyRaise("IndexError", line)
            items = list(c[1])
            items[idx] = v
            E.setcell(base, ("pylist", items))
            return
        E.setcell(base, ("seq", E.pylist_sv(c[1], None)))
        c = E.cell(base)
    if c[0] == "seq":
        sv = c[1]
        n = z3.Length(sv.t)
        it = z3_int(idx)
        E.may_raise("IndexError", z3.Or(it >= n, it < -n), line, "list assignment index out of range")
        k = z3.simplify(norm_index(idx, n))
        x = E.to_sv(v, sv.ty.elem)
        new = z3.Concat(z3.Extract(sv.t, 0, k), z3.Unit(x.t), z3.Extract(sv.t, k + 1, n - k - 1))
        if not z3.is_int_value(k) and not E.spec_mode:
            # symbolic position: also give the update in select/store form (follows from the sequence form), so that
            # quantified facts about the old list are found by E-matching on the new one
            nm = E.fresh("upd", sv.ty)
            j = z3.Int("uj")
            E.assume(nm.t == new)
            E.assume(z3.Length(nm.t) == n)
            E.assume(nm.t[k] == x.t)
            E.assume(z3.ForAll([j], z3.Implies(z3.And(0 <= j, j < n, j != k), nm.t[j] == sv.t[j]), patterns=[nth_pat(nm.t, j)]))
            new = nm.t
        E.setcell(base, ("seq", SV(new, sv.ty)))
        return
    if c[0] == "bytearray":
        sv = c[1]
        n = z3.Length(sv.t)
        it = z3_int(idx)
        E.may_raise("IndexError", z3.Or(it >= n, it < -n), line, "bytearray index out of range")
        k = z3.simplify(norm_index(idx, n))
        vt = z3_int(v)
        E.may_raise("ValueError", z3.Or(vt < 0, vt > 255), line, "byte must be in range(0, 256)")
        new = z3.Concat(z3.Extract(sv.t, 0, k), z3.Unit(z3.Int2BV(vt, 8)), z3.Extract(sv.t, k + 1, n - k - 1))
        E.setcell(base, ("bytearray", SV(z3.simplify(new), TBytes)))
        return
    if c[0] == "pydict":
        if is_conc(idx) and not isinstance(idx, Ref):
            d = dict(c[1])
            d[idx] = v
            E.setcell(base, ("pydict", d))
            return
        if c[1]:
            raise Unsupported("symbolic key into non-empty literal dict")
        kt, vt = E.val_ty(idx), E.val_ty(v)
        dt = TDict(kt, vt)
        E.setcell(base, ("dict", L.empty_dict(E, dt)))
        c = E.cell(base)
    if c[0] == "dict":
        E.setcell(base, ("dict", L.dict_store(E, c[1], idx, v)))
        return
    raise Unsupported("subscript store on %s" % c[0])


def del_subscript(E, base, idx, node, fr):
    line = getattr(node, "lineno", 0)
    if isinstance(base, Ref):
        c = E.cell(base)
        if c[0] == "obj":
            if isinstance(idx, tuple) and idx and idx[0] == "slice":
                idx = E.alloc(("slice", idx[1:]))
            return E.call_method(base, "__delitem__", [idx], {}, fr, node)
        if c[0] == "dict":
            d = c[1]
            k = E.to_sv(idx, d.ty.key)
            s = sort(TOpt(d.ty.val))
            E.may_raise("KeyError", s.is_none(z3.Select(d.t, k.t)), line)
            E.setcell(base, ("dict", L.dict_delete(E, d, k)))
            return
        if c[0] == "pydict" and is_conc(idx):
            if idx not in c[1]:
                raise PyRaise("KeyError", line)
            d = dict(c[1])
            del d[idx]
            E.setcell(base, ("pydict", d))
            return
    raise Unsupported("del subscript")


# ------------------------------------------------------------------------------------------------
def declared_fields(cd):
    """field names the sidecar declares for a class, over all its typestate shapes"""
    out = set()
    for k, d in CLASSES.items():
        if k == cd.key or k.startswith(cd.key + "@"):
            out.update(d.fields)
            out.update(getattr(d, "consts", {}) or {})
            out.update(getattr(d, "virtual", {}) or {})
    return out


def infer_attr_type(E, clskey, attr):
    """Type of an undeclared instance attribute, read off the class's own source: every assignment `self.attr = e`
    in the class must give the same simple immutable type (bytes / int / str / bool), and `__init__` must assign it."""
    mk = find_method(E, clskey, "__init__")
    if mk is None:
        return None
    init, _, clsnode = E.repo.find(mk)
    if clsnode is None:
        return None

    def ty_of(e, fn):
        if isinstance(e, ast.Constant):
            return {bytes: TBytes, int: TInt, str: TStr, bool: TBool}.get(type(e.value))
        if isinstance(e, ast.Attribute) and isinstance(e.value, ast.Name) and e.value.id == "self" and e.attr in names:
            return "same"
        if isinstance(e, ast.Name):
            for a in fn.args.args + fn.args.kwonlyargs:
                if a.arg == e.id and isinstance(a.annotation, ast.Name):
                    return {"bytes": TBytes, "int": TInt, "str": TStr, "bool": TBool}.get(a.annotation.id)
            if depth[0] < 4:      # a local: every assignment to it in this function gives the same type
                depth[0] += 1
                try:
                    ts = {ty_of(n.value, fn) for n in ast.walk(fn) if isinstance(n, ast.Assign) and len(n.targets) == 1
                          and isinstance(n.targets[0], ast.Name) and n.targets[0].id == e.id}
                    others = [n for n in ast.walk(fn) if isinstance(n, ast.Name) and n.id == e.id and isinstance(n.ctx, ast.Store)]
                    return ts.pop() if len(ts) == 1 and len(others) == 1 else None
                finally:
                    depth[0] -= 1
            return None
        if isinstance(e, ast.Call):
            f = e.func
            nm = f.attr if isinstance(f, ast.Attribute) else getattr(f, "id", None)
            return {"urandom": TBytes, "bytes": TBytes, "len": TInt, "int": TInt, "str": TStr}.get(nm)
        if isinstance(e, (ast.BoolOp,)):
            ts = {ty_of(v, fn) for v in e.values} - {"same"}
            return ts.pop() if len(ts) == 1 else None
        if isinstance(e, ast.BinOp):
            if isinstance(e.op, (ast.FloorDiv, ast.Sub, ast.LShift, ast.RShift)) and TInt in (ty_of(e.left, fn), ty_of(e.right, fn)):
                return TInt       # these operators have no bytes / str reading
            ts = {ty_of(e.left, fn), ty_of(e.right, fn)} - {"same"}
            if not ts:
                return "same"
            return ts.pop() if len(ts) == 1 and None not in ts else None
        if isinstance(e, ast.Subscript) and isinstance(e.slice, ast.Slice):
            return ty_of(e.value, fn)
        if isinstance(e, ast.IfExp):
            ts = {ty_of(e.body, fn), ty_of(e.orelse, fn)} - {"same"}
            return ts.pop() if len(ts) == 1 else None
        return None

    found, in_init, depth = set(), False, [0]
    names = {attr}
    pre = "_%s__" % clsnode.name.lstrip("_")
    if attr.startswith(pre):
        names.add("__" + attr[len(pre):])      # private name mangling
    for fn in clsnode.body:
        if not isinstance(fn, (ast.FunctionDef, ast.AsyncFunctionDef)):
            continue
        for n in ast.walk(fn):
            tgts, val = [], None
            if isinstance(n, ast.Assign):
                tgts, val = n.targets, n.value
            elif isinstance(n, (ast.AugAssign, ast.AnnAssign)):
                tgts, val = [n.target], n.value
            for t in tgts:
                for t1 in (t.elts if isinstance(t, ast.Tuple) else [t]):
                    if isinstance(t1, ast.Attribute) and isinstance(t1.value, ast.Name) and t1.value.id == "self" and t1.attr in names:
                        if isinstance(t, ast.Tuple) or val is None:
                            return None
                        found.add(ty_of(val, fn))
                        in_init = in_init or fn is init
    found.discard("same")
    if not in_init or len(found) != 1 or None in found:
        return None
    return found.pop()


def get_attr(E, obj, attr, fr, node):
    line = getattr(node, "lineno", 0)
    if isinstance(obj, Ref):
        c = E.cell(obj)
        if c[0] == "obj":
            kind, cd, fields = c
            if attr in fields:
                return fields[attr]
            if attr in getattr(cd, "virtual", {}):
                return Bound(obj, attr)
            mk = find_method(E, cd.key, attr)
            if mk is not None:
                mnode, _, _ = E.repo.find(mk)
                decos = [d.id if isinstance(d, ast.Name) else getattr(d, "attr", "") for d in mnode.decorator_list]
                if "property" in decos:
                    return call_function(E, mk, [obj], {}, fr, node)
                return Bound(obj, attr)
            cv = class_attr(E, cd.key, attr)
            if cv is not NOATTR:
                if isinstance(cv, Ref) and E.cell(cv)[0] == "obj" and find_method(E, E.cell(cv)[1].key, "__get__"):
                    return call_method(E, cv, "__get__", [obj, None], {}, fr, node)   # descriptor protocol
                return cv
            if attr in ("get", "clear", "popitem", "keys", "items", "values", "__contains__") and not E.spec_mode:
                return Bound(obj, attr)    # possibly a collections.abc mixin method (resolved at the call)
            if E.spec_mode:
                raise Unsupported("no field %s on %s" % (attr, cd.key))
            if attr in cd.fields:
                raise PyRaise("AttributeError", line)
            ty = infer_attr_type(E, cd.key, attr)
            if ty is not None:
                # a field the sidecar does not declare (added by a later change of the repository): its value is
                # whatever a value of the type every assignment in the class gives it can be -- no invariant assumed
                v = E.fresh("%s.%s" % (cd.name, attr), ty)
                E.setcell(obj, (kind, cd, dict(fields, **{attr: v})))
                E.dropped.append("undeclared field %s.%s read as an arbitrary %s" % (cd.name, attr, ty))
                return v
            raise Unsupported("attribute %s of %s not declared" % (attr, cd.key))
        if c[0] == "ext":
            for h in EXT_ATTR:
                r = h(E, obj, attr)
                if r is not None:
                    return r
            return Bound(obj, attr)
        if c[0] == "slice" and attr in ("start", "stop", "step"):
            return c[1][("start", "stop", "step").index(attr)]
        if c[0] == "slice" and attr != "indices":
            raise PyRaise("AttributeError", line)
        return Bound(obj, attr)
    if isinstance(obj, tuple) and obj and obj[0] == "module":
        m = E.repo.module(obj[1])
        if attr in m.names:
            return E.resolve_module_name(m, attr)
        raise Unsupported("no %s in module %s" % (attr, obj[1]))
    if isinstance(obj, tuple) and obj and obj[0] == "modroot":
        # dotted access: schemes.interface.inverted_index_sse ...
        dotted = obj[1] + "." + attr
        rel = None
        import os
        for cand in (dotted.replace(".", "/") + ".py", dotted.replace(".", "/") + "/__init__.py"):
            if os.path.isfile(os.path.join(E.repo.root, cand)):
                rel = cand
        if rel is not None:
            m = E.repo.module(rel)
            return ("modpath", dotted, rel)
        if os.path.isdir(os.path.join(E.repo.root, dotted.replace(".", "/"))):
            return ("modroot", dotted)
        return ExtRef(dotted)
    if isinstance(obj, tuple) and obj and obj[0] == "modpath":
        m = E.repo.module(obj[2])
        if attr in m.names:
            return E.resolve_module_name(m, attr)
        import os
        dotted = obj[1] + "." + attr
        for cand in (dotted.replace(".", "/") + ".py", dotted.replace(".", "/") + "/__init__.py"):
            if os.path.isfile(os.path.join(E.repo.root, cand)):
                return ("modpath", dotted, cand)
        raise Unsupported("no %s in %s" % (attr, obj[1]))
    if isinstance(obj, ExtRef):
        from .externals import EXT_CONSTS
        full = obj.name + "." + attr
        if full in EXT_CONSTS:
            E.trusted_used.add("ext:" + full)
            return EXT_CONSTS[full]
        return ExtRef(full)
    if isinstance(obj, ClassRef):
        cv = class_attr(E, obj.key, attr)
        if cv is not NOATTR:
            return cv
        mk = find_method(E, obj.key, attr)
        if mk is not None:
            mnode, _, _ = E.repo.find(mk)
            decos = [d.id if isinstance(d, ast.Name) else getattr(d, "attr", "") for d in mnode.decorator_list]
            if "classmethod" in decos:
                return Bound(obj, attr)
            return FuncRef(mk)
        raise Unsupported("class attribute %s.%s" % (obj.key, attr))
    if isinstance(obj, tuple) and obj and obj[0] == "super":
        return Bound(obj, attr)
    if isinstance(obj, (SV, int, bytes, str, bytearray, tuple)) or obj is None:
        if obj is None:
            raise PyRaise("AttributeError", line)
        if isinstance(obj, SV) and isinstance(obj.ty, TOpt) and obj.ty.elem == TFile:
            so = sort(obj.ty)
            E.may_raise("AttributeError", so.is_none(obj.t), line, "attribute %s of None" % attr)
            obj = SV(so.val(obj.t), TFile)
        if isinstance(obj, SV) and obj.ty == TFile:
            from .files import file_attr
            r = file_attr(E, obj, attr)
            return r if r is not None else Bound(obj, attr)
        known = ()
        if is_intlike(obj):
            known = ("bit_length", "to_bytes", "__index__", "from_bytes")
        elif is_byteslike(obj):
            known = ("hex", "decode", "join", "__len__", "fromhex")
        elif isinstance(obj, str) or (isinstance(obj, SV) and obj.ty == TStr):
            known = ("lower", "format", "join", "startswith", "endswith", "upper", "strip", "split", "encode")
        elif isinstance(obj, SV) and isinstance(obj.ty, (TList, TDict)):
            return Bound(obj, attr)
        if attr not in known:
            raise PyRaise("AttributeError", line)
        return Bound(obj, attr)
    if type(obj).__name__ == "PathV":
        from .paths import path_attr
        r = path_attr(E, obj, attr)
        return r if r is not None else Bound(obj, attr)
    if isinstance(obj, (Opaque,)):
        return Opaque("attr")
    raise Unsupported("attribute %s of %r" % (attr, obj))


NOATTR = object()
EXT_ATTR = []        # hooks: f(E, ref, attr) -> value | None   for attribute reads on external objects
CONTAINS_EXT = {}    # external collection name -> f(E, x) -> z3 Bool


def class_attr(E, clskey, attr):
    for k in class_mro(E, clskey):
        node, mod, _ = E.repo.find(k)
        for st in node.body:
            if isinstance(st, ast.Assign):
                for t in st.targets:
                    if isinstance(t, ast.Name) and t.id == attr:
                        try:
                            return ast.literal_eval(st.value)
                        except Exception:
                            fr = Frame(k, mod, node, None, {})
                            E.frames.append(fr)
                            try:
                                return E.eval(st.value, fr)
                            finally:
                                E.frames.pop()
    return NOATTR


_mro_cache = {}


def class_mro(E, clskey):
    ck = (E.repo.root, clskey)
    if ck in _mro_cache:
        return _mro_cache[ck]
    out = [clskey]
    node, mod, _ = E.repo.find(clskey)
    for b in node.bases:
        try:
            fr = Frame(clskey, mod, None, None, {})
            E.frames.append(fr)
            try:
                v = E.eval(b, fr)
            finally:
                E.frames.pop()
        except Unsupported:
            continue
        if isinstance(v, ClassRef):
            for k in class_mro(E, v.key):
                if k not in out:
                    out.append(k)
    _mro_cache[ck] = out
    return out


def find_method(E, clskey, name, after=None):
    mro = class_mro(E, clskey)
    if after is not None:
        mro = mro[mro.index(after) + 1:] if after in mro else []
    for k in mro:
        node, mod, _ = E.repo.find(k)
        for st in node.body:
            if isinstance(st, (ast.FunctionDef, ast.AsyncFunctionDef)) and st.name == name:
                return "%s.%s" % (k, name)
        # class-level aliases:  __iter__ = __len__ = close = closed
        for st in node.body:
            if isinstance(st, ast.Assign) and isinstance(st.value, ast.Name) and any(
                    isinstance(t, ast.Name) and t.id == name for t in st.targets):
                for st2 in node.body:
                    if isinstance(st2, (ast.FunctionDef, ast.AsyncFunctionDef)) and st2.name == st.value.id:
                        return "%s.%s" % (k, st2.name)
    return None


def abc_mixin(E, recv, cd, name, args, kwargs, fr, node):
    """methods a repository class inherits from collections.abc.Mapping / MutableMapping (B5: the mixins are defined in
    terms of __getitem__ / __iter__ exactly as the library documents).  Returns NOATTR when not applicable."""
    bases = set()
    for k in class_mro(E, cd.key):
        cnode, _, _ = E.repo.find(k)
        for b in cnode.bases:
            bases.add(ast.unparse(b).split(".")[-1])
    # a library mixin method restated as verified ghost code (contract with a body under the class's key)
    for k in class_mro(E, cd.key):
        ck = "%s.%s" % (k, name)
        c = CONTRACTS.get(ck)
        if c is not None and c.body is not None and bases & {"Sequence", "Mapping", "MutableMapping", "MutableSequence"}:
            E.trusted_used.add("B5:collections.abc mixin %s == the ghost body verified under %s" % (name, ck))
            fnode = ast.parse(c.body).body[0]
            return call_contract(E, c, ck, fnode, None, None, [recv] + list(args), kwargs, fr, node)
    if not bases & {"Mapping", "MutableMapping"}:
        return NOATTR
    line = getattr(node, "lineno", 0)
    E.trusted_used.add("B5:collections.abc mixin %s" % name)
    if name in ("__contains__", "get"):
        fr.handlers.append(["KeyError"])
        try:
            try:
                v = call_method(E, recv, "__getitem__", [args[0]], {}, fr, node)
            finally:
                fr.handlers.pop()
        except PyRaise as e:
            if e.exc != "KeyError":
                raise
            return False if name == "__contains__" else (args[1] if len(args) > 1 else kwargs.get("default"))
        return True if name == "__contains__" else v
    if name in ("clear", "popitem", "keys", "items", "values") and "MutableMapping" in bases | {"MutableMapping"}:
        call_method(E, recv, "__iter__", [], {}, fr, node)
        raise Unsupported("collections.abc %s on a live mapping" % name)
    return NOATTR


# ------------------------------------------------------------------------------------------------
def eval_args(E, e, fr):
    args, kwargs = [], {}
    for a in e.args:
        if isinstance(a, ast.Starred):
            v = E.eval(a.value, fr)
            if isinstance(v, Ref) and E.cell(v)[0] == "obj":
                # *obj of symbolic length: only external functions with a contract for it accept the marker
                args.append(("star", v))
                continue
            d = E.iter_desc(v, fr, e)
            if not isinstance(d.length, int):
                raise Unsupported("star-args of symbolic length")
            args.extend(d.get(i) for i in range(d.length))
        else:
            args.append(E.eval(a, fr))
    for k in e.keywords:
        if k.arg is None:
            v = E.eval(k.value, fr)
            if isinstance(v, Ref) and E.cell(v)[0] == "pydict":
                kwargs.update(E.cell(v)[1])
            else:
                raise Unsupported("**kwargs of non-literal dict")
        else:
            kwargs[k.arg] = E.eval(k.value, fr)
    return args, kwargs


def call(E, e, fr):
    f = e.func
    # spec-mode special forms
    if E.spec_mode and isinstance(f, ast.Name):
        if f.id == "old":
            return eval_old(E, e.args[0], fr)
        if f.id == "implies":
            a = E.truth_term(E.eval(e.args[0], fr))
            b = E.truth_term(E.eval(e.args[1], fr))
            return SV(z3.Implies(a, b), TBool)
        if f.id in ("all", "any") and len(e.args) == 1 and isinstance(e.args[0], ast.GeneratorExp):
            return quantify(E, f.id, e.args[0], fr)
        if f.id == "inv":
            v = E.eval(e.args[0], fr)
            cd = E.cell(v)[1]
            ts = [E.spec_bool(i, {"self": v}) for cdx in E.mro(cd) for i in cdx.invariant]
            return SV(z3.And(*ts) if ts else z3.BoolVal(True), TBool)
        if f.id == "dput":
            d = E.eval(e.args[0], fr)
            d = E.cell(d)[1] if isinstance(d, Ref) else d
            k = E.to_sv(E.eval(e.args[1], fr), d.ty.key)
            v = E.to_sv(E.eval(e.args[2], fr), d.ty.val)
            return SV(z3.Store(d.t, k.t, sort(TOpt(d.ty.val)).some(v.t)), d.ty)
        if f.id == "ddel":
            d = E.eval(e.args[0], fr)
            d = E.cell(d)[1] if isinstance(d, Ref) else d
            k = E.to_sv(E.eval(e.args[1], fr), d.ty.key)
            return SV(z3.Store(d.t, k.t, sort(TOpt(d.ty.val)).none), d.ty)
        if f.id == "dmap":
            v = E.eval(e.args[0], fr)
            if isinstance(v, Ref) and E.cell(v)[0] == "pydict" and not E.cell(v)[1]:
                raise Unsupported("dmap of an untyped empty dict")
            return E.cell(v)[1] if isinstance(v, Ref) else v
        if f.id == "dkeys":
            v = E.eval(e.args[0], fr)
            d = E.cell(v)[1] if isinstance(v, Ref) else v
            return SV(E.dkeys(d), TList(d.ty.key))
        if f.id == "use":
            for a in e.args:
                E.uses.add(a.id if isinstance(a, ast.Name) else a.value)
            return True
    if isinstance(f, ast.Name) and f.id == "super":
        cls = None
        for ff in reversed(E.frames):
            if ff.clsnode is not None:
                cls = "%s:%s" % (ff.module.rel, ff.clsnode.name)
                selfv = ff.env.get("self", ff.env.get("cls"))
                break
        return ("super", cls, selfv)
    if isinstance(f, ast.Attribute) and f.attr in MUTATORS and isinstance(f.value, ast.Subscript) and not E.spec_mode:
        base = E.eval(f.value.value, fr)
        if isinstance(base, Ref) and E.cell(base)[0] in ("dict", "seq"):
            # mutation through a subscript of a value container: read, mutate a temporary, write back
            idx = E.eval_index(f.value.slice, fr)
            cur = get_subscript(E, base, idx, f.value, fr)
            tmp = cur if isinstance(cur, Ref) else E.new_symlist(cur)
            args, kwargs = eval_args(E, e, fr)
            r = call_method(E, tmp, f.attr, args, kwargs, fr, e)
            set_subscript(E, base, idx, E.to_sv(tmp), f.value, fr)
            return r
    fv = E.eval(f, fr)
    args, kwargs = eval_args(E, e, fr)
    return apply(E, fv, args, kwargs, fr, e)


def eval_old(E, node, fr):
    if not E.old_stack:
        raise Unsupported("old() without a pre-state")
    ent = E.old_stack[-1]
    env, heap = ent[0], ent[1]
    saved = E.heap
    saved_g = E.ghostv
    if len(ent) > 2:
        E.ghostv = dict(ent[2])
    E.heap = dict(heap)
    f2 = Frame(fr.key, fr.module, fr.clsnode, None, dict(env))
    E.frames.append(f2)
    try:
        r = E.eval(node, f2)
        oldheap = E.heap
    finally:
        E.frames.pop()
        E.heap = saved
        E.ghostv = saved_g
    return _snapshot(E, r, oldheap, {})


def _snapshot(E, v, oldheap, memo):
    """copy the part of the pre-state heap a value refers to into fresh cells of the current heap"""
    if isinstance(v, Ref):
        if v.cid in memo:
            return memo[v.cid]
        c = oldheap[v.cid]
        nr = E.alloc(c)
        memo[v.cid] = nr
        if c[0] == "obj":
            E.setcell(nr, ("obj", c[1], {f: _snapshot(E, x, oldheap, memo) for f, x in c[2].items()}))
        elif c[0] == "pylist":
            E.setcell(nr, ("pylist", [_snapshot(E, x, oldheap, memo) for x in c[1]]))
        elif c[0] == "pydict":
            E.setcell(nr, ("pydict", {k: _snapshot(E, x, oldheap, memo) for k, x in c[1].items()}))
        return nr
    if isinstance(v, tuple):
        return tuple(_snapshot(E, x, oldheap, memo) for x in v)
    return v


def quantify(E, which, gen, fr):
    """all(P for x in range(a,b)) / all(P for x in seq) in specifications -> ForAll / Exists"""
    if len(gen.generators) != 1 or gen.generators[0].ifs and which == "any":
        raise Unsupported("quantifier shape")
    g = gen.generators[0]
    itv = E.eval(g.iter, fr)
    d = E.iter_desc(itv, fr, gen)
    if isinstance(d.length, int) and d.length <= 16:
        ts = []
        for i in range(d.length):
            E.assign(g.target, d.get(i), fr)
            conds = [E.truth_term(E.eval(c, fr)) for c in g.ifs]
            body = E.truth_term(E.eval(gen.elt, fr))
            ts.append(z3.Implies(z3.And(*conds), body) if conds else body)
        if which == "all":
            return SV(z3.And(*ts) if ts else z3.BoolVal(True), TBool)
        return SV(z3.Or(*ts) if ts else z3.BoolVal(False), TBool)
    E.fresh_ctr += 1
    k = z3.Int("q!%d" % E.fresh_ctr)
    E.assign(g.target, d.get(SV(k, TInt)), fr)
    conds = [E.truth_term(E.eval(c, fr)) for c in g.ifs]
    body = E.truth_term(E.eval(gen.elt, fr))
    rng = z3.And(k >= 0, k < z3_int(d.length), *conds)
    if which == "all":
        return SV(z3.ForAll([k], z3.Implies(rng, body)), TBool)
    return SV(z3.Exists([k], z3.And(rng, body)), TBool)


SPECFN_T = registry.SpecFn if False else __import__("pyvc.registry", fromlist=["SpecFn"]).SpecFn


def apply(E, fv, args, kwargs, fr, node):
    line = getattr(node, "lineno", 0)
    if isinstance(fv, SPECFN_T):
        ts = []
        for a, ty in zip(args, fv.arg_tys):
            t = E.to_sv(a, ty).t
            if getattr(fv, "name_args", False) and z3.is_array(t) and not z3.is_const(t):
                # the definition quantifies with a pattern over this argument: patterns must not contain compound terms
                nm = E.fresh("arg_" + fv.name, ty)
                E.assume(nm.t == t)
                t = nm.t
            ts.append(t)
        if len(ts) != len(fv.arg_tys):
            raise Unsupported("arity of spec function " + fv.name)
        return E.unbox(SV(fv(*ts), fv.ret_ty)) if not isinstance(fv.ret_ty, TList) else SV(fv(*ts), fv.ret_ty)
    if isinstance(fv, ExtRef):
        from .externals import call_ext
        return call_ext(E, fv.name, args, kwargs, fr, node)
    if isinstance(fv, FuncRef):
        return call_function(E, fv.key, args, kwargs, fr, node)
    if isinstance(fv, ClassRef):
        return construct(E, fv.key, args, kwargs, fr, node)
    if isinstance(fv, Bound):
        return call_method(E, fv.recv, fv.name, args, kwargs, fr, node)
    if isinstance(fv, LambdaV):
        return call_lambda(E, fv, args, kwargs, fr, node)
    if isinstance(fv, ExcClass):
        return ExcVal(fv.name, tuple(args))
    if isinstance(fv, Opaque):
        return Opaque("call")
    if isinstance(fv, Ref) and E.cell(fv)[0] == "ext":
        from .externals import ext_method
        return ext_method(E, fv, E.cell(fv), "__call__", args, kwargs, fr, node)
    if isinstance(fv, Ref) and E.cell(fv)[0] == "obj":
        return call_method(E, fv, "__call__", args, kwargs, fr, node)
    raise Unsupported("call of %r at line %d" % (fv, line))


def call_lambda(E, lv, args, kwargs, fr, node):
    n = lv.node
    params = [a.arg for a in n.args.args]
    env = dict(lv.env)
    for p, a in zip(params, args):
        env[p] = a
    f2 = Frame(fr.key, fr.module, fr.clsnode, None, env)
    f2.contract = None
    E.frames.append(f2)
    try:
        if isinstance(n, ast.Lambda):
            return E.eval(n.body, f2)
        try:
            E.exec_block(n.body, f2)
        except _Return as r:
            return r.v
        return None
    finally:
        E.frames.pop()


def construct(E, clskey, args, kwargs, fr, node):
    if clskey not in CLASSES:
        raise Unsupported("class %s is not declared in the sidecar" % clskey)
    cd = CLASSES[clskey]
    obj = E.alloc(("obj", cd, {}))
    init = find_method(E, clskey, "__init__")
    if init is not None:
        call_function(E, init, [obj] + list(args), kwargs, fr, node)
    return obj


def bind_params(E, fnode, args, kwargs, mod, clsnode, key):
    a = fnode.args
    names = [p.arg for p in a.posonlyargs + a.args]
    env = {}
    if len(args) > len(names) and a.vararg is None:
        raise PyRaise("TypeError", fnode.lineno)
    for p, v in zip(names, args):
        env[p] = v
    if a.vararg is not None:
        env[a.vararg.arg] = tuple(args[len(names):])
    kwargs = dict(kwargs)
    defaults = dict(zip(names[len(names) - len(a.defaults):], a.defaults))
    for p in names[len(args):]:
        if p in kwargs:
            env[p] = kwargs.pop(p)
        elif p in defaults:
            env[p] = eval_default(E, defaults[p], mod, clsnode, key)
        else:
            raise PyRaise("TypeError", fnode.lineno)
    for p, dflt in zip(a.kwonlyargs, a.kw_defaults):
        if p.arg in kwargs:
            env[p.arg] = kwargs.pop(p.arg)
        elif dflt is not None:
            env[p.arg] = eval_default(E, dflt, mod, clsnode, key)
        else:
            raise PyRaise("TypeError", fnode.lineno)
    if a.kwarg is not None:
        env[a.kwarg.arg] = E.alloc(("pydict", kwargs))
    elif kwargs:
        raise PyRaise("TypeError", fnode.lineno)
    return env


def eval_default(E, dnode, mod, clsnode, key):
    f2 = Frame(key, mod, clsnode, None, {})
    E.frames.append(f2)
    try:
        return E.eval(dnode, f2)
    finally:
        E.frames.pop()


def call_function(E, key, args, kwargs, fr, node):
    """Call of a repository function: by contract (default) or inlined."""
    if E.spec_mode and key not in CONTRACTS and key not in INLINE:
        raise Unsupported("call of %s in a specification" % key)
    from .registry import EFFECTS
    if key in EFFECTS and not E.spec_mode:
        E.trusted_used.add("effect:" + key)
        return EFFECTS[key](E, args, kwargs, fr, node)
    fnode, mod, clsnode = E.repo.find(key)
    decos = [d.id if isinstance(d, ast.Name) else getattr(d, "attr", "") for d in fnode.decorator_list]
    variants = [k for k in CONTRACTS if k == key or k.startswith(key + "#")]
    if variants and key not in INLINE and not (E.inline_stack and E.inline_stack[-1] == key):
        if len(variants) == 1:
            return call_contract(E, CONTRACTS[variants[0]], variants[0], fnode, mod, clsnode, args, kwargs, fr, node)
        env = bind_params(E, fnode, args, kwargs, mod, clsnode, key)
        def pv_ok(c):
            for p, val in c.param_values.items():
                have = env.get(p)
                if isinstance(val, (str, int, bool)) and isinstance(have, (str, int, bool)) and have != val:
                    return False
            return True
        for vk in variants:
            c = CONTRACTS[vk]
            if pv_ok(c) and all(matches(E, env.get(p), ty) for p, ty in c.params.items() if p not in c.param_values):
                return call_contract(E, c, vk, fnode, mod, clsnode, args, kwargs, fr, node)
        raise Unsupported("no contract variant of %s matches the argument types %r (line %d)" % (
            key, [env.get(p) for p in CONTRACTS[variants[0]].params], getattr(node, "lineno", 0)))
    if key in INLINE or key.endswith(".__init__") and key.rsplit(".", 1)[0] in AUTO_INIT:
        return call_inline(E, key, fnode, mod, clsnode, args, kwargs, fr, node)
    # a repository function nobody wrote a contract for (typically a helper split off by a refactoring) is executed in
    # place: exact, so neither a source of false alarms nor of missed ones; recursion and loops without an invariant
    # still leave the subset.  Listed in the evidence under `auto_inlined`.
    if key in E.inline_stack:
        raise Unsupported("call of %s: recursive and without contract (line %d)" % (key, getattr(node, "lineno", 0)))
    E.auto_inlined.add(key)
    return call_inline(E, key, fnode, mod, clsnode, args, kwargs, fr, node)


AUTO_INIT = set()


def call_inline(E, key, fnode, mod, clsnode, args, kwargs, fr, node):
    if len(E.frames) > 40:
        raise Unsupported("inline depth")
    env = bind_params(E, fnode, args, kwargs, mod, clsnode, key)
    f2 = Frame(key, mod, clsnode, CONTRACTS.get(key), env)
    is_gen = any(isinstance(n, (ast.Yield, ast.YieldFrom)) for n in ast.walk(fnode))
    if is_gen:
        c = CONTRACTS.get(key)
        if c is None or c.returns is None:
            raise Unsupported("inlined generator %s needs a declared element type" % key)
        f2.yielded = E.new_symlist(SV(z3.Empty(sort(c.returns)), c.returns))
    # the inlined body's own try-handlers are local; the caller's remain visible through E.frames
    E.frames.append(f2)
    E.inline_stack.append(key)
    try:
        try:
            E.exec_block(fnode.body, f2)
        except _Return as r:
            return f2.yielded if is_gen else r.v
        return f2.yielded if is_gen else None
    finally:
        E.inline_stack.pop()
        E.frames.pop()


def call_contract(E, c, key, fnode, mod, clsnode, args, kwargs, fr, node):
    line = getattr(node, "lineno", 0)
    env = bind_params(E, fnode, args, kwargs, mod, clsnode, key)
    short = key.split(":")[1]
    if c.trusted:
        E.trusted_used.add(key)
    # coerce arguments to the declared parameter types (obligation-free: a mismatch is an engine limit)
    for p, ty in c.params.items():
        if p in env:
            env[p] = coerce(E, env[p], ty, key, p)
    for g in c.ghost:
        if g in fr.env:
            env[g] = fr.env[g]
        elif E.frames and g in E.frames[0].env:
            env[g] = E.frames[0].env[g]
        else:
            raise Unsupported("ghost argument %s of %s is not in scope at the call (line %d)" % (g, key, line))
    pre_heap = dict(E.heap)
    pre_env = dict(env)
    E.old_stack.append((pre_env, pre_heap, dict(E.ghostv)))
    try:
        if not E.spec_mode:
            for r in c.requires:
                E.oblige("call_pre[%s]" % short, E.spec_bool(r, env), line, "precondition of %s: %s" % (short, r))
        # exceptions the callee may raise: on the raising path the callee's frame is havoced like on the normal path and
        # only what the contract's raise_ensures says is known afterwards
        raised_exc = None
        for exc, cond in c.raises.items():
            when = cond["when"] if isinstance(cond, dict) else cond
            iff = isinstance(cond, dict) and cond.get("iff")
            t = E.spec_bool(when, env)
            if E.spec_mode:
                continue
            if not iff:
                # may raise (not must): nondeterministic within the condition
                t = z3.And(t, E.fresh("raises_" + exc, TBool).t)
            if E.catches(exc):
                if E.fork(t):
                    raised_exc = exc
                    break
            else:
                E.oblige("no_%s" % exc, z3.Not(t), line, "%s may raise %s" % (short, exc))
        # frame: havoc what the callee may modify
        for m in c.modifies:
            v = env.get(m)
            if isinstance(v, Ref) and not E.spec_mode:
                for cid in E.reachable(v):
                    if E.is_borrowed(Ref(cid)):
                        E.frame_violation(Ref(cid), node, "call of %s (modifies %s)" % (short, m))
                        break
            if isinstance(v, Ref):
                cell = E.cell(v)
                if cell[0] == "obj" and not cell[2]:
                    cd = cell[1]
                    E.setcell(v, ("obj", cd, {f: E.fresh_of("%s.%s" % (short, f), t, assume_inv=False)
                                              for f, t in cd.fields.items() if t != TAny}))
                else:
                    E.setcell(v, E.havoc_cell(short + "." + m, cell))
        # private state: fields no sidecar declaration mentions may be changed by any callee (no contract can speak
        # about them); what the caller knew about them is forgotten
        if not E.spec_mode:
            for v in env.values():
                if isinstance(v, Ref):
                    for cid in E.reachable(v):
                        cl = E.cell(Ref(cid))
                        if cl[0] == "obj" and cl[2] and any(f not in declared_fields(cl[1]) for f in cl[2]):
                            E.setcell(Ref(cid), (cl[0], cl[1], {f: x for f, x in cl[2].items() if f in declared_fields(cl[1])}))
        for g in c.modifies_ghost:
            E.havoc_ghost(g)
        for p_, st_ in (c.becomes.items() if raised_exc is None else ()):
            v = env.get(p_)
            if isinstance(v, Ref):
                E.setcell(v, E.cell(E.fresh_of("%s.%s" % (short, p_), TObj(st_), assume_inv=False)))
        if raised_exc is not None:
            E.spec_role = "assume"
            try:
                for en in c.raise_ensures.get(raised_exc, []):
                    E.assume(E.spec_bool(en, dict(env), old=True))
            finally:
                E.spec_role = "prove"
            raise PyRaise(raised_exc, line)
        result = None
        if c.returns is not None:
            result = E.fresh_of("ret_" + short.replace(".", "_"), c.returns, assume_inv=False)
        env2 = dict(env)
        env2["result"] = result
        E.spec_role = "assume"
        try:
            for en in c.ensures:
                E.assume(E.spec_bool(en, env2, old=True))
        finally:
            E.spec_role = "prove"
        return result
    finally:
        E.old_stack.pop()


def matches(E, v, ty):
    if ty == TAny:
        return True
    if ty == TInt:
        return is_intlike(v)
    if ty == TBool:
        return isinstance(v, bool) or (isinstance(v, SV) and v.ty == TBool)
    if ty == TBytes:
        return is_byteslike(v)
    if ty == TStr:
        return isinstance(v, str) or (isinstance(v, SV) and v.ty == TStr)
    if ty == TSlice:
        return isinstance(v, Ref) and E.cell(v)[0] == "slice"
    if ty == TNone:
        return v is None
    if isinstance(ty, TObj):
        if not (isinstance(v, Ref) and E.cell(v)[0] == "obj" and ty.cls.split("@")[0] in class_mro(E, E.cell(v)[1].key)):
            return False
        # typestate: a class declared in several shapes matches by the shape of its reference-valued fields
        base = ty.cls.split("@")[0]
        if any(k.startswith(base + "@") for k in CLASSES) and ty.cls in CLASSES:
            fields = E.cell(v)[2]
            for f, fty in CLASSES[ty.cls].fields.items():
                if isinstance(fty, (TObj, TDict, TList)) and f in fields and not matches(E, fields[f], fty):
                    return False
        return True
    if isinstance(ty, TList):
        return (isinstance(v, Ref) and E.cell(v)[0] in ("seq", "pylist", "iter")) or (
            isinstance(v, SV) and isinstance(v.ty, TList)) or isinstance(v, (tuple, list))
    if isinstance(ty, TPyDict):
        if not (isinstance(v, Ref) and E.cell(v)[0] in ("dict", "pydict")):
            return False
        # contract variants over literal dictionaries are told apart by their key sets
        return E.cell(v)[0] != "pydict" or set(E.cell(v)[1]) == set(ty.fields)
    if isinstance(ty, TDict):
        return isinstance(v, Ref) and E.cell(v)[0] in ("dict", "pydict")
    if isinstance(ty, TTuple):
        return isinstance(v, tuple) and len(v) == len(ty.elems)
    return False


def coerce(E, v, ty, key, p):
    if isinstance(ty, TObj):
        return v
    if isinstance(ty, (TList,)):
        if isinstance(v, Ref) and E.cell(v)[0] in ("seq", "pylist", "iter"):
            if E.cell(v)[0] == "pylist":
                E.setcell(v, ("seq", E.pylist_sv(E.cell(v)[1], ty.elem)))
            return v
        if isinstance(v, SV):
            return E.new_symlist(v)
        if isinstance(v, (tuple, list)):
            return E.new_symlist(E.pylist_sv(list(v), ty.elem))
    if isinstance(ty, (TDict, TPyDict)):
        return v
    if isinstance(ty, TTuple):
        return v
    if ty == TAny:
        return v
    if isinstance(v, SV) and isinstance(v.ty, TOpt) and v.ty.elem == ty:
        # an optional value flows into a non-optional parameter: None would be a TypeError in the callee
        so = sort(v.ty)
        E.may_raise("TypeError", so.is_none(v.t), 0, "None passed for parameter %s of %s" % (p, key))
        return E.unbox(SV(so.val(v.t), ty))
    try:
        return box(v, ty) if isinstance(v, SV) or py_ty(v) is not None or v is None else v
    except TypeError:
        raise Unsupported("argument %s of %s has the wrong type (%r)" % (p, key, v))


# ------------------------------------------------------------------------------------------------
def call_method(E, recv, name, args, kwargs, fr, node):
    line = getattr(node, "lineno", 0)
    if type(recv).__name__ == "PathV":
        from .paths import path_method
        return path_method(E, recv, name, args, kwargs, fr, node)
    if isinstance(recv, tuple) and recv and recv[0] == "super":
        _, cls, selfv = recv
        # find the defining class of the current frame, continue the MRO after it
        if isinstance(selfv, Ref):
            objcls = E.cell(selfv)[1].key
        else:
            objcls = selfv.key
        mk = find_method(E, objcls, name, after=cls)
        if mk is None:
            if name == "__init__":
                return None
            raise Unsupported("super().%s" % name)
        return call_function(E, mk, [selfv] + list(args), kwargs, fr, node)
    if isinstance(recv, ClassRef):
        mk = find_method(E, recv.key, name)
        if mk is None:
            raise Unsupported("no method %s on %s" % (name, recv.key))
        return call_function(E, mk, [recv] + list(args), kwargs, fr, node)
    if isinstance(recv, Ref):
        c = E.cell(recv)
        if c[0] == "obj":
            cd = c[1]
            if name in c[2]:  # callable stored in a field (e.g. config.prf_f)
                return apply(E, c[2][name], args, kwargs, fr, node)
            if name in getattr(cd, "virtual", {}):
                return cd.virtual[name](E, recv, args, kwargs, fr, node)
            mk = find_method(E, cd.key, name)
            if mk is None:
                r = abc_mixin(E, recv, cd, name, args, kwargs, fr, node)
                if r is not NOATTR:
                    return r
                if E.catches("AttributeError") or E.catches("BaseException"):
                    raise PyRaise("AttributeError", line)
                raise Unsupported("no method %s on %s" % (name, cd.key))
            return call_function(E, mk, [recv] + list(args), kwargs, fr, node)
        from .containers import container_method
        return container_method(E, recv, c, name, args, kwargs, fr, node)
    from .containers import value_method
    return value_method(E, recv, name, args, kwargs, fr, node)


# ------------------------------------------------------------------------------------------------
def comprehension(E, e, fr, kind):
    """Comprehensions are desugared into an accumulation loop; a symbolic-length comprehension takes its
    invariant from the contract's `loops` table like any other loop (accumulator name `_acc`)."""
    if len(e.generators) != 1:
        raise Unsupported("nested comprehension")
    g = e.generators[0]
    itv = E.eval(g.iter, fr)
    d = E.iter_desc(itv, fr, e)
    owner = fr
    k, spec, unroll = E.loop_spec(owner, e)
    n = d.length
    if isinstance(n, z3.ExprRef):
        ns = z3.simplify(n)
        if z3.is_int_value(ns):
            n = ns.as_long()
    saved = {x.id: fr.env.get(x.id, NOATTR) for x in ast.walk(g.target) if isinstance(x, ast.Name)}

    def restore():
        for nm, v in saved.items():
            if v is NOATTR:
                fr.env.pop(nm, None)
            else:
                fr.env[nm] = v
    if isinstance(n, int):
        if n > 300:
            raise Unsupported("unrolling comprehension of %d" % n)
        out = []
        for i in range(n):
            E.assign(g.target, d.get(i), fr)
            if all(E.truth(E.eval(c, fr)) for c in g.ifs):
                if kind == "dict":
                    out.append((E.eval(e.key, fr), E.eval(e.value, fr)))
                else:
                    out.append(E.eval(e.elt, fr))
        restore()
        if kind == "dict":
            r = E.alloc(("pydict", {}))
            for kk, vv in out:
                set_subscript(E, r, kk, vv, e, fr)
            return r
        if kind == "set":
            return frozenset(out)
        return E.new_list(out)
    if spec is None and unroll is not None and kind in ("list", "gen"):
        # complete unrolling with an unwinding assertion, as for loops: at most `unroll` elements
        out = []
        for i in range(unroll + 1):
            if not E.fork(z3_int(n) > i if n is not None else d.has(z3.IntVal(i))):
                break
            if i == unroll:
                E.oblige("unwind[%d]" % k, False, e.lineno, "comprehension %d yields more than %d elements" % (k, unroll))
                raise PathEnd()
            E.assign(g.target, d.get(i), fr)
            if all(E.truth(E.eval(c, fr)) for c in g.ifs):
                out.append(E.eval(e.elt, fr))
        restore()
        return E.new_list(out)
    if spec is None:
        auto = auto_map(E, e, g, d, fr, kind)
        restore()
        if auto is not None:
            return auto
        raise Unsupported("comprehension %d of %s (line %d) has symbolic length and no invariant" % (
            k, fr.key, e.lineno))
    if kind == "set":
        raise Unsupported("symbolic set comprehension")
    if kind == "dict":
        dty = spec.get("dict")
        if dty is None:
            raise Unsupported("dict comprehension spec needs dict type")
        acc = E.alloc(("dict", L.empty_dict(E, dty)))
    else:
        ety = spec.get("elem")
        if ety is None:
            raise Unsupported("comprehension spec needs elem type")
        acc = E.new_symlist(SV(z3.Empty(sort(TList(ety))), TList(ety)))
    if n is None:
        return comprehension_has(E, e, fr, g, d, k, spec, acc, restore)
    nt = z3_int(n)
    E.check_invs("inv_init[%d]" % k, spec, fr, {"it": 0, "_acc": acc, "n_iter": SV(nt, TInt)}, e.lineno)
    E.setcell(acc, E.havoc_cell("_acc", E.cell(acc)))
    names, cells = E.modified_in([ast.Expr(x) for x in ([e.key, e.value] if kind == "dict" else [e.elt])], fr)
    for nm in sorted(cells):
        v = fr.env.get(nm)
        if isinstance(v, Ref):
            E.setcell(v, E.havoc_cell(nm, E.cell(v)))
    it = E.fresh("it", TInt)
    E.assume(z3.And(it.t >= 0, it.t <= nt))
    E.assume_invs(spec, fr, {"it": it, "_acc": acc, "n_iter": SV(nt, TInt)})
    if E.fork(it.t < nt):
        for f in d.facts(it):
            E.assume(f)
        E.assign(g.target, d.get(it), fr)
        if all(E.truth(E.eval(c, fr)) for c in g.ifs):
            if kind == "dict":
                set_subscript(E, acc, E.eval(e.key, fr), E.eval(e.value, fr), e, fr)
            else:
                v = E.eval(e.elt, fr)
                call_method(E, acc, "append", [v], {}, fr, e)
        E.check_invs("inv_preserved[%d]" % k, spec, fr, {"it": SV(it.t + 1, TInt), "_acc": acc,
                                                         "n_iter": SV(nt, TInt)}, e.lineno)
        raise PathEnd()
    restore()
    ee = dict(fr.env)
    ee.update({"it": it, "_acc": acc})
    for (ln, exprs) in spec.get("exit_hints", []):
        E.add_hint(ln, exprs, ee)
    return acc


def comprehension_has(E, e, fr, g, d, k, spec, acc, restore):
    """list comprehension over an iterable without closed-form length (range with symbolic step)"""
    def henv(itv):
        ev = {"it": itv, "_acc": acc}
        if isinstance(g.target, ast.Name):
            ev[g.target.id] = d.get(itv)
        return ev
    E.check_invs("inv_init[%d]" % k, spec, fr, henv(0), e.lineno)
    E.setcell(acc, E.havoc_cell("_acc", E.cell(acc)))
    it = E.fresh("it", TInt)
    E.assume(z3.And(it.t >= 0, z3.Or(it.t == 0, d.has(it.t - 1))))
    E.assume_invs(spec, fr, henv(it))
    if E.fork(d.has(it.t)):
        E.assign(g.target, d.get(it), fr)
        if all(E.truth(E.eval(c, fr)) for c in g.ifs):
            v = E.eval(e.elt, fr)
            call_method(E, acc, "append", [v], {}, fr, e)
        E.check_invs("inv_preserved[%d]" % k, spec, fr, henv(SV(it.t + 1, TInt)), e.lineno)
        raise PathEnd()
    restore()
    ee = dict(fr.env)
    ee.update(henv(it))
    for (ln, exprs) in spec.get("exit_hints", []):
        E.add_hint(ln, exprs, ee)
    return acc


def auto_map(E, e, g, d, fr, kind):
    """`[x for x in xs]`-style identity comprehension needs no invariant."""
    if kind in ("list", "gen") and not g.ifs and isinstance(g.target, ast.Name) and isinstance(e.elt, ast.Name) \
            and e.elt.id == g.target.id:
        itv = E.eval(g.iter, fr)
        try:
            return E.new_symlist(E.list_sv(itv))
        except Unsupported:
            return None
    return None
