"""pyvc symbolic executor: real python source (ast) + sidecar contracts -> verification conditions.

Path exploration is by *replay*: the function is re-executed from its entry once per path, with the
list of branch decisions taken so far; `fork()` consults that list.  All state is therefore plain
python data owned by one path.
"""
import ast, z3, copy, hashlib
from .ty import *
from .registry import SPEC, LEMMAS, CLASSES, CONTRACTS, INLINE, CONSTS, Contract, GHOSTS, EFFECTS, MONOTONE
from . import registry


class Unsupported(Exception):
    pass


class PathEnd(Exception):
    pass


class PyRaise(Exception):
    def __init__(self, exc, line=0, msg=None):
        self.exc, self.line, self.msg = exc, line, msg


class _Return(Exception):
    def __init__(self, v):
        self.v = v


class _Break(Exception):
    pass


class _Continue(Exception):
    pass


EXC_BASES = {
    "BaseException": None, "Exception": "BaseException", "LookupError": "Exception", "IndexError": "LookupError",
    "KeyError": "LookupError", "ValueError": "Exception", "TypeError": "Exception",
    "ArithmeticError": "Exception", "OverflowError": "ArithmeticError", "ZeroDivisionError": "ArithmeticError",
    "StopIteration": "Exception", "OSError": "Exception", "FileNotFoundError": "OSError",
    "FileExistsError": "OSError", "AttributeError": "Exception", "NotImplementedError": "RuntimeError",
    "RuntimeError": "Exception", "UnicodeDecodeError": "ValueError", "ImportError": "Exception",
    "AssertionError": "Exception", "NameError": "Exception", "EOFError": "Exception",
    "UnpicklingError": "Exception", "JSONDecodeError": "ValueError", "IsADirectoryError": "OSError",
}


def exc_isa(e, base):
    while e is not None:
        if e == base:
            return True
        e = EXC_BASES.get(e)
    return False


# ---- python-level (non-z3) runtime values -------------------------------------------------------
class Ref:
    """Reference to a heap cell (list / dict / object / bytearray / iterator / set)."""
    __slots__ = ("cid",)

    def __init__(self, cid):
        self.cid = cid

    def __repr__(self):
        return "Ref(%d)" % self.cid


class ClassRef:
    def __init__(self, key):
        self.key = key


class FuncRef:
    def __init__(self, key):
        self.key = key


class ExtRef:
    def __init__(self, name):
        self.name = name

    def __repr__(self):
        return "Ext(%s)" % self.name


class ExcClass:
    def __init__(self, name):
        self.name = name


class ExcVal:
    def __init__(self, name, args=()):
        self.name, self.args = name, args


class Bound:
    def __init__(self, recv, name):
        self.recv, self.name = recv, name


class NoneRepeat:
    """[None] * n before its element type is known"""

    def __init__(self, n):
        self.n = n


class RangeV:
    def __init__(self, start, stop, step):
        self.start, self.stop, self.step = start, stop, step


class IterDesc:
    """Uniform description of something a for-loop can walk: length + element at position."""

    def __init__(self, length, get, facts=None, has=None):
        self.length, self.get, self.facts = length, get, facts or (lambda k: [])
        self.has = has   # optional: has(k) <=> the k-th element exists (when no closed-form length is used)


class Frac:
    """a / b for ints (python true division) kept exact until math.ceil / math.floor / int consumes it."""

    def __init__(self, num, den):
        self.num, self.den = num, den


class Log2:
    def __init__(self, arg):
        self.arg = arg


class Opaque:
    """A value the engine does not interpret (error messages, loggers...)."""

    def __init__(self, what=""):
        self.what = what


class MaybeNone(Opaque):
    """An uninterpreted object reference that may also be None (an optional field the contract says nothing about):
    `x is None`, `x is not None` and the truth value of x are decided by one unconstrained boolean per value."""
    _ctr = [0]

    def __init__(self, what=""):
        Opaque.__init__(self, what)
        MaybeNone._ctr[0] += 1
        self.is_none = z3.Bool("maybe_none_%s!%d" % (what, MaybeNone._ctr[0]))


class LambdaV:
    def __init__(self, node, env):
        self.node, self.env = node, env


class VC:
    def __init__(self, name, assumptions, goal, line, func, kind, uses):
        self.name, self.assumptions, self.goal = name, list(assumptions), goal
        self.line, self.func, self.kind, self.uses = line, func, kind, set(uses)
        self.status = None
        self.backend = None
        self.seconds = 0.0
        self.detail = ""


def z3_int(v):
    if isinstance(v, z3.ExprRef):
        return v
    if isinstance(v, SV):
        if v.ty == TBool:
            return z3.If(v.t, 1, 0)
        if v.ty != TInt:
            raise Unsupported("expected int, got %r" % (v.ty,))
        return v.t
    if isinstance(v, bool):
        return z3.IntVal(int(v))
    if isinstance(v, int):
        return z3.IntVal(v)
    raise Unsupported("expected int, got %r" % (v,))


def is_conc(v):
    return not isinstance(v, SV)


def is_intlike(v):
    return isinstance(v, int) or (isinstance(v, SV) and v.ty in (TInt, TBool))


def is_byteslike(v):
    return isinstance(v, (bytes, bytearray)) or (isinstance(v, SV) and v.ty == TBytes)


MUTATORS = {"append", "extend", "pop", "sort", "add", "update", "insert", "remove", "clear", "setdefault",
            "write", "seek", "close", "reverse", "read", "popitem", "discard", "shuffle"}


class Frame:
    def __init__(self, key, module, clsnode, contract, env):
        self.key, self.module, self.clsnode, self.contract, self.env = key, module, clsnode, contract, env
        self.loop_ord = 0
        self.yielded = None  # Ref of the ghost result list for generator functions
        self.handlers = []   # stack of handler name lists for enclosing try statements


_MUTATING_METHODS = {"append", "extend", "insert", "pop", "remove", "clear", "sort", "reverse", "update", "setdefault", "popitem",
                     "add", "discard", "__setitem__", "__delitem__"}


def module_mutates(mod, name):
    """does any code of the module change the module-level object bound to `name` (or rebind the name)?"""
    for n in ast.walk(mod.tree):
        if isinstance(n, ast.Global) and name in n.names:
            return "rebound through `global` at line %d" % n.lineno
        if isinstance(n, (ast.Subscript,)) and isinstance(n.ctx, (ast.Store, ast.Del)) and isinstance(n.value, ast.Name) and n.value.id == name:
            return "item assignment at line %d" % n.lineno
        if isinstance(n, ast.AugAssign) and isinstance(n.target, ast.Name) and n.target.id == name and not isinstance(getattr(n, "_parent", None), ast.Module):
            return "augmented assignment at line %d" % n.lineno
        if isinstance(n, ast.Call) and isinstance(n.func, ast.Attribute) and n.func.attr in _MUTATING_METHODS \
                and isinstance(n.func.value, ast.Name) and n.func.value.id == name:
            return "%s() at line %d" % (n.func.attr, n.lineno)
    return None


def heap_mutating(E, fnode, mod, clsnode, depth):
    """syntactic over-approximation: the function (or an un-contracted repository function it calls on self) writes to the heap"""
    def private_state(t1):
        """`self.x = ...` where x is a field no sidecar declaration mentions and of simple immutable type: private state, which the
        engine reads as an arbitrary value anyway -- writing it changes nothing a loop invariant could speak about"""
        if not (isinstance(t1, ast.Attribute) and isinstance(t1.value, ast.Name) and t1.value.id == "self" and clsnode is not None):
            return False
        try:
            from .builtins_ import declared_fields, infer_attr_type
            key = "%s:%s" % (mod.rel, clsnode.name)
            cd = CLASSES.get(key)
            if cd is None or t1.attr in declared_fields(cd):
                return False
            return infer_attr_type(E, key, t1.attr) is not None
        except Exception:
            return False
    for n in ast.walk(fnode):
        if isinstance(n, (ast.Assign, ast.AugAssign, ast.AnnAssign)):
            tg = n.targets if isinstance(n, ast.Assign) else [n.target]
            for t in tg:
                for t1 in (t.elts if isinstance(t, (ast.Tuple, ast.List)) else [t]):
                    if isinstance(t1, (ast.Attribute, ast.Subscript)) and not private_state(t1):
                        return True
        elif isinstance(n, ast.Delete):
            if any(isinstance(t, (ast.Attribute, ast.Subscript)) for t in n.targets):
                return True
        elif isinstance(n, ast.Global):
            return True
        elif isinstance(n, ast.Call) and isinstance(n.func, ast.Attribute):
            if n.func.attr in _MUTATING_METHODS:
                base = n.func.value
                while isinstance(base, (ast.Attribute, ast.Subscript)):
                    base = base.value
                params = {a.arg for a in fnode.args.args + fnode.args.posonlyargs + fnode.args.kwonlyargs}
                if isinstance(base, ast.Name) and base.id in params:
                    return True
            if depth < 3 and clsnode is not None and isinstance(n.func.value, ast.Name) and n.func.value.id == "self":
                try:
                    from .builtins_ import find_method
                    mk = find_method(E, "%s:%s" % (mod.rel, clsnode.name), n.func.attr)
                    if mk and not any(k == mk or k.startswith(mk + "#") for k in CONTRACTS):
                        f2, m2, c2 = E.repo.find(mk)
                        if f2 is not fnode and heap_mutating(E, f2, m2, c2, depth + 1):
                            return True
                except Exception:
                    pass
    return False


def loops_of(fnode):
    """the loops and comprehensions of a function in source order (nested definitions excluded)"""
    found = []

    def visit(n):
        for ch in ast.iter_child_nodes(n):
            if isinstance(ch, (ast.FunctionDef, ast.AsyncFunctionDef, ast.Lambda, ast.ClassDef)):
                continue
            if isinstance(ch, (ast.For, ast.AsyncFor, ast.While, ast.ListComp, ast.SetComp, ast.DictComp, ast.GeneratorExp)):
                found.append(ch)
            visit(ch)
    visit(fnode)
    found.sort(key=lambda n: (n.lineno, n.col_offset))
    return found


def loop_header(node):
    if isinstance(node, (ast.For, ast.AsyncFor)):
        return "for %s in %s" % (ast.unparse(node.target), ast.unparse(node.iter))
    if isinstance(node, ast.While):
        return "while %s" % ast.unparse(node.test)
    return "%s %s" % (type(node).__name__, " ".join(ast.unparse(g).strip() for g in node.generators))


_LOOP_HEADERS = None


def LOOP_HEADERS():
    global _LOOP_HEADERS
    if _LOOP_HEADERS is None:
        import json, os
        p = os.path.join(os.path.dirname(os.path.dirname(os.path.abspath(__file__))), "contracts", "loop_headers.json")
        try:
            _LOOP_HEADERS = json.load(open(p))
        except Exception:
            _LOOP_HEADERS = {}
    return _LOOP_HEADERS


class Engine:
    def __init__(self, repo, budget_ms=150):
        self.repo = repo
        self.vcs = {}          # digest -> VC
        self.order = []
        self.dropped = []      # statements dropped / abstracted, reported in evidence
        self.trusted_used = set()
        self.auto_inlined = set()
        self.lemmas_used = set()
        self.spec_role = "prove"     # "assume" while a contract's clauses are being assumed at a call site
        self.budget_ms = budget_ms
        self.paths = 0
        self.spec_mode = 0
        self.feas = {}
        self._feas_solver = None

    # ------------------------------------------------------------------ path machinery
    def _reset_path(self, decisions):
        self.decisions = list(decisions)
        self.pos = 0
        self.pc = []
        self.heap = {}
        self.next_cid = 0
        self.fresh_ctr = 0
        self.vc_ctr = {}
        self.uses = set(n for n, l in LEMMAS.items() if l.auto)
        self.old_stack = []
        self.inline_stack = []
        self.ghost = {}
        self.ghostv = {}

    def fresh(self, name, ty):
        self.fresh_ctr += 1
        return SV(z3.Const("%s!%d" % (name, self.fresh_ctr), sort(ty)), ty)

    def feasible(self, cond):
        s = z3.Solver()
        s.set("timeout", self.budget_ms)
        for a in self.pc:
            s.add(a)
        s.add(cond)
        return s.check() != z3.unsat

    def entails(self, cond, ms=60):
        """cheap check pc => cond (used only to simplify terms; `False` means 'not shown')"""
        c = z3.simplify(cond)
        if z3.is_true(c):
            return True
        if z3.is_false(c):
            return False
        key = (len(self.pc), self.pc[-1].get_id() if self.pc else 0, c.get_id())
        if key in self.feas:
            return self.feas[key]
        s = z3.Solver()
        s.set("timeout", ms)
        for a in self.pc:
            s.add(a)
        s.add(z3.Not(c))
        r = s.check() == z3.unsat
        self.feas[key] = r
        return r

    def fork(self, cond):
        """cond: z3 Bool. Returns the python truth value taken on this path."""
        c = z3.simplify(cond)
        if z3.is_true(c):
            return True
        if z3.is_false(c):
            return False
        if self.pos < len(self.decisions):
            d = self.decisions[self.pos]
        else:
            t_ok = self.feasible(c)
            f_ok = self.feasible(z3.Not(c))
            if t_ok and f_ok:
                d = True
                self.pending.append(self.decisions[:self.pos] + [False])
            elif t_ok:
                d = True
            elif f_ok:
                d = False
            else:
                raise PathEnd()
            self.decisions.append(d)
        self.pos += 1
        self.pc.append(c if d else z3.Not(c))
        return d

    def assume(self, cond):
        if isinstance(cond, bool):
            if not cond:
                raise PathEnd()
            return
        c = z3.simplify(cond)
        if z3.is_false(c):
            raise PathEnd()
        if not z3.is_true(c):
            self.pc.append(c)

    def oblige(self, kind, goal, line=0, detail=""):
        """Emit a verification condition, then continue under the assumption that it holds."""
        fr = self.frames[0]
        n = self.vc_ctr.get(kind, 0)
        self.vc_ctr[kind] = n + 1
        if isinstance(goal, bool):
            goal = z3.BoolVal(goal)
        name = "%s/%s[%d]" % (fr.key.split(":")[1], kind, n)
        g = z3.simplify(goal)
        if not z3.is_true(g):
            dig = hashlib.sha256((name + "|" + "&".join(sorted(a.sexpr() for a in self.pc)) + "=>" + g.sexpr()
                                  ).encode()).hexdigest()
            if dig not in self.vcs:
                uses = set(self.uses)
                if fr.contract is not None:
                    for pref, names in fr.contract.lemmas_for.items():
                        if kind.startswith(pref):
                            uses |= set(names)
                            self.lemmas_used |= set(names)
                vc = VC(name, self.pc, g, line, fr.key, kind, uses)
                vc.detail = detail
                if fr.contract is not None and fr.contract.depth is not None:
                    vc.depth = fr.contract.depth
                if fr.contract is not None:
                    vc.reveal = tuple(fr.contract.reveal)
                    vc.unfold_only = fr.contract.unfold_only
                    vc.budget = getattr(fr.contract, "budget", 1)
                self.vcs[dig] = vc
                self.order.append(dig)
        else:
            # trivially true obligations are still counted (discharged by the simplifier)
            dig = hashlib.sha256((name + "|trivial|" + str(line)).encode()).hexdigest()
            if dig not in self.vcs:
                vc = VC(name, [], z3.BoolVal(True), line, fr.key, kind, set())
                vc.status, vc.backend = "unsat", "simplifier"
                vc.detail = detail
                self.vcs[dig] = vc
                self.order.append(dig)
        self.assume(g)

    # ------------------------------------------------------------------ heap
    def alloc(self, cell):
        self.next_cid += 1
        self.heap[self.next_cid] = cell
        return Ref(self.next_cid)

    def cell(self, ref):
        return self.heap[ref.cid]

    def setcell(self, ref, cell):
        self.heap[ref.cid] = cell

    def new_list(self, items):
        return self.alloc(("pylist", list(items)))

    def new_symlist(self, sv):
        return self.alloc(("seq", sv))

    def list_sv(self, v, elem_hint=None):
        """Any list-like value -> SV of TList."""
        if isinstance(v, SV) and isinstance(v.ty, TList):
            return v
        if isinstance(v, Ref):
            kind, c = self.cell(v)[0], self.cell(v)[1]
            if kind == "seq":
                return c
            if kind == "pylist":
                return self.pylist_sv(c, elem_hint)
            if kind == "iter":
                src, pos = c[0], c[1]
                return SV(z3.Extract(src.t, pos, z3.Length(src.t) - pos), src.ty)
        if isinstance(v, (tuple, list)):
            return self.pylist_sv(list(v), elem_hint)
        if isinstance(v, RangeV):
            raise Unsupported("range as list value")
        raise Unsupported("not a list: %r" % (v,))

    def val_ty(self, v):
        if isinstance(v, SV):
            return v.ty
        t = py_ty(v)
        if t is not None:
            return t
        if isinstance(v, tuple):
            return TTuple(*[self.val_ty(x) for x in v])
        if isinstance(v, Ref):
            c = self.cell(v)
            if c[0] == "seq":
                return c[1].ty
            if c[0] == "pylist":
                if not c[1]:
                    raise Unsupported("type of empty list unknown")
                return TList(self.val_ty(c[1][0]))
            if c[0] == "dict":
                return c[1].ty
            if c[0] == "obj":
                return TObj(c[1].key)
        raise Unsupported("no type for %r" % (v,))

    def to_sv(self, v, ty=None):
        """Value -> SV (boxing python tuples/lists)."""
        if isinstance(v, SV):
            return v if ty is None else box(v, ty)
        if type(v).__name__ == "PathV":
            return SV(v.term(), TStr)
        if isinstance(v, Ref):
            c = self.cell(v)
            if c[0] in ("seq", "pylist", "iter"):
                return self.list_sv(v, ty.elem if isinstance(ty, TList) else None)
            if c[0] == "dict":
                return c[1]
            if c[0] == "bytearray":
                return c[1]
            raise Unsupported("cannot box %s" % c[0])
        if isinstance(v, tuple):
            tys = ty.elems if isinstance(ty, TTuple) else [None] * len(v)
            parts = [self.to_sv(x, t) for x, t in zip(v, tys)]
            tt = TTuple(*[p.ty for p in parts])
            return SV(sort(tt).mk(*[p.t for p in parts]), tt)
        if v is None and ty is not None:
            return lift(None, ty)
        return lift(v, ty) if ty is None or py_ty(v) is None else box(v, ty)

    def pylist_sv(self, items, elem_hint=None):
        if not items:
            if elem_hint is None:
                raise Unsupported("element type of empty list unknown")
            return SV(z3.Empty(sort(TList(elem_hint))), TList(elem_hint))
        svs = [self.to_sv(x, elem_hint) for x in items]
        et = svs[0].ty
        for s in svs:
            if s.ty != et:
                raise Unsupported("heterogeneous list")
        us = [z3.Unit(s.t) for s in svs]
        return SV(us[0] if len(us) == 1 else z3.Concat(*us), TList(et))

    # ------------------------------------------------------------------ entry point
    def verify(self, key):
        """Generate the VCs of one function against its own contract."""
        c = CONTRACTS[key]
        self.pending = [[]]
        npaths = 0
        while self.pending:
            dec = self.pending.pop()
            self._reset_path(dec)
            npaths += 1
            if npaths > 4000:
                raise Unsupported("path explosion in " + key)
            try:
                self._run_function(key, c)
            except PathEnd:
                pass
        self.paths += npaths
        return npaths

    def ghost_module(self, c):
        """ghost client code sees the names of the module given by `c.note` ("module: path.py") or builtins only"""
        rel = getattr(c, "ghost_scope", None)
        if rel:
            return self.repo.module(rel)

        class _M:
            names = {}
            rel = "<ghost>"
        return _M()

    def _params_init(self, c, fr):
        for name, ty in c.params.items():
            if name in c.param_values:
                fr.env[name] = c.param_values[name]
            elif ty == TAny:
                fr.env[name] = None
            else:
                fr.env[name] = self.fresh_of(name, ty)
        for name, ty in c.ghost.items():
            fr.env[name] = self.fresh_of(name, ty)
        for name, ty in GHOSTS.items():
            self.ghostv[name] = self.fresh("ghost_" + name, ty)

    def fresh_of(self, name, ty, assume_inv=True):
        if isinstance(ty, TObj):
            cd = CLASSES[ty.cls]
            fields = {}
            for f, fty in cd.fields.items():
                if f in getattr(cd, "consts", {}):
                    fields[f] = cd.consts[f]
                    continue
                if fty == TAny:
                    continue
                fields[f] = self.fresh_of(name + "." + f, fty, assume_inv)
            r = self.alloc(("obj", cd, fields))
            if assume_inv:
                self.assume_invariant(r)
            return r
        if isinstance(ty, TPyDict):
            d = {}
            for k, t in ty.fields.items():
                d[k] = self.fresh_of("%s[%s]" % (name, k), t, assume_inv) if isinstance(t, Ty) else t
            return self.alloc(("pydict", d))
        if isinstance(ty, TList):
            return self.new_symlist(self.fresh(name, ty))
        if isinstance(ty, TDict):
            return self.alloc(("dict", self.fresh_dict(name, ty)))
        if isinstance(ty, TTuple):
            return tuple(self.fresh_of("%s.%d" % (name, i), e, assume_inv) for i, e in enumerate(ty.elems))
        if isinstance(ty, TOpt) and isinstance(ty.elem, (TObj, TList, TDict)):
            raise Unsupported("optional reference parameter")
        if ty == TSlice:
            return self.alloc(("slice", tuple(self.fresh("%s.%s" % (name, f), TOpt(TInt)) for f in ("start", "stop", "step"))))
        return self.fresh(name, ty)

    def fresh_dict(self, name, ty):
        """a dict received from outside: well-formedness of the insertion-ordered key sequence (B4) is assumed"""
        from . import speclib
        d = self.fresh(name, ty)
        self.fresh_ctr += 1
        w = z3.Const("w!%d" % self.fresh_ctr, sort(ty.key))
        kp = speclib.dkpos_fn(ty)
        dk = speclib.dkeys_fn(ty)(d.t)
        s_ = sort(TOpt(ty.val))
        self.assume(z3.ForAll([w], z3.Implies(z3.Not(s_.is_none(z3.Select(d.t, w))),
                                              z3.And(kp(d.t, w) >= 0, kp(d.t, w) < z3.Length(dk), dk[kp(d.t, w)] == w)),
                              patterns=[kp(d.t, w)]))
        return d

    def reachable(self, v, acc=None):
        acc = set() if acc is None else acc
        if isinstance(v, Ref):
            if v.cid in acc:
                return acc
            acc.add(v.cid)
            c = self.cell(v)
            if c[0] == "obj":
                for x in c[2].values():
                    self.reachable(x, acc)
            elif c[0] == "pylist":
                for x in c[1]:
                    self.reachable(x, acc)
            elif c[0] == "pydict":
                for x in c[1].values():
                    self.reachable(x, acc)
        elif isinstance(v, tuple):
            for x in v:
                self.reachable(x, acc)
        return acc

    def assume_invariant(self, ref):
        cd = self.cell(ref)[1]
        for cdx in self.mro(cd):
            for inv in cdx.invariant:
                self.assume(self.spec_bool(inv, {"self": ref}))

    def mro(self, cd):
        out, todo = [], [cd]
        while todo:
            x = todo.pop(0)
            if x not in out:
                out.append(x)
                todo.extend(CLASSES[b] for b in x.bases if b in CLASSES)
        return out

    def _run_function(self, key, c):
        real = None
        if c.body is not None and not key.startswith("ghost:"):
            # a library mixin restated as ghost code: if the repository (now) defines the method itself, that is what runs
            try:
                real = self.repo.find(key)
            except (KeyError, OSError, ValueError):
                real = None
        if c.body is not None and real is None:
            mod = None
            node = ast.parse(c.body).body[0]
            clsnode = None

            mod = self.ghost_module(c)
        else:
            node, mod, clsnode = real if real is not None else self.repo.find(key)
        fr = Frame(key, mod, clsnode, c, {})
        fr.fnode = node
        self.frames = [fr]
        if c.only_lemmas:
            self.uses = set()        # this function's obligations see exactly the lemmas its contract names
        self.uses |= set(c.lemmas)
        self._params_init(c, fr)
        self.spec_role = "assume"
        try:
            for r in c.requires:
                self.assume(self.spec_bool(r, fr.env))
        finally:
            self.spec_role = "prove"
        self.entry_env = dict(fr.env)
        self.entry_heap = dict(self.heap)
        self.frame_ok = set()
        for m in c.modifies:
            self.frame_ok |= self.reachable(fr.env.get(m))
        self.old_stack.append((self.entry_env, self.entry_heap, dict(self.ghostv)))
        for (ln, exprs) in c.hints:
            self.add_hint(ln, exprs, fr.env)
        is_gen = any(isinstance(n, (ast.Yield, ast.YieldFrom)) for n in ast.walk(node))
        if is_gen:
            if c.returns is None:
                raise Unsupported("generator needs returns=TList(..)")
            fr.yielded = self.new_symlist(SV(z3.Empty(sort(c.returns)), c.returns))
            fr.env["result"] = fr.yielded
        result, raised = None, None
        try:
            self.exec_block(node.body, fr)
            result = fr.yielded if is_gen else None
        except _Return as r:
            result = fr.yielded if is_gen else r.v
        except PyRaise as e:
            raised = e
        if raised is None and type(result).__name__ == "Unpickled" and c.returns is not None:
            from .externals import resolve_unpickled
            result = resolve_unpickled(self, result, c.returns)
        if raised is None and isinstance(result, SV) and isinstance(result.ty, TOpt) and c.returns == result.ty.elem:
            so = sort(result.ty)
            self.oblige("result_not_none", so.is_some(result.t), node.lineno, "the function returns None")
            result = SV(so.val(result.t), c.returns)
        # ghost frame: a ghost variable the contract does not list under modifies_ghost is unchanged on every exit
        entry_ghost = self.old_stack[-1][2]
        for g in sorted(self.ghostv):
            if g in c.modifies_ghost:
                continue
            if not z3.eq(self.ghostv[g].t, entry_ghost[g].t):
                self.oblige("ghost_frame[%s]" % g, self.ghostv[g].t == entry_ghost[g].t, node.lineno,
                            "ghost variable %s changes but is not listed under modifies_ghost" % g)
        # in postconditions parameter names denote the values at entry (references), read in the final heap
        env = dict(fr.env)
        env.update(self.entry_env)
        if raised is None:
            env["result"] = result
            # conditions under which the contract demands an exception
            for exc, cond in c.raises.items():
                if isinstance(cond, dict) and cond.get("iff"):
                    self.oblige("must_raise[%s]" % exc, z3.Not(self.spec_bool(cond["when"], env, old=True)),
                                node.lineno, "normal return although the contract demands " + exc)
            for i, e in enumerate(c.ensures):
                self.oblige("post", self.spec_bool(e, env, old=True), node.lineno, e)
            for p_, st_ in c.becomes.items():
                from .builtins_ import matches
                self.oblige("typestate[%s]" % p_, z3.BoolVal(bool(matches(self, env.get(p_), TObj(st_)))), node.lineno,
                            "%s has the shape %s on return" % (p_, st_))
            if c.decreases is not None:
                pass
        else:
            allowed = None
            for exc, cond in c.raises.items():
                if exc_isa(raised.exc, exc):
                    allowed = cond
                    aname = exc
            if allowed is None:
                self.oblige("unexpected_raise[%s]" % raised.exc, False, raised.line,
                            "%s raised at line %d is not permitted by the contract" % (raised.exc, raised.line))
            else:
                when = allowed["when"] if isinstance(allowed, dict) else allowed
                self.oblige("raise_ok[%s]" % raised.exc, self.spec_bool(when, env, old=True), raised.line,
                            "%s raised at line %d outside the condition allowed by the contract" % (
                                raised.exc, raised.line))
                for e in c.raise_ensures.get(aname, []):
                    self.oblige("raise_post[%s]" % raised.exc, self.spec_bool(e, env, old=True), raised.line, e)

    def add_hint(self, lemma_name, exprs, env):
        """assume a ground instance of a (separately proved) lemma"""
        L = LEMMAS[lemma_name]
        terms = []
        for e, v in zip(exprs, L.vars):
            val = self.spec_eval(e, env) if isinstance(e, str) else e
            terms.append(self.to_sv(val).t if not isinstance(val, z3.ExprRef) else val)
        self.hinted = getattr(self, "hinted", set())
        self.hinted.add(lemma_name)
        self.lemmas_used.add(lemma_name)
        self.assume(z3.substitute(L.body, *list(zip(L.vars, terms))))

    # ------------------------------------------------------------------ spec expressions
    def spec_bool(self, src, env, old=False):
        v = self.spec_eval(src, env, old)
        return self.truth_term(v)

    def spec_eval(self, src, env, old=False):
        if callable(src):
            return src(self, env)
        node = ast.parse(src.strip(), mode="eval").body
        fr = Frame("<spec>", self.frames[-1].module if self.frames else None, None, None, dict(env))
        fr.key = self.frames[0].key if self.frames else "<spec>"
        self.frames.append(fr)
        self.spec_mode += 1
        try:
            return self.eval(node, fr)
        finally:
            self.spec_mode -= 1
            self.frames.pop()

    def truth_term(self, v):
        """python truthiness of a value as z3 Bool."""
        if isinstance(v, SV):
            if v.ty == TBool:
                return v.t
            if v.ty == TInt:
                return v.t != 0
            if v.ty == TBytes or isinstance(v.ty, TList) or v.ty == TStr:
                return z3.Length(v.t) > 0
            if isinstance(v.ty, TOpt):
                if v.ty.elem in (TBytes,) or isinstance(v.ty.elem, TList):
                    s = sort(v.ty)
                    return z3.And(s.is_some(v.t), z3.Length(s.val(v.t)) > 0)
                raise Unsupported("truthiness of optional %r" % (v.ty,))
            raise Unsupported("truthiness of %r" % (v.ty,))
        if isinstance(v, Ref):
            c = self.cell(v)
            if c[0] == "obj":
                cd = c[1]
                if "__len__" in getattr(cd, "methods_len", ()):
                    raise Unsupported("truthiness via __len__")
                return z3.BoolVal(True)
            if c[0] == "pylist":
                return z3.BoolVal(bool(c[1]))
            if c[0] in ("seq", "bytearray"):
                return z3.Length(c[1].t) > 0
            if c[0] == "dict":
                return z3.Length(self.dkeys(c[1])) > 0
            return z3.BoolVal(True)
        if isinstance(v, MaybeNone):
            return z3.Not(v.is_none)
        if isinstance(v, (Opaque, ClassRef, FuncRef, ExtRef, LambdaV, Bound)):
            return z3.BoolVal(True)
        return z3.BoolVal(bool(v))

    def truth(self, v):
        """python truth value on this path (forks if symbolic)."""
        return self.fork(self.truth_term(v))

    # ------------------------------------------------------------------ dict helpers
    def dkeys_fn(self, ty):
        return z3.Function("dkeys_" + _mangle_ty(ty), sort(ty), z3.SeqSort(sort(ty.key)))

    def dkeys(self, d):
        return self.dkeys_fn(d.ty)(d.t)

    # ------------------------------------------------------------------ statements
    def exec_block(self, stmts, fr):
        for s in stmts:
            self.exec_stmt(s, fr)

    def exec_stmt(self, s, fr):
        m = getattr(self, "st_" + type(s).__name__, None)
        if m is None:
            raise Unsupported("statement %s at %s:%d" % (type(s).__name__, fr.key, s.lineno))
        return m(s, fr)

    def st_Pass(self, s, fr):
        pass

    def st_Expr(self, s, fr):
        if isinstance(s.value, ast.Constant):
            return  # docstring
        self.eval(s.value, fr)

    def st_Return(self, s, fr):
        raise _Return(self.eval(s.value, fr) if s.value is not None else None)

    def st_Break(self, s, fr):
        raise _Break()

    def st_Continue(self, s, fr):
        raise _Continue()

    def st_Global(self, s, fr):
        pass

    def st_Import(self, s, fr):
        self.dropped.append("%s:%d local import" % (fr.key, s.lineno))
        for a in s.names:
            fr.env[(a.asname or a.name.split(".")[0])] = ExtRef(a.name.split(".")[0] if not a.asname else a.name)

    def st_ImportFrom(self, s, fr):
        self.dropped.append("%s:%d local import" % (fr.key, s.lineno))
        rel = fr.module._resolve_mod(s.module or "", s.level)
        for a in s.names:
            nm = a.asname or a.name
            if rel is None:
                fr.env[nm] = ExtRef((s.module or "") + "." + a.name)
            else:
                fr.env[nm] = self.resolve_module_name(self.repo.module(rel), a.name)

    def st_Assert(self, s, fr):
        v = self.eval(s.test, fr)
        if not self.truth(v):
            raise PyRaise("AssertionError", s.lineno)

    def st_Assign(self, s, fr):
        v = self.eval(s.value, fr)
        for t in s.targets:
            self.assign(t, v, fr)

    def st_AnnAssign(self, s, fr):
        if s.value is not None:
            self.assign(s.target, self.eval(s.value, fr), fr)

    def st_AugAssign(self, s, fr):
        load = copy.copy(s.target)
        load.ctx = ast.Load()
        cur = self.eval(load, fr)
        rhs = self.eval(s.value, fr)
        if isinstance(cur, Ref) and isinstance(s.op, ast.Add) and self.cell(cur)[0] in ("seq", "pylist"):
            self.call_method(cur, "extend", [rhs], {}, fr, s)
            return
        self.assign(s.target, self.binop(s.op, cur, rhs, s, fr), fr)

    def st_Delete(self, s, fr):
        for t in s.targets:
            if isinstance(t, ast.Subscript):
                base = self.eval(t.value, fr)
                idx = self.eval_index(t.slice, fr)
                self.del_subscript(base, idx, t, fr)
            elif isinstance(t, ast.Name):
                fr.env.pop(t.id, None)
            else:
                raise Unsupported("del target")

    def st_If(self, s, fr):
        if self.truth(self.eval(s.test, fr)):
            self.exec_block(s.body, fr)
        else:
            self.exec_block(s.orelse, fr)

    def st_Raise(self, s, fr):
        if s.exc is None:
            if getattr(fr, "current_exc", None) is not None:
                raise fr.current_exc
            raise Unsupported("bare raise outside handler")
        v = self.eval(s.exc, fr)
        if isinstance(v, ExcClass):
            raise PyRaise(v.name, s.lineno)
        if isinstance(v, ExcVal):
            raise PyRaise(v.name, s.lineno)
        raise Unsupported("raise of %r" % (v,))

    def st_Try(self, s, fr):
        names = []
        for h in s.handlers:
            if h.type is None:
                names.append("BaseException")
            else:
                ts = h.type.elts if isinstance(h.type, ast.Tuple) else [h.type]
                for t in ts:
                    names.append(self.exc_name(t, fr))
        fr.handlers.append(names)
        depth = len(fr.handlers)
        try:
            try:
                try:
                    self.exec_block(s.body, fr)
                finally:
                    del fr.handlers[depth - 1:]
            except PyRaise as e:
                for h in s.handlers:
                    hn = ["BaseException"] if h.type is None else [
                        self.exc_name(t, fr) for t in (h.type.elts if isinstance(h.type, ast.Tuple) else [h.type])]
                    if any(exc_isa(e.exc, n) for n in hn):
                        if h.name:
                            fr.env[h.name] = ExcVal(e.exc)
                        saved = getattr(fr, "current_exc", None)
                        fr.current_exc = e
                        try:
                            self.exec_block(h.body, fr)
                        finally:
                            fr.current_exc = saved
                        break
                else:
                    raise
            else:
                self.exec_block(s.orelse, fr)
        except (PyRaise, _Return, _Break, _Continue):
            self.exec_block(s.finalbody, fr)
            raise
        else:
            self.exec_block(s.finalbody, fr)

    def exc_name(self, t, fr):
        v = self.eval(t, fr)
        if isinstance(v, ExcClass):
            return v.name
        if isinstance(v, ExtRef):
            return v.name.split(".")[-1]
        raise Unsupported("exception class %r" % (v,))

    def catches(self, exc):
        for i, fr in enumerate(self.frames):
            if fr.contract is None and fr.key == "<spec>":
                continue
            for hs in fr.handlers:
                if any(exc_isa(exc, h) for h in hs):
                    return True
        c = self.frames[0].contract
        if c is not None:
            for e in c.raises:
                if exc_isa(exc, e):
                    return True
        return False

    def may_raise(self, exc, cond, line, what=""):
        """Builtin semantics: `exc` is raised iff cond.  If nothing up-stack handles or permits it, the
        absence of the exception becomes an obligation instead of a path."""
        if self.spec_mode:
            return
        if isinstance(cond, bool):
            cond = z3.BoolVal(cond)
        if self.catches(exc):
            if self.fork(cond):
                raise PyRaise(exc, line)
        else:
            self.oblige("no_%s" % exc, z3.Not(cond), line, what or ("%s possible at line %d" % (exc, line)))

    def st_With(self, s, fr):
        if len(s.items) != 1:
            raise Unsupported("multi-item with")
        it = s.items[0]
        cm = self.eval(it.context_expr, fr)
        if it.optional_vars is not None:
            self.assign(it.optional_vars, cm, fr)
        try:
            self.exec_block(s.body, fr)
        finally:
            if isinstance(cm, SV) and cm.ty == TFile:
                self.call_method(cm, "close", [], {}, fr, s)

    def st_FunctionDef(self, s, fr):
        fr.env[s.name] = LambdaV(s, fr.env)

    # -------- loops
    def modified_in(self, body, fr):
        names, cells = set(), set()

        def root(n):
            while isinstance(n, (ast.Subscript, ast.Attribute)):
                n = n.value
            return n.id if isinstance(n, ast.Name) else None

        def tgt(t):
            if isinstance(t, ast.Name):
                names.add(t.id)
            elif isinstance(t, (ast.Tuple, ast.List)):
                for e in t.elts:
                    tgt(e)
            elif isinstance(t, ast.Starred):
                tgt(t.value)
            else:
                r = root(t)
                if r:
                    cells.add(r)
        for st in body:
            for n in ast.walk(st):
                if isinstance(n, (ast.Assign,)):
                    for t in n.targets:
                        tgt(t)
                elif isinstance(n, (ast.AugAssign, ast.AnnAssign)):
                    tgt(n.target)
                    if isinstance(n, ast.AugAssign) and isinstance(n.target, ast.Name):
                        cells.add(n.target.id)
                elif isinstance(n, ast.For):
                    tgt(n.target)
                elif isinstance(n, ast.With):
                    for i in n.items:
                        if i.optional_vars is not None:
                            tgt(i.optional_vars)
                elif isinstance(n, ast.Delete):
                    for t in n.targets:
                        r = root(t)
                        if r:
                            cells.add(r)
                elif isinstance(n, ast.ExceptHandler) and n.name:
                    names.add(n.name)
                elif isinstance(n, ast.Call):
                    if isinstance(n.func, ast.Attribute) and n.func.attr in MUTATORS:
                        r = root(n.func.value)
                        if r:
                            cells.add(r)
                    if isinstance(n.func, ast.Name) and n.func.id == "next":
                        for a in n.args[:1]:
                            r = root(a)
                            if r:
                                cells.add(r)
                    # calls into code with a frame condition
                    fname = n.func.attr if isinstance(n.func, ast.Attribute) else (
                        n.func.id if isinstance(n.func, ast.Name) else None)
                    if fname and fname in MODIFYING_NAMES():
                        for a in list(n.args) + ([n.func.value] if isinstance(n.func, ast.Attribute) else []):
                            r = root(a)
                            if r:
                                cells.add(r)
                    elif fname and self.inlined_callee_mutates(n, fname, fr):
                        # a callee that is executed in place (no contract) and writes to the heap: what it may reach through its
                        # receiver and arguments is changed by the loop body
                        for a in list(n.args) + ([n.func.value] if isinstance(n.func, ast.Attribute) else []):
                            r = root(a)
                            if r:
                                cells.add(r)
        return names, cells

    def inlined_callee_mutates(self, call, fname, fr, _depth=0):
        """does `call` resolve to a repository function without contract (it would be executed in place) whose body -- or the
        body of such a function it calls -- stores into attributes / items or calls a mutating method?"""
        from .builtins_ import find_method
        key = None
        try:
            if isinstance(call.func, ast.Name):
                ent = getattr(fr.module, "names", {}).get(fname) if fr.module is not None else None
                if ent and ent[0] == "func":
                    key = "%s:%s" % (fr.module.rel, fname)
                elif ent and ent[0] == "from":
                    key = "%s:%s" % (ent[1], ent[2])
            elif isinstance(call.func, ast.Attribute):
                recv = call.func.value
                chain = recv
                while isinstance(chain, ast.Attribute):
                    chain = chain.value
                if isinstance(chain, ast.Name) and chain.id in fr.env:
                    v = fr.env[chain.id]
                    node_ = recv
                    path = []
                    while isinstance(node_, ast.Attribute):
                        path.append(node_.attr)
                        node_ = node_.value
                    for a in reversed(path):
                        if isinstance(v, Ref) and self.cell(v)[0] == "obj":
                            v = self.cell(v)[2].get(a)
                        else:
                            v = None
                            break
                    if isinstance(v, Ref) and self.cell(v)[0] == "obj":
                        key = find_method(self, self.cell(v)[1].key, fname)
            if key is None:
                return False
            if any(k == key or k.startswith(key + "#") for k in CONTRACTS) and key not in INLINE:
                return False
            fnode, mod, clsnode = self.repo.find(key)
        except Exception:
            return False
        return heap_mutating(self, fnode, mod, clsnode, 0)

    def havoc_value(self, name, v, tyhint=None):
        if tyhint is not None:
            return self.fresh_of(name, tyhint, assume_inv=False)
        if isinstance(v, SV):
            return self.fresh(name, v.ty)
        if isinstance(v, bool):
            return self.fresh(name, TBool)
        if isinstance(v, int):
            return self.fresh(name, TInt)
        if isinstance(v, (bytes, bytearray)):
            return self.fresh(name, TBytes)
        if isinstance(v, tuple):
            return tuple(self.havoc_value("%s.%d" % (name, i), x) for i, x in enumerate(v))
        if isinstance(v, Ref):
            c = self.cell(v)
            if c[0] == "obj":
                return self.alloc(("obj", c[1], {f: self.havoc_value(name + "." + f, x, c[1].fields.get(f))
                                                 for f, x in c[2].items()}))
            return self.alloc(self.havoc_cell(name, c))
        if v is None:
            raise Unsupported("havoc of None-valued variable %s: give loops[k]['types']" % name)
        return v

    def havoc_cell(self, name, c):
        if c[0] == "seq":
            return ("seq", self.fresh(name, c[1].ty))
        if c[0] == "pylist":
            sv = self.pylist_sv(c[1])
            return ("seq", self.fresh(name, sv.ty))
        if c[0] == "dict":
            return ("dict", self.fresh(name, c[1].ty))
        if c[0] == "bytearray":
            nb = self.fresh(name, TBytes)
            self.assume(z3.Length(nb.t) == z3.Length(c[1].t))
            return ("bytearray", nb)
        if c[0] == "iter":
            pos = self.fresh(name + ".pos", TInt)
            self.assume(pos.t >= 0)
            return ("iter", (c[1][0], pos.t) + tuple(c[1][2:]))
        if c[0] == "obj":
            return ("obj", c[1], {f: self.havoc_value(name + "." + f, x, c[1].fields.get(f)) for f, x in c[2].items()})
        if c[0] == "file":
            return self.havoc_file(name, c)
        raise Unsupported("havoc of %s cell" % c[0])

    def loop_spec(self, fr, node=None):
        """ordinal of a loop / comprehension = its position in the function's source (independent of the path taken)"""
        k = None
        fnode = getattr(fr, "fnode", None)
        if node is not None and fnode is not None:
            if getattr(fr, "loop_index", None) is None:
                fr.loop_index = {id(n): i for i, n in enumerate(loops_of(fnode))}
            k = fr.loop_index.get(id(node))
        if k is None:
            k = fr.loop_ord
        fr.loop_ord = max(fr.loop_ord, k) + 1
        c = fr.contract
        spec = (c.loops.get(k) if c else None)
        unroll = (c.unroll.get(k) if c else None)
        if spec is None and unroll is None and c is not None and c.frame_only:
            spec = {"invariant": [], "types": c.locals}
        if (spec is not None or unroll is not None) and node is not None and c is not None and c.body is None:
            # loop annotations are written for one particular loop: when its header no longer reads as it did when the
            # annotation was written (contracts/loop_headers.json, regenerated by bin/loop-headers on the unchanged tree),
            # the annotation is stale and the function is outside the verified subset -- undecided, never a violation
            base = LOOP_HEADERS().get(c.key, {}).get(str(k))
            if base is not None and base != loop_header(node):
                raise Unsupported("loop #%d of %s was annotated as `%s` and now reads `%s`: its invariants no longer apply" % (
                    k, c.key.split(":")[1], base, loop_header(node)))
        return k, spec, unroll

    def havoc_loop(self, body, fr, spec, extra_names=()):
        names, cells = self.modified_in(body, fr)
        names |= set(extra_names)
        types = (spec or {}).get("types", {})
        for n in sorted(cells):
            v = fr.env.get(n)
            if isinstance(v, Ref) and n not in names:
                self.setcell(v, self.havoc_cell(n, self.cell(v)))
        for n in sorted(names):
            if n in fr.env:
                fr.env[n] = self.havoc_value(n, fr.env[n], types.get(n))
            elif n in types:
                fr.env[n] = self.havoc_value(n, None, types[n])
        if fr.yielded is not None:
            self.setcell(fr.yielded, self.havoc_cell("result", self.cell(fr.yielded)))
        for g in sorted(self.ghost_touched(body)):
            if g in self.ghostv:
                self.havoc_ghost(g)

    def havoc_ghost(self, g):
        before = self.ghostv[g]
        self.ghostv[g] = self.fresh("ghost_" + g, before.ty)
        if g in MONOTONE:
            self.assume(self.ghostv[g].t >= before.t)

    def ghost_touched(self, body, _seen=frozenset()):
        """ghost variables a loop body may change: through file operations, effect handlers, or callees whose
        contract lists them under modifies_ghost (matched by method name: an over-approximation)"""
        if not self.ghostv:
            return set()
        from .files import OP_TOUCHES
        by_name = {}
        for k, c in CONTRACTS.items():
            if c.modifies_ghost:
                by_name.setdefault(k.split(":")[1].split(".")[-1].split("#")[0], set()).update(c.modifies_ghost)
        for k in EFFECTS:
            by_name.setdefault(k.split(":")[1].split(".")[-1], set()).update(GHOSTS)
        by_name.setdefault("urandom", set()).add("rng_n")
        by_name.setdefault("sample", set()).add("sample0")
        inl = {}
        for k in INLINE:
            inl.setdefault(k.split(":")[1].split(".")[-1], []).append(k)
        out = set()
        for st in body:
            for n in ast.walk(st):
                names = []
                if isinstance(n, ast.Call):
                    names.append(n.func.attr if isinstance(n.func, ast.Attribute) else (
                        n.func.id if isinstance(n.func, ast.Name) else None))
                    for k in inl.get(names[-1], ()):
                        if k not in _seen:
                            try:
                                out.update(self.ghost_touched(self.repo.find(k)[0].body, _seen | {k}))
                            except Exception:
                                out.update(GHOSTS)
                    if names[-1] in ("iter", "list", "tuple"):
                        names.append("__iter__")
                elif isinstance(n, ast.Subscript):
                    names.append({"Load": "__getitem__", "Store": "__setitem__", "Del": "__delitem__"}[type(n.ctx).__name__])
                elif isinstance(n, (ast.For, ast.comprehension)):
                    names.append("__iter__")
                for nm in names:
                    if nm in OP_TOUCHES:
                        out.update(OP_TOUCHES[nm])
                    out.update(by_name.get(nm, ()))
        return out

    def check_invs(self, kind, spec, fr, extra, line):
        env = dict(fr.env)
        env.update(extra)
        for inv in spec.get("invariant", []):
            self.generalised = None
            goal = self.spec_bool(inv, env, old=True)
            gen, self.generalised = self.generalised, None
            self.oblige(kind, goal, line, inv if isinstance(inv, str) else getattr(inv, "__name__", "clause"))
            if gen is not None:
                # a clause proved for one fresh (unconstrained) value of its bound variable holds for every value: the clause
                # hands over the quantified statement, which later clauses of the same check may use
                self.assume(gen)

    def assume_invs(self, spec, fr, extra):
        env = dict(fr.env)
        env.update(extra)
        self.spec_role = "assume"
        try:
            for inv in spec.get("invariant", []):
                self.assume(self.spec_bool(inv, env, old=True))
        finally:
            self.spec_role = "prove"
        for (ln, exprs) in spec.get("hints", []):
            self.add_hint(ln, exprs, env)

    def st_While(self, s, fr):
        k, spec, unroll = self.loop_spec(fr, s)
        if s.orelse:
            raise Unsupported("while-else")
        if spec is None:
            # unrolling (complete only with the unwinding assertion)
            bound = unroll if unroll is not None else 64
            for i in range(bound + 1):
                if not self.truth(self.eval(s.test, fr)):
                    return
                if i == bound:
                    self.oblige("unwind[%d]" % k, False, s.lineno, "loop %d needs more than %d iterations" % (k, bound))
                    raise PathEnd()
                try:
                    self.exec_block(s.body, fr)
                except _Break:
                    return
                except _Continue:
                    continue
            return
        self.check_invs("inv_init[%d]" % k, spec, fr, {"it": 0}, s.lineno)
        self.havoc_loop(s.body, fr, spec)
        it = self.fresh("it", TInt)
        self.assume(it.t >= 0)
        self.assume_invs(spec, fr, {"it": it})
        variant0 = None
        if "variant" in spec:
            e = dict(fr.env)
            e["it"] = it
            variant0 = z3_int(self.spec_eval(spec["variant"], e, old=True))
        if self.truth(self.eval(s.test, fr)):
            try:
                self.exec_block(s.body, fr)
            except _Break:
                return
            except _Continue:
                pass
            self.check_invs("inv_preserved[%d]" % k, spec, fr, {"it": SV(it.t + 1, TInt)}, s.lineno)
            if variant0 is not None:
                e = dict(fr.env)
                e["it"] = SV(it.t + 1, TInt)
                v1 = z3_int(self.spec_eval(spec["variant"], e, old=True))
                self.oblige("variant[%d]" % k, z3.And(variant0 >= 0, v1 < variant0), s.lineno, "termination measure")
            raise PathEnd()
        for nm in spec.get("export_it", []):
            fr.env[nm] = it
        e = dict(fr.env)
        e["it"] = it
        for (ln, exprs) in spec.get("exit_hints", []):
            self.add_hint(ln, exprs, e)

    def iter_desc(self, v, fr, node):
        """value -> IterDesc"""
        if isinstance(v, RangeV):
            st, sp, stp = v.start, v.stop, v.step
            if all(isinstance(x, int) for x in (st, sp, stp)):
                r = range(st, sp, stp)
                return IterDesc(len(r), lambda k: (r[k] if isinstance(k, int) else SV(st + z3_int(k) * stp, TInt)))
            a, b, c = z3_int(st), z3_int(sp), z3_int(stp)
            if isinstance(stp, int) and stp > 0:
                n = z3.If(b > a, (b - a + (stp - 1)) / stp, 0) if stp != 1 else z3.If(b > a, b - a, 0)
            elif isinstance(stp, int) and stp < 0:
                q = -stp
                n = z3.If(a > b, (a - b + (q - 1)) / q, 0) if q != 1 else z3.If(a > b, a - b, 0)
            else:
                # symbolic step: either sign (zero raises ValueError); the two signs are separate paths
                self.may_raise("ValueError", c == 0, node.lineno, "range() step may be zero")
                positive = self.fork(c > 0)
                cache = {}

                def getk(k):
                    # name the k-th value by a fresh constant so that the product k*c occurs once
                    if isinstance(k, int):
                        return SV(z3.simplify(a + k * c), TInt)
                    kt = z3.simplify(z3_int(k))
                    key = kt.get_id()
                    if key not in cache:
                        v = self.fresh("rng", TInt)
                        self.assume(v.t == a + kt * c)
                        cache[key] = v
                    return cache[key]
                return IterDesc(None, getk, has=(lambda k: getk(k).t < b) if positive else (lambda k: getk(k).t > b))
            return IterDesc(z3.simplify(n), lambda k: SV(z3.simplify(a + z3_int(k) * c), TInt))
        if isinstance(v, (bytes, bytearray)):
            return IterDesc(len(v), lambda k: v[k] if isinstance(k, int) else SV(
                z3.BV2Int(lift(bytes(v)).t[z3_int(k)]), TInt))
        if isinstance(v, (tuple, list)):
            return self._conc_iter(list(v))
        if isinstance(v, SV):
            if v.ty == TBytes:
                return IterDesc(z3.Length(v.t), lambda k: SV(z3.BV2Int(v.t[z3_int(k)]), TInt))
            if isinstance(v.ty, TList):
                dd = IterDesc(z3.Length(v.t), lambda k: self.unbox(SV(v.t[z3_int(k)], v.ty.elem)))
                dd.seq = v      # loop invariants may name the iterated list as `_items`
                return dd
            if isinstance(v.ty, TDict):
                from . import speclib
                ks = self.dkeys(v)
                s = sort(TOpt(v.ty.val))
                kp = speclib.dkpos_fn(v.ty)
                return IterDesc(z3.Length(ks), lambda k: self.unbox(SV(ks[z3_int(k)], v.ty.key)),
                                lambda k: [z3.Not(s.is_none(z3.Select(v.t, ks[z3_int(k)]))),
                                           kp(v.t, ks[z3_int(k)]) == z3_int(k)])
        if isinstance(v, Ref):
            c = self.cell(v)
            if c[0] == "pylist":
                return self._conc_iter(list(c[1]))
            if c[0] == "seq":
                return self.iter_desc(c[1], fr, node)
            if c[0] == "dict":
                return self.iter_desc(c[1], fr, node)
            if c[0] == "bytearray":
                return self.iter_desc(c[1], fr, node)
            if c[0] == "enumerate":
                inner, start = c[1]
                d = self.iter_desc(inner, fr, node)
                return IterDesc(d.length, lambda k: ((start + k) if isinstance(k, int) and isinstance(start, int)
                                                     else SV(z3_int(start) + z3_int(k), TInt), d.get(k)), d.facts)
            if c[0] == "reversed":
                d = self.iter_desc(c[1], fr, node)
                if isinstance(d.length, int):
                    return IterDesc(d.length, lambda k: d.get(d.length - 1 - k) if isinstance(k, int) else d.get(
                        SV(d.length - 1 - z3_int(k), TInt)))
                return IterDesc(d.length, lambda k: d.get(SV(d.length - 1 - z3_int(k), TInt)))
            if c[0] == "iter":
                src, pos = c[1][0], c[1][1]
                ff = c[1][2] if len(c[1]) > 2 else None
                return IterDesc(z3.Length(src.t) - pos, lambda k: self.unbox(SV(src.t[pos + z3_int(k)], src.ty.elem)),
                                (lambda k: ff(pos + z3_int(k))) if ff else None)
            if c[0] == "zip":
                ds = [self.iter_desc(x, fr, node) for x in c[1]]
                if all(isinstance(d.length, int) for d in ds):
                    n = min(d.length for d in ds)
                else:
                    n = z3_int(ds[0].length)
                    for d in ds[1:]:
                        n = z3.If(z3_int(d.length) < n, z3_int(d.length), n)
                return IterDesc(n, lambda k: tuple(d.get(k) for d in ds))
            if c[0] in ("dictitems", "dictvalues"):
                from . import speclib
                dv = c[1]
                ks = self.dkeys(dv)
                s_ = sort(TOpt(dv.ty.val))
                kp = speclib.dkpos_fn(dv.ty)
                facts = lambda k: [z3.Not(s_.is_none(z3.Select(dv.t, ks[z3_int(k)]))), kp(dv.t, ks[z3_int(k)]) == z3_int(k)]
                val = lambda k: self.unbox(SV(s_.val(z3.Select(dv.t, ks[z3_int(k)])), dv.ty.val))
                if c[0] == "dictvalues":
                    return IterDesc(z3.Length(ks), val, facts)
                return IterDesc(z3.Length(ks), lambda k: (self.unbox(SV(ks[z3_int(k)], dv.ty.key)), val(k)), facts)
            if c[0] == "obj":
                return self.obj_iter(v, fr, node)
        raise Unsupported("cannot iterate %r at line %d" % (v, getattr(node, "lineno", 0)))

    def _conc_iter(self, items):
        def get(k):
            if isinstance(k, int):
                return items[k]
            sv = self.pylist_sv(items)
            return self.unbox(SV(sv.t[z3_int(k)], sv.ty.elem))
        return IterDesc(len(items), get)

    def obj_iter(self, v, fr, node):
        r = self.call_method(v, "__iter__", [], {}, fr, node)
        return self.iter_desc(r, fr, node)

    def unbox(self, sv):
        """SV of tuple type -> python tuple of SVs (one level); option stays boxed."""
        if isinstance(sv.ty, TTuple):
            s = sort(sv.ty)
            return tuple(self.unbox(SV(z3.simplify(s.accessor(0, i)(sv.t)), e)) for i, e in enumerate(sv.ty.elems))
        return sv

    def st_For(self, s, fr):
        k, spec, unroll = self.loop_spec(fr, s)
        if s.orelse:
            raise Unsupported("for-else")
        itv = self.eval(s.iter, fr)
        d = self.iter_desc(itv, fr, s)
        n = d.length
        if isinstance(n, z3.ExprRef):
            ns = z3.simplify(n)
            if z3.is_int_value(ns):
                n = ns.as_long()
        if isinstance(n, int) and spec is None:
            if n > 300:
                raise Unsupported("unrolling %d iterations" % n)
            for i in range(n):
                self.assign(s.target, d.get(i), fr)
                try:
                    self.exec_block(s.body, fr)
                except _Break:
                    break
                except _Continue:
                    continue
            return
        if spec is None:
            if unroll is not None:
                for i in range(unroll + 1):
                    if not self.fork(z3_int(n) > i if n is not None else d.has(z3.IntVal(i))):
                        return
                    if i == unroll:
                        self.oblige("unwind[%d]" % k, False, s.lineno, "loop %d needs more than %d iterations" % (k, unroll))
                        raise PathEnd()
                    self.assign(s.target, d.get(i), fr)
                    try:
                        self.exec_block(s.body, fr)
                    except _Break:
                        return
                    except _Continue:
                        continue
                return
            raise Unsupported("loop %d of %s (line %d) has symbolic length and no invariant" % (k, fr.key, s.lineno))
        nt = z3_int(n) if n is not None else None
        tnames = [x.id for x in ast.walk(s.target) if isinstance(x, ast.Name)]

        def head_env(itval):
            e = {"it": itval}
            if nt is not None:
                e["n_iter"] = SV(nt, TInt)
            if isinstance(itv, RangeV) and isinstance(s.target, ast.Name):
                e[s.target.id] = d.get(itval)
            if getattr(d, "seq", None) is not None:
                e["_items"] = d.seq
            return e
        self.check_invs("inv_init[%d]" % k, spec, fr, head_env(0), s.lineno)
        self.havoc_loop(s.body, fr, spec, extra_names=())
        it = self.fresh("it", TInt)
        if nt is not None:
            self.assume(z3.And(it.t >= 0, it.t <= nt))
            more = it.t < nt
        else:
            self.assume(z3.And(it.t >= 0, z3.Or(it.t == 0, d.has(it.t - 1))))
            more = d.has(it.t)
        self.assume_invs(spec, fr, head_env(it))
        if self.fork(more):
            for f in d.facts(it):
                self.assume(f)
            self.assign(s.target, d.get(it), fr)
            fr.env["_it%d" % k] = it
            try:
                self.exec_block(s.body, fr)
            except _Break:
                return
            except _Continue:
                pass
            self.check_invs("inv_preserved[%d]" % k, spec, fr, head_env(SV(it.t + 1, TInt)), s.lineno)
            raise PathEnd()
        # exit: it == n ; loop variable keeps its last value (not modelled unless n>0) -> remove binding
        for t in tnames:
            fr.env.pop(t, None)
        e = dict(fr.env)
        e.update(head_env(it))
        for (ln, exprs) in spec.get("exit_hints", []):
            self.add_hint(ln, exprs, e)

    # ------------------------------------------------------------------ assignment
    def assign(self, target, v, fr):
        from .externals import Unpickled, resolve_unpickled
        if isinstance(v, NoneRepeat):
            fty = None
            if isinstance(target, ast.Attribute):
                obj = self.eval(target.value, fr)
                if isinstance(obj, Ref) and self.cell(obj)[0] == "obj":
                    fty = self.cell(obj)[1].fields.get(self.mangle(target.attr, fr))
            elif isinstance(target, ast.Name) and fr.contract is not None:
                fty = fr.contract.locals.get(target.id)     # a local whose type the contract declares
            if not (isinstance(fty, TList) and isinstance(fty.elem, TOpt)):
                raise Unsupported("[None] * n stored where no list-of-optional type is declared")
            sv = self.fresh("nones", fty)
            so = sort(fty.elem)
            j = z3.Int("nj")
            self.assume(z3.Length(sv.t) == z3.If(v.n < 0, 0, v.n))
            self.assume(z3.ForAll([j], z3.Implies(z3.And(0 <= j, j < z3.Length(sv.t)), sv.t[j] == so.none),
                                  patterns=[nth_pat(sv.t, j)]))
            v = self.new_symlist(sv)
        if isinstance(v, Unpickled) and isinstance(target, ast.Attribute):
            obj = self.eval(target.value, fr)
            fty = None
            if isinstance(obj, Ref) and self.cell(obj)[0] == "obj":
                fty = self.cell(obj)[1].fields.get(self.mangle(target.attr, fr))
            if fty is None or fty == TAny:
                raise Unsupported("pickle.load result stored in a field without a declared type")
            self.set_attr(obj, self.mangle(target.attr, fr), resolve_unpickled(self, v, fty), fr, target)
            return
        if isinstance(v, Unpickled):
            c = fr.contract
            names = [target.id] if isinstance(target, ast.Name) else [
                t.id for t in getattr(target, "elts", []) if isinstance(t, ast.Name)]
            if c is None or not names or any(n not in c.locals for n in names):
                raise Unsupported("pickle.loads result needs declared local types (%s)" % names)
            ty = c.locals[names[0]] if isinstance(target, ast.Name) else TTuple(*[c.locals[n] for n in names])
            v = resolve_unpickled(self, v, ty)
        if isinstance(target, ast.Name):
            c = fr.contract
            if c is not None and target.id in c.locals and isinstance(v, Ref):
                ty = c.locals[target.id]
                cell = self.cell(v)
                if cell[0] == "pylist" and isinstance(ty, TList):
                    self.setcell(v, ("seq", self.pylist_sv(cell[1], ty.elem)))
                elif cell[0] == "pydict" and isinstance(ty, TDict) and not cell[1]:
                    from . import speclib
                    self.setcell(v, ("dict", speclib.empty_dict(self, ty)))
            fr.env[target.id] = v
        elif isinstance(target, (ast.Tuple, ast.List)):
            items = self.unpack(v, len(target.elts), target, fr)
            for t, x in zip(target.elts, items):
                self.assign(t, x, fr)
        elif isinstance(target, ast.Attribute):
            obj = self.eval(target.value, fr)
            self.set_attr(obj, self.mangle(target.attr, fr), v, fr, target)
        elif isinstance(target, ast.Subscript):
            base = self.eval(target.value, fr)
            idx = self.eval_index(target.slice, fr)
            self.set_subscript(base, idx, v, target, fr)
        else:
            raise Unsupported("assignment target %s" % type(target).__name__)

    def unpack(self, v, n, node, fr):
        if isinstance(v, tuple):
            if len(v) != n:
                raise PyRaise("ValueError", node.lineno)
            return list(v)
        if isinstance(v, SV) and isinstance(v.ty, TTuple):
            return list(self.unbox(v))
        if isinstance(v, Ref) or (isinstance(v, SV) and isinstance(v.ty, TList)):
            d = self.iter_desc(v, fr, node)
            if isinstance(d.length, int):
                if d.length != n:
                    raise PyRaise("ValueError", node.lineno)
            else:
                self.may_raise("ValueError", d.length != n, node.lineno, "unpacking needs exactly %d values" % n)
            return [d.get(i) for i in range(n)]
        raise Unsupported("unpack %r" % (v,))

    def mangle(self, attr, fr, obj=None):
        if attr.startswith("__") and not attr.endswith("__"):
            cand = None
            for f in reversed(self.frames):
                if f.clsnode is not None:
                    cand = "_%s%s" % (f.clsnode.name.lstrip("_"), attr)
                    break
            # specifications (and ghost client code) may name private fields of another object directly
            if isinstance(obj, Ref) and self.cell(obj)[0] == "obj" and (cand is None or self.spec_mode):
                fields = self.cell(obj)[2]
                if cand is not None and cand in fields:
                    return cand
                for f in fields:
                    if f.endswith(attr) and f.startswith("_") and f[1:-len(attr)].isidentifier():
                        return f
            if cand is not None:
                return cand
        return attr

    def set_attr(self, obj, attr, v, fr, node):
        if isinstance(obj, Ref) and self.cell(obj)[0] == "obj":
            kind, cd, fields = self.cell(obj)
            if self.is_borrowed(obj):
                from .builtins_ import declared_fields, infer_attr_type
                if attr not in declared_fields(cd) and infer_attr_type(self, cd.key, attr) is not None:
                    # private state of simple immutable type that no contract mentions: reads of it are arbitrary
                    # values, so writing it breaks nothing a caller may rely on -- not a frame violation
                    self.dropped.append("undeclared field %s.%s written (private state, read back as arbitrary)" % (cd.name, attr))
                else:
                    self.frame_violation(obj, node, "attribute %s" % attr)
            nf = dict(fields)
            nf[attr] = v
            self.setcell(obj, ("obj", cd, nf))
            return
        raise Unsupported("attribute store on %r" % (obj,))

    def is_borrowed(self, ref):
        """a heap cell that existed when the verified function was entered and is not in its `modifies` frame"""
        if self.spec_mode or not hasattr(self, "entry_heap"):
            return False
        if ref.cid not in self.entry_heap:
            return False
        return ref.cid not in getattr(self, "frame_ok", set())

    def frame_violation(self, ref, node, what):
        self.oblige("frame", False, getattr(node, "lineno", 0),
                    "%s mutates an object that belongs to the caller (reachable from a parameter)" % what)

    # ------------------------------------------------------------------ expressions
    def eval(self, e, fr):
        m = getattr(self, "ex_" + type(e).__name__, None)
        if m is None:
            raise Unsupported("expression %s at %s:%d" % (type(e).__name__, fr.key, getattr(e, "lineno", 0)))
        return m(e, fr)

    def ex_Constant(self, e, fr):
        if isinstance(e.value, float):
            raise Unsupported("float constant")
        return e.value

    def ex_JoinedStr(self, e, fr):
        """f-strings built from literals and plain names/attributes of str or int type are real strings (file names);
        anything else (messages) is opaque"""
        parts = []
        for v in e.values:
            if isinstance(v, ast.Constant) and isinstance(v.value, str):
                parts.append(z3.StringVal(v.value))
                continue
            if not (isinstance(v, ast.FormattedValue) and v.conversion == -1 and v.format_spec is None
                    and isinstance(v.value, ast.Name) and v.value.id in fr.env):
                return Opaque("fstring")
            x = fr.env[v.value.id]
            if isinstance(x, str):
                parts.append(z3.StringVal(x))
            elif isinstance(x, bool):
                return Opaque("fstring")
            elif isinstance(x, int):
                parts.append(z3.StringVal(str(x)))
            elif isinstance(x, SV) and x.ty == TStr:
                parts.append(x.t)
            elif isinstance(x, SV) and x.ty == TInt:
                parts.append(z3.If(x.t < 0, z3.Concat(z3.StringVal("-"), z3.IntToStr(-x.t)), z3.IntToStr(x.t)))
            else:
                return Opaque("fstring")
        if not parts:
            return ""
        t = parts[0] if len(parts) == 1 else z3.Concat(*parts)
        t = z3.simplify(t)
        if z3.is_string_value(t):
            return t.as_string()
        return SV(t, TStr)

    def ex_Name(self, e, fr):
        n = e.id
        if n in fr.env:
            return fr.env[n]
        if self.spec_mode or (self.frames and self.frames[0].contract is not None and self.frames[0].contract.body is not None):
            if n in self.ghostv:
                return self.ghostv[n]
            if n in SPEC:
                return SPEC[n]
            if n in CONSTS:
                return CONSTS[n]
        if fr.module is not None and n in getattr(fr.module, "names", {}):
            return self.resolve_module_name(fr.module, n)
        if n in BUILTIN_NAMES:
            return ExtRef("builtins." + n)
        if n in EXC_BASES:
            return ExcClass(n)
        if n in ("True", "False", "None"):
            return {"True": True, "False": False, "None": None}[n]
        if not self.spec_mode:
            for f in reversed(self.frames[:-1]):
                pass
        raise Unsupported("unknown name %s in %s" % (n, fr.key))

    def resolve_module_name(self, mod, n):
        kind, a, b = mod.names[n]
        if kind == "func":
            return FuncRef("%s:%s" % (mod.rel, n))
        if kind == "class":
            return ClassRef("%s:%s" % (mod.rel, n))
        if kind == "assign":
            try:
                lit = ast.literal_eval(a)
                if isinstance(lit, (dict, list, set)):
                    # a module-level table: its literal contents are what a function sees only if nothing in the module ever
                    # changes it; a module-level cache (mutated somewhere) holds arbitrary contents at entry, which the
                    # engine does not model => outside the verified subset (undecided, never "holds its initial contents")
                    why = module_mutates(mod, n)
                    if why:
                        raise Unsupported("module-level mutable state %s.%s (%s)" % (mod.rel, n, why))
                if isinstance(lit, dict):
                    return self.alloc(("pydict", dict(lit)))
                if isinstance(lit, list):
                    return self.alloc(("pylist", list(lit)))
                return lit
            except Unsupported:
                raise
            except Exception:
                pass
            fr = Frame(mod.rel + ":<module>", mod, None, None, {})
            self.frames.append(fr)
            try:
                return self.eval(a, fr)
            finally:
                self.frames.pop()
        if kind == "from":
            m2 = self.repo.module(a)
            if b in m2.names:
                return self.resolve_module_name(m2, b)
            raise Unsupported("name %s not found in %s" % (b, a))
        if kind == "module":
            return ("module", a) if a else ExtRef(b)
        if kind == "modroot":
            return ("modroot", a)
        if kind == "ext":
            return ExtRef(a)
        raise Unsupported("module name kind " + kind)

    def ex_Tuple(self, e, fr):
        return tuple(self.eval(x, fr) for x in e.elts)

    def ex_List(self, e, fr):
        return self.new_list([self.eval(x, fr) for x in e.elts])

    def ex_Set(self, e, fr):
        return frozenset(self.eval(x, fr) for x in e.elts)

    def ex_Dict(self, e, fr):
        if not e.keys:
            return self.alloc(("pydict", {}))
        return self.alloc(("pydict", {self.eval(k, fr): self.eval(v, fr) for k, v in zip(e.keys, e.values)}))

    def ex_Lambda(self, e, fr):
        return LambdaV(e, fr.env)

    def ex_IfExp(self, e, fr):
        c = self.eval(e.test, fr)
        if self.spec_mode:
            ct = z3.simplify(self.truth_term(c))
            if z3.is_true(ct):
                return self.eval(e.body, fr)
            if z3.is_false(ct):
                return self.eval(e.orelse, fr)
            a, b = self.eval(e.body, fr), self.eval(e.orelse, fr)
            sa = self.to_sv(a)
            sb = self.to_sv(b, sa.ty)
            return SV(z3.If(ct, sa.t, sb.t), sa.ty)
        if self.truth(c):
            return self.eval(e.body, fr)
        return self.eval(e.orelse, fr)

    def ex_BoolOp(self, e, fr):
        if self.spec_mode:
            ts = [self.truth_term(self.eval(v, fr)) for v in e.values]
            return SV(z3.And(*ts) if isinstance(e.op, ast.And) else z3.Or(*ts), TBool)
        v = None
        for sub in e.values:
            v = self.eval(sub, fr)
            t = self.truth(v)
            if isinstance(e.op, ast.And) and not t:
                return v
            if isinstance(e.op, ast.Or) and t:
                return v
        return v

    def ex_UnaryOp(self, e, fr):
        v = self.eval(e.operand, fr)
        if isinstance(e.op, ast.Not):
            if is_conc(v) and not isinstance(v, Ref):
                return not v
            return SV(z3.Not(self.truth_term(v)), TBool)
        if isinstance(e.op, ast.USub):
            if isinstance(v, int):
                return -v
            return SV(-z3_int(v), TInt)
        if isinstance(e.op, ast.Invert):
            if isinstance(v, int):
                return ~v
            if is_intlike(v):
                return SV(-z3_int(v) - 1, TInt)
            if isinstance(v, Ref):
                return self.call_method(v, "__invert__", [], {}, fr, e)
        if isinstance(e.op, ast.UAdd):
            return v
        raise Unsupported("unary op")

    def ex_BinOp(self, e, fr):
        return self.binop(e.op, self.eval(e.left, fr), self.eval(e.right, fr), e, fr)

    def ex_Compare(self, e, fr):
        left = self.eval(e.left, fr)
        res = None
        for op, rn in zip(e.ops, e.comparators):
            right = self.eval(rn, fr)
            r = self.compare(op, left, right, e, fr)
            if res is None:
                res = r
            else:
                if is_conc(res) and is_conc(r):
                    res = res and r
                else:
                    res = SV(z3.And(self.truth_term(res), self.truth_term(r)), TBool)
            left = right
        return res

    def ex_Attribute(self, e, fr):
        obj = self.eval(e.value, fr)
        return self.get_attr(obj, self.mangle(e.attr, fr, obj), fr, e)

    def ex_Subscript(self, e, fr):
        base = self.eval(e.value, fr)
        idx = self.eval_index(e.slice, fr)
        return self.get_subscript(base, idx, e, fr)

    def eval_index(self, s, fr):
        if isinstance(s, ast.Slice):
            return ("slice", self.eval(s.lower, fr) if s.lower else None,
                    self.eval(s.upper, fr) if s.upper else None, self.eval(s.step, fr) if s.step else None)
        return self.eval(s, fr)

    def ex_Call(self, e, fr):
        from . import builtins_ as B
        return B.call(self, e, fr)

    def ex_ListComp(self, e, fr):
        from . import builtins_ as B
        return B.comprehension(self, e, fr, "list")

    def ex_GeneratorExp(self, e, fr):
        from . import builtins_ as B
        return B.comprehension(self, e, fr, "gen")

    def ex_SetComp(self, e, fr):
        from . import builtins_ as B
        return B.comprehension(self, e, fr, "set")

    def ex_DictComp(self, e, fr):
        from . import builtins_ as B
        return B.comprehension(self, e, fr, "dict")

    def ex_Yield(self, e, fr):
        v = self.eval(e.value, fr)
        top = fr
        if top.yielded is None:
            raise Unsupported("yield outside a generator under contract")
        self.call_method(top.yielded, "append", [v], {}, fr, e)
        return None

    def ex_Starred(self, e, fr):
        raise Unsupported("starred expression")

    def ex_Await(self, e, fr):
        return self.eval(e.value, fr)

    # ---- operators
    def binop(self, op, a, b, node, fr):
        from . import builtins_ as B
        return B.binop(self, op, a, b, node, fr)

    def compare(self, op, a, b, node, fr):
        from . import builtins_ as B
        return B.compare(self, op, a, b, node, fr)

    def get_attr(self, obj, attr, fr, node):
        from . import builtins_ as B
        return B.get_attr(self, obj, attr, fr, node)

    def get_subscript(self, base, idx, node, fr):
        from . import builtins_ as B
        return B.get_subscript(self, base, idx, node, fr)

    def set_subscript(self, base, idx, v, node, fr):
        from . import builtins_ as B
        return B.set_subscript(self, base, idx, v, node, fr)

    def del_subscript(self, base, idx, node, fr):
        from . import builtins_ as B
        return B.del_subscript(self, base, idx, node, fr)

    def call_method(self, recv, name, args, kwargs, fr, node):
        from . import builtins_ as B
        return B.call_method(self, recv, name, args, kwargs, fr, node)


def _mangle_ty(ty):
    return repr(ty).replace("[", "_").replace("]", "").replace(",", "_")


_MODNAMES = [None]


def MODIFYING_NAMES():
    if _MODNAMES[0] is None or _MODNAMES[0][0] != len(CONTRACTS):
        s = set()
        for k, c in CONTRACTS.items():
            if c.modifies:
                s.add(k.split(":")[1].split(".")[-1])
        _MODNAMES[0] = (len(CONTRACTS), s)
    return _MODNAMES[0][1]


BUILTIN_NAMES = {"len", "range", "int", "bytes", "bool", "isinstance", "max", "min", "sum", "enumerate", "reversed",
                 "list", "dict", "set", "iter", "next", "bytearray", "divmod", "abs", "sorted", "zip", "hasattr",
                 "getattr", "str", "tuple", "all", "any", "print", "open", "super", "type", "slice", "id", "repr",
                 "setattr", "frozenset", "callable", "object"}
