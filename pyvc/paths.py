"""pathlib on top of the ghost file system (pyvc/files.py) -- assumption D2, extended by directories.

A `pathlib.Path` value is kept at the engine level as the list of its components (strings or symbolic strings), so that the
parent of a path is known without string reasoning; towards the file system it is the string "a/b/c".  Directories live in the
ghost map `dirs: str -> 1`.  Modelled: Path(x), Path.home(), joinpath, exists, mkdir(parents, exist_ok), read_bytes, unlink
(missing_ok), open(path, "rb" | "wb" | "xb"), os.replace.  Creating a file (modes w, x) needs the parent directory
(FileNotFoundError otherwise) whenever the path is a Path value and the `dirs` ghost is installed.  Not modelled (=> the function
leaves the verified subset): text mode, read_text / write_text, rmtree, iterdir, symbolic links, permissions.
"""
import z3
from .ty import *
from .engine import SV, Unsupported, PyRaise
from .registry import ghost_var, CONSTS, GHOSTS
from . import files

HOME = z3.String("home_dir")
UTF8_TEXT = z3.Function("utf8_text", BYTES, z3.StringSort())        # the text a file's bytes decode to (abstract)
JSON_PARSE = z3.Function("json_parse", z3.StringSort(), BYTES)      # the value json.loads builds from a text (an opaque token)


def json_loads(E, a, kw, fr, node):
    v = a[0]
    if isinstance(v, SV) and v.ty == TStr:
        E.may_raise("JSONDecodeError", E.fresh("not_json", TBool).t, getattr(node, "lineno", 0), "json.loads of a text that is not JSON")
        return SV(JSON_PARSE(v.t), TBytes)
    raise Unsupported("json.loads of %r" % (v,))


class PathV:
    def __init__(self, parts):
        self.parts = list(parts)

    def term(self):
        ts = []
        for i, p in enumerate(self.parts):
            if i:
                ts.append(z3.StringVal("/"))
            ts.append(z3.StringVal(p) if isinstance(p, str) else p.t)
        return ts[0] if len(ts) == 1 else z3.Concat(*ts)

    def parent(self):
        return PathV(self.parts[:-1]) if len(self.parts) > 1 else None

    def __repr__(self):
        return "PathV(%s)" % "/".join(p if isinstance(p, str) else str(p.t) for p in self.parts)


def install():
    files.install()
    ghost_var("dirs", TDict(TStr, TInt))
    CONSTS["home_dir"] = SV(HOME, TStr)


def _norm(E, x):
    if isinstance(x, PathV):
        return list(x.parts)
    if isinstance(x, str):
        s = x.rstrip("/") or "/"
        return [s]
    if isinstance(x, SV) and x.ty == TStr:
        return [x]
    raise Unsupported("path component %r" % (x,))


def make_path(E, a, kw, fr, node):
    parts = []
    for x in a:
        parts += _norm(E, x)
    if not parts:
        parts = ["."]
    return PathV(parts)


def home(E, a, kw, fr, node):
    return PathV([SV(HOME, TStr)])


def _dirs(E):
    if "dirs" not in E.ghostv:
        raise Unsupported("path operation in a check whose contracts did not install the directory model")
    return E.ghostv["dirs"]


_OD = None


def is_dir(E, t):
    d = _dirs(E)
    so = sort(TOpt(d.ty.val))
    return z3.Not(so.is_none(z3.Select(d.t, t)))


def put_dir(E, t):
    d = _dirs(E)
    so = sort(TOpt(d.ty.val))
    E.ghostv["dirs"] = SV(z3.Store(d.t, t, so.some(z3.IntVal(1))), d.ty)


def parent_check(E, p, line, what):
    """creating an entry needs its parent directory"""
    if "dirs" in E.ghostv and isinstance(p, PathV) and p.parent() is not None:
        E.may_raise("FileNotFoundError", z3.Not(is_dir(E, p.parent().term())), line, "%s below a missing directory" % what)


def path_attr(E, p, attr):
    if attr == "parent" and p.parent() is not None:
        return p.parent()
    if attr == "name":
        last = p.parts[-1]
        if isinstance(last, str) and "/" not in last:
            return last
        if isinstance(last, SV):
            return last
    return None


def path_method(E, p, name, args, kwargs, fr, node):
    files._need(E)
    line = getattr(node, "lineno", 0)
    t = p.term()
    if name == "joinpath":
        return make_path(E, [p] + list(args), {}, fr, node)
    if name == "exists":
        return SV(z3.Or(files.fs_has(E, t), is_dir(E, t)), TBool)
    if name == "is_dir":
        return SV(is_dir(E, t), TBool)
    if name == "is_file":
        return SV(files.fs_has(E, t), TBool)
    if name == "mkdir":
        parents = kwargs.get("parents", False)
        exist_ok = kwargs.get("exist_ok", False)
        if not isinstance(parents, bool) or not isinstance(exist_ok, bool):
            raise Unsupported("mkdir with symbolic flags")
        if exist_ok:
            E.may_raise("FileExistsError", files.fs_has(E, t), line, "mkdir(exist_ok=True) where a file of that name exists")
            if E.fork(is_dir(E, t)):
                return None
        else:
            E.may_raise("FileExistsError", z3.Or(files.fs_has(E, t), is_dir(E, t)), line, "mkdir of an existing path")
        if parents:
            q = p.parent()
            while q is not None:
                E.may_raise("FileExistsError", files.fs_has(E, q.term()), line, "mkdir(parents=True) through a file")
                put_dir(E, q.term())
                q = q.parent()
        else:
            parent_check(E, p, line, "mkdir")
        put_dir(E, t)
        return None
    if name == "read_bytes":
        E.may_raise("FileNotFoundError", z3.Not(files.fs_has(E, t)), line, "read_bytes of a missing file")
        return SV(files.fs_data(E, t), TBytes)
    if name == "read_text":
        E.may_raise("FileNotFoundError", z3.Not(files.fs_has(E, t)), line, "read_text of a missing file")
        E.may_raise("UnicodeDecodeError", E.fresh("undecodable", TBool).t, line, "read_text of bytes that are not text")
        return SV(UTF8_TEXT(files.fs_data(E, t)), TStr)
    if name == "unlink":
        missing_ok = kwargs.get("missing_ok", args[0] if args else False)
        if not isinstance(missing_ok, bool):
            raise Unsupported("unlink with a symbolic flag")
        if missing_ok:
            if E.fork(z3.Not(files.fs_has(E, t))):
                return None
        else:
            E.may_raise("FileNotFoundError", z3.Not(files.fs_has(E, t)), line, "unlink of a missing file")
        files.fs_del(E, t)
        return None
    raise Unsupported("pathlib.Path.%s" % name)


def os_replace(E, a, kw, fr, node):
    """os.replace(src, dst): atomic; dst is replaced if it exists"""
    files._need(E)
    line = getattr(node, "lineno", 0)
    s = E.to_sv(a[0], TStr).t
    d = E.to_sv(a[1], TStr).t
    E.may_raise("FileNotFoundError", z3.Not(files.fs_has(E, s)), line, "os.replace of a missing file")
    parent_check(E, a[1], line, "os.replace")
    data = files.fs_data(E, s)
    files.fs_put(E, d, data)
    if not z3.eq(s, d) and E.fork(s != d):
        files.fs_del(E, s)
    return None
