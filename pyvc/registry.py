"""Registry of spec functions, lemmas, class declarations and contracts (filled by /verif/contracts/*.py)."""
import z3
from .ty import *


class SpecFn:
    def __init__(self, name, arg_tys, ret_ty, define=None, py=None, doc="", opaque=False, macro=False):
        self.macro = macro     # non-recursive definition: also given to the solver as a quantified equation
        self.opaque = opaque   # definition is unfolded only in VCs of contracts that `reveal` it
        self.name, self.arg_tys, self.ret_ty = name, list(arg_tys), ret_ty
        self.decl = z3.Function(name, *[sort(t) for t in arg_tys], sort(ret_ty))
        self.define = define  # callable(*z3 terms) -> z3 term ; may mention self.decl (recursion)
        self.py = py          # concrete implementation (used by replay / runtime checking)
        self.doc = doc

    def __call__(self, *args):
        return self.decl(*args)


class Lemma:
    """A universally quantified fact  forall vars. body  (with E-matching patterns).

    It is given to the solver as an axiom in VCs that ask for it (`lemmas=[...]` of a contract, or
    `auto=True`), and is itself an obligation, never an axiom: `obligations()` yields its proof VCs --
    directly, or by induction (`induct=("int", n)`: on an integer variable, hypothesis for all smaller
    non-negative values with all other variables generalised; `induct=("len", xs)`: on the length of a
    sequence variable).  `uses` names other (already proved) lemmas available in the proof.
    `lean` names a theorem of /verif/lemmas/*.lean that proves the same statement (checked by `lean`)."""

    def __init__(self, name, vars, body, patterns=None, induct=None, uses=(), auto=False, lean=None, depth=None,
                 cases=None, inst=(), use_inst=(), unfold_only=None, no_auto=False, ground_only=(), inline_defs=()):
        self.inline_defs = list(inline_defs)   # non-recursive spec functions expanded in place in this lemma's proof
        self.ground_only = set(ground_only)   # used lemmas that enter the proof only through the stated ground instances
        self.unfold_only = unfold_only   # whitelist of spec functions whose definitions the proof unfolds
        self.no_auto = no_auto           # the proof sees only the lemmas named in `uses`
        self.use_inst = list(use_inst)  # [(lemma name, [terms for its vars])]: ground instances of used lemmas
        self.inst = list(inst)   # explicit instances of the induction hypothesis: lists of terms for `vars`
        self.name, self.vars, self.body, self.patterns = name, list(vars), body, patterns
        self.induct, self.uses, self.auto, self.lean, self.depth = induct, list(uses), auto, lean, depth
        self.cases = cases
        self.assumed = False
        self.note = ""
        if self.vars:
            self.formula = z3.ForAll(self.vars, body, patterns=patterns or [])
        else:
            self.formula = body

    def obligations(self):
        """[(name, assumptions, goal)]"""
        hyps = []
        if self.induct is not None:
            kind, mv = self.induct
            primed = [z3.Const(str(v) + "_p", v.sort()) for v in self.vars]
            sub = list(zip(self.vars, primed))
            bodyp = z3.substitute(self.body, *sub)
            mvp = z3.substitute(mv, *sub)
            if kind == "int":
                guard = z3.And(mvp < mv, mvp >= 0) if False else (mvp < mv)
                # well-founded on  max(mv, lower) : the lemma must hold trivially below `lower` (default 0)
                guard = z3.And(mvp < mv, mv > 0)
            else:
                guard = z3.Length(mvp) < z3.Length(mv)
            pats = None
            if self.patterns:
                pats = [z3.substitute(p, *sub) if not isinstance(p, z3.PatternRef) else p for p in self.patterns]
                if any(isinstance(p, z3.PatternRef) for p in pats):
                    pats = None
            if not self.inst:
                hyps.append(z3.ForAll(primed, z3.Implies(guard, bodyp), patterns=pats or []))
            for terms in self.inst:
                sub2 = list(zip(primed, terms))
                hyps.append(z3.substitute(z3.Implies(guard, bodyp), *sub2))
        def ground(pairs):
            out = []
            for (ln, terms) in pairs:
                assert ln in self.uses, "use_inst of a lemma that is not in uses"
                L = LEMMAS[ln]
                out.append(z3.substitute(L.body, *list(zip(L.vars, terms))))
            return out
        hyps += ground(self.use_inst)
        if self.cases:
            # a case is a condition, or (condition, [ground lemma instances used in that case only])
            conds = [c[0] if isinstance(c, tuple) else c for c in self.cases]
            extra = [ground(c[1]) if isinstance(c, tuple) else [] for c in self.cases]
            ante = self.body.arg(0) if z3.is_implies(self.body) else z3.BoolVal(True)
            return [("%s/case%d" % (self.name, i), hyps + extra[i] + [c], self.body) for i, c in enumerate(conds)] + \
                   [("%s/cases_exhaustive" % self.name, [ante], z3.Or(*conds))]
        return [(self.name + "/proof", hyps, self.body)]


class ClassDecl:
    def __init__(self, key, fields, invariant=(), bases=(), construct=None, private_prefix=None, gen=None, virtual=None, consts=None):
        self.consts = dict(consts or {})     # fields with a fixed value (stated class invariant)
        self.gen = gen
        self.virtual = dict(virtual or {})   # callable fields given by a handler (stated class invariant on that field)
        self.key = key                  # "path.py:ClassName"
        self.name = key.split(":")[1]
        self.fields = dict(fields)      # name -> Ty
        self.invariant = list(invariant)
        self.bases = list(bases)        # keys of declared base classes (contract lookup order)
        self.construct = construct      # python source building a concrete instance from field values (replay)


class Contract:
    def __init__(self, key, params, returns=None, requires=(), ensures=(), raises=None, loops=None,
                 modifies=(), inline=(), witness=(), ghost=(), trusted=False, pure=False, note="",
                 raise_ensures=None, decreases=None, body=None, unroll=None, assume_valid=True,
                 replay=None, props=(), lemmas=(), locals=None, hints=(), domains=None, gen=None, ghost_scope=None, no_runtime=False, bounded_only=False, depth=None, reveal=(), frame_only=False, param_values=None, modifies_ghost=(), unfold_only=None, becomes=None, lemmas_for=None, crash_invariant=None, only_lemmas=False, budget=1):
        self.budget = budget             # factor on the solver time budget of this function's obligations (heavy quantified contexts)
        self.only_lemmas = only_lemmas   # do not add the `auto` lemmas of every loaded module to this function's obligations
        self.crash_invariant = list(crash_invariant or [])   # must hold after every persistent (ghost disk) effect: the crash points
        self.lemmas_for = dict(lemmas_for or {})   # obligation-kind prefix -> extra lemmas given only to those obligations
        self.becomes = dict(becomes or {})   # typestate: parameter -> class shape (key@state) the object has when the function returns normally
        self.unfold_only = None if unfold_only is None else list(unfold_only)   # whitelist of spec functions whose definitions are instantiated
        self.modifies_ghost = list(modifies_ghost)   # ghost variables the function may change (havoced at call sites)
        self.param_values = dict(param_values or {})   # parameters with a fixed (python-level) value, e.g. cls of a classmethod
        self.reveal = list(reveal)        # opaque spec functions whose definitions these VCs may unfold
        self.frame_only = frame_only      # loops without a stated invariant are cut with the trivial invariant (frame / exception analysis)
        self.depth = depth                # rounds of definitional unfolding for this function's VCs (None: portfolio 1,2,3)
        self.no_runtime = no_runtime      # no run-time cross-check (e.g. constructors whose receiver cannot be pre-built)
        self.bounded_only = bounded_only  # outside the verifier's reach: only the bounded stand-in runs
        self.ghost = dict(ghost or {}) if not isinstance(ghost, (list, tuple)) else {}
        self.ghost_scope = ghost_scope     # for ghost client code: repo module whose names are in scope
        self.domains = dict(domains or {})   # generator hints for the run-time cross-check (param -> generator type)
        self.gen = gen
        self.key = key                    # "path.py:qualname"
        self.params = dict(params)        # ordered name -> Ty
        self.returns = returns
        self.requires = list(requires)
        self.ensures = list(ensures)
        self.raises = dict(raises or {})  # exc class name -> condition expr (str) under which it MAY be raised
        self.raise_ensures = dict(raise_ensures or {})  # exc name -> [exprs] that hold when it is raised
        self.loops = dict(loops or {})    # ordinal -> dict(invariant=[...], ...)
        self.modifies = list(modifies)    # names of object params whose fields may change / cells havoced
        self.inline = set(inline)
        self.witness = list(witness)
        self.trusted = trusted            # contract assumed, body not verified (external / out of reach)
        self.pure = pure
        self.note = note
        self.decreases = decreases
        self.body = body                  # for ghost lemma functions: python source
        self.unroll = dict(unroll or {})  # loop ordinal -> max iterations (complete unrolling with unwinding assertion)
        self.assume_valid = assume_valid
        self.replay = replay
        self.props = list(props)
        self.lemmas = list(lemmas)
        self.hints = list(hints)  # [(lemma name, [spec exprs over the parameters])]: ground lemma instances at entry
        self.locals = dict(locals or {})  # declared types of local variables (needed for empty literals)


GHOSTS = {}     # name -> Ty : global ghost variables (abstract disk, message trace) visible in specifications
EFFECTS = {}    # repo function key -> handler(E, args, kwargs, fr, node): trusted model of a function with ghost effects
SPEC = {}       # name -> SpecFn
LEMMAS = {}     # name -> Lemma
CLASSES = {}    # key -> ClassDecl
CONTRACTS = {}  # key -> Contract
INLINE = set()  # keys of repo functions that are executed in place at call sites
CONSTS = {}     # extra named constants visible in contract expressions


def specfn(name, arg_tys, ret_ty, define=None, py=None, doc="", opaque=False, macro=False):
    f = SpecFn(name, arg_tys, ret_ty, define, py, doc, opaque, macro)
    SPEC[name] = f
    return f


def lemma(name, vars, body, **kw):
    l = Lemma(name, vars, body, **kw)
    LEMMAS[name] = l
    return l


def axiom(name, vars, body, patterns=None, note="", auto=False):
    """An *assumed* fact (ideal primitive / external library behaviour). Never proved; every axiom used by a
    discharged obligation is listed in the evidence under assumptions."""
    l = Lemma(name, vars, body, patterns=patterns, auto=auto)
    l.assumed = True
    l.note = note
    LEMMAS[name] = l
    return l


def klass(key, fields, state=None, **kw):
    """`state` declares a second shape of the same class (typestate, e.g. "closed"): TObj(key + "@" + state)"""
    c = ClassDecl(key, fields, **kw)
    CLASSES[key + ("@" + state if state else "")] = c
    return c


def contract(key, **kw):
    c = Contract(key, **kw)
    CONTRACTS[key] = c
    return c


MONOTONE = set()   # ghost counters that only ever grow (the random tape position): any call may advance them


def ghost_var(name, ty, monotone=False):
    """`monotone`: an integer ghost that is only ever advanced (the position on the random tape): wherever it is
    havoced (a callee lists it under modifies_ghost, a loop body may touch it) the new value is >= the old one."""
    GHOSTS[name] = ty
    if monotone:
        MONOTONE.add(name)


def effect(key, note=""):
    def deco(f):
        f.note = note
        EFFECTS[key] = f
        return f
    return deco


def inline(*keys):
    INLINE.update(keys)
