"""check driver:  python -m pyvc.check <PROPERTY> [--tier quick|thorough] [--replay file]

Exit 0: every obligation generated from /repo's current source was discharged (possibly with
KNOWN-FINDING lines); 1: a violation (VIOLATION line + replay file); 3: the checker itself is broken
(vacuity, canary, cross-check disagreement, missing tool) -- never a verdict about the code.
"""
import sys, os, json, time, importlib, subprocess, tempfile, hashlib, zlib, traceback, argparse, random

VERIF = os.path.dirname(os.path.dirname(os.path.abspath(__file__)))
sys.path.insert(0, VERIF)
import z3
from pyvc import registry, solve, gen
from pyvc.engine import Engine, Unsupported, VC
from pyvc.repo import Repo
from pyvc.rt import enc, dec
from pyvc.ty import *

REPO = os.environ.get("PYVC_REPO", "/repo")
PY = os.path.join(VERIF, ".venv", "bin", "python")

# property -> sidecar modules that hold its contracts
PROP_MODULES = {
    "C17": ["toolkit_bytes"],
    "C18": ["bits"],
}


def log(*a):
    print(*a, file=sys.stderr, flush=True)


def load(prop):
    from contracts import PROPS
    mods = PROPS[prop]["modules"]
    for m in mods:
        importlib.import_module("contracts." + m)
    return mods


def contracts_of(prop):
    return [(k, c) for k, c in registry.CONTRACTS.items() if prop in c.props]


# ---------------------------------------------------------------------------------------------------
def run_rt(mods, items, timeout=600, cwd=None, env_extra=None, custom=(), seed=0, tier="quick"):
    """items: [{key, inputs:[{param: encoded}]}] -> list of result dicts"""
    if not items and not custom:
        return []
    job = {"repo": REPO, "verif": VERIF, "modules": mods, "items": items, "cwd": cwd, "custom": list(custom),
           "seed": seed, "tier": tier}
    with tempfile.NamedTemporaryFile("w", suffix=".json", delete=False, dir=scratch()) as f:
        json.dump(job, f)
        path = f.name
    env = dict(os.environ)
    env["PYTHONDONTWRITEBYTECODE"] = "1"
    env["PYTHONHASHSEED"] = "0"
    env["HOME"] = scratch()
    env.update(env_extra or {})
    try:
        p = subprocess.run([PY, "-m", "pyvc.rt", path], capture_output=True, text=True, timeout=timeout, cwd=VERIF, env=env)
        if p.returncode != 0:
            raise RuntimeError("rt harness failed: " + p.stderr[-2000:])
        return json.loads(p.stdout)
    finally:
        os.unlink(path)


_scratch = [None]


def scratch():
    if _scratch[0] is None:
        base = os.environ.get("VERIF_SCRATCH") or "/var/tmp"
        _scratch[0] = tempfile.mkdtemp(prefix="verif-scratch-", dir=base)
    return _scratch[0]


def cleanup():
    if _scratch[0]:
        import shutil
        shutil.rmtree(_scratch[0], ignore_errors=True)


# ---------------------------------------------------------------------------------------------------
def lemma_vcs(needed=None):
    out = []
    names = list(registry.LEMMAS)
    for i, (name, l) in enumerate(registry.LEMMAS.items()):
        if l.lean or l.assumed:
            continue
        earlier = set(names[:i])
        for u in l.uses:
            if u not in earlier:
                raise RuntimeError("lemma %s uses %s which is not defined earlier" % (name, u))
        uses = (set(l.uses) - l.ground_only) | ({n for n in earlier if registry.LEMMAS[n].auto} if not l.no_auto else set())
        for (nm, hyps, goal) in l.obligations():
            vc = VC("lemma/" + nm, hyps, goal, 0, "lemma:" + name, "lemma", uses)
            vc.depth = l.depth
            vc.unfold_only = l.unfold_only
            vc.inline_defs = l.inline_defs
            out.append(vc)
    return out


def model_inputs(vc, c, E):
    """concretise a z3 model of a failed obligation into arguments of the function (best effort)"""
    if not vc.model:
        return None
    m = vc.model
    args = {}

    def get(name, ty):
        if isinstance(ty, TObj):
            cd = registry.CLASSES[ty.cls]
            from pyvc.rt import ObjSpec
            return ObjSpec(ty.cls, {f: get(name + "." + f, t) for f, t in cd.fields.items()})
        cands = [k for k in m if k.split("!")[0] == name]
        if not cands:
            return default_of(ty)
        cands.sort(key=lambda k: int(k.split("!")[1]) if "!" in k and k.split("!")[1].isdigit() else 0)
        v = m[cands[0]]
        if v is None:
            return default_of(ty)
        return from_model(v, ty)
    for p, ty in c.params.items():
        try:
            args[p] = get(p, ty)
        except Exception:
            return None
    return args


def default_of(ty):
    if ty == TInt:
        return 0
    if ty == TBool:
        return False
    if ty == TBytes:
        return b""
    if isinstance(ty, TList):
        return []
    if isinstance(ty, TDict):
        return {}
    if ty == TStr:
        return ""
    return None


def from_model(v, ty):
    if ty == TBytes:
        return bytes.fromhex(v["bytes"]) if isinstance(v, dict) else b""
    if isinstance(ty, TList):
        return [from_model(x, ty.elem) for x in (v or [])]
    if isinstance(ty, TTuple):
        return tuple(from_model(x, e) for x, e in zip(v["tuple"], ty.elems))
    return v


# ---------------------------------------------------------------------------------------------------
class Report:
    def __init__(self, prop, tier, seed):
        self.prop, self.tier, self.seed = prop, tier, seed
        self.t0 = time.time()
        self.functions = []
        self.vcs = []
        self.lemma_vcs = []
        self.bounded = []
        self.demoted = []
        self.crosscheck = {"samples": 0, "agree": 0, "precondition_false": 0}
        self.vacuity = {}
        self.violations = []
        self.known = []
        self.trusted = set()
        self.dropped = []
        self.broken = []
        self.lean = []


def verify_functions(prop, rep, extra_requires=None, only=None):
    """symbolic execution + VC generation for every function under contract of this property"""
    repo = Repo(REPO)
    all_vcs = []
    for key, c in contracts_of(prop):
        if only and key not in only:
            continue
        if c.trusted or getattr(c, "bounded_only", False):
            continue
        E = Engine(repo)
        saved = list(c.requires)
        if extra_requires and key in extra_requires:
            c.requires = saved + list(extra_requires[key])
        try:
            try:
                seg = None
                if c.body is not None and not key.startswith("ghost:"):
                    try:
                        seg = repo.segment(key)      # a mixin restated as ghost code, now overridden by a real definition
                    except KeyError:
                        seg = None
                if seg is None:
                    seg = repo.segment(key) if c.body is None else dict(path="<ghost client code in the sidecar>", qualname=key, first_line=0, last_line=0, sha256=hashlib.sha256(c.body.encode()).hexdigest())
            except KeyError as ex:
                rep.demoted.append({"function": key, "reason": "definition not found: %s" % ex})
                continue
            t0 = time.time()
            try:
                npaths = E.verify(key)
            except Unsupported as ex:
                rep.demoted.append({"function": key, "reason": "outside the verified subset: %s" % ex})
                continue
            except RecursionError as ex:
                rep.demoted.append({"function": key, "reason": "engine recursion limit"})
                continue
            vcs = [E.vcs[d] for d in E.order]
            for v in vcs:
                v.contract_key = key
            if not vcs:
                rep.broken.append("zero obligations generated for %s" % key)
            seg.update(paths=npaths, obligations=len(vcs), gen_seconds=round(time.time() - t0, 2), contract=key)
            seg["dropped"] = sorted(set(E.dropped))
            if E.auto_inlined:
                seg["auto_inlined"] = sorted(E.auto_inlined)   # repository callees without contract, executed in place
            if not only:
                rep.functions.append(seg)
            rep.trusted |= E.trusted_used
            rep.hinted = getattr(rep, "hinted", set()) | set(E.lemmas_used)
            all_vcs.extend(vcs)
        finally:
            c.requires = saved
    return all_vcs


def budgets(tier):
    if tier == "thorough":
        return dict(timeout_ms=60000, samples=3000)
    return dict(timeout_ms=int(os.environ.get("PYVC_TIMEOUT_MS", "12000")), samples=150)


def main():
    ap = argparse.ArgumentParser()
    ap.add_argument("prop")
    ap.add_argument("--tier", default=os.environ.get("VERIF_TIER", "quick"))
    args = ap.parse_args()
    prop, tier = args.prop, args.tier
    if tier not in ("quick", "thorough"):
        tier = "quick"
    seed = int(os.environ.get("VERIF_SEED", "0") or 0)
    rep = Report(prop, tier, seed)
    code = 3
    try:
        code = run(prop, tier, seed, rep)
    except Exception:
        log(traceback.format_exc())
        rep.broken.append("checker exception: " + traceback.format_exc()[-800:])
        code = 3
    finally:
        try:
            write_evidence(rep, code)
        except Exception:
            log(traceback.format_exc())
        cleanup()
    sys.exit(code)


def run(prop, tier, seed, rep):
    mods = load(prop)
    bud = budgets(tier)
    from contracts import PROPS
    pinfo = PROPS[prop]
    # 1. obligations from the current source
    vcs = verify_functions(prop, rep)
    rep.vcs = vcs
    phase = lambda what: log("[%s %6.1fs] %s" % (prop, time.time() - rep.t0, what)) if os.environ.get("PYVC_PROGRESS") else None
    phase("%d obligations generated" % len(vcs))
    # 2. lemma library obligations (none is an axiom)
    lvcs = lemma_vcs()
    rep.lemma_vcs = lvcs
    # 3. vacuity: preconditions satisfiable, canary
    canaries = vacuity_vcs(prop, rep)
    solve.discharge(vcs + lvcs, timeout_ms=bud["timeout_ms"])
    phase("obligations discharged")
    # canaries are expected NOT to be provable: a hard (process-level) time limit, one unfolding depth -- an in-process z3
    # timeout is soft and a satisfiable quantified query can run for minutes
    solve.discharge(canaries, timeout_ms=min(bud["timeout_ms"], 8000), backends=("z3-new-cli", "cvc5"), want_model=False, depths=(2,))
    for cv in canaries:
        if cv.kind == "canary" and cv.status == "unsat":
            rep.broken.append("canary: `false` is provable in the context of %s (inconsistent assumptions)" % cv.func)
        if cv.kind == "pre_sat" and cv.status == "unsat":
            rep.broken.append("vacuous contract: precondition of %s is unsatisfiable" % cv.func)
    phase("discharge done (%d obligations, %d lemma obligations, %d canaries)" % (len(vcs), len(lvcs), len(canaries)))
    for lv in lvcs:
        if lv.status != "unsat":
            rep.broken.append("lemma obligation %s not discharged (%s)" % (lv.name, lv.status))
    # 4. lean-checked lemmas
    lean_check(rep)
    # 4b. frame contracts decided by the ownership pass (whole call trees, no SMT)
    phase("lean done")
    own_failed = own_frames(prop, pinfo, rep)
    phase("ownership pass done")
    own_failed += prov_contracts(prop, pinfo, rep)
    # 5. CPython cross-check of contracts on sampled inputs (also the bounded stand-in for demoted functions)
    rt_results = crosscheck(prop, mods, rep, seed, bud["samples"])
    phase("cross-check done")
    # 6. verdicts
    failed = [v for v in vcs if v.status != "unsat"]
    if failed:
        # retry once with a larger budget before calling anything a failure
        for v in failed:
            v.status = None
        solve.discharge(failed, timeout_ms=bud["timeout_ms"] * 3)
        failed = [v for v in vcs if v.status != "unsat"]
    code = 0
    findings = load_known(prop)
    by_fn = {}
    for v in failed:
        by_fn.setdefault(v.contract_key, []).append(v)
    rt_viol = {}
    for r in rt_results:
        if r["verdict"] == "violation":
            rt_viol.setdefault(r["key"], []).append(r)
    for key in sorted(set(by_fn) | set(rt_viol)):
        if key.startswith("custom:"):
            w = rt_viol[key][0]
            kf = [f for f in findings if f.get("function") == key and f.get("status", "open") == "open"]
            listed = [f for f in kf if all(any(f["case"] in json.dumps(v.get("input", "")) + v.get("clause", "") for f in kf) for v in rt_viol[key])]
            if kf and listed:
                for f in kf:
                    print("KNOWN-FINDING: property=%s %s" % (prop, f["what"]))
                    rep.known.append(f["what"])
                continue
            path = write_replay(prop, key, key.replace("custom:", "bounded_"), [], w)
            rep.violations.append({"function": key, "obligations": [], "replay": path, "failing_input_found": True})
            print("VIOLATION property=%s replay=%s" % (prop, path))
            code = 1
            continue
        c = registry.CONTRACTS[key]
        fvcs = by_fn.get(key, [])
        witness = None
        # counterexample: z3 model replayed on the real code, else directed search results
        for v in fvcs:
            a = model_inputs(v, c, None) if v.status == "sat" else None
            if a is not None:
                rr = run_rt(mods, [{"key": key, "inputs": [{k: enc(x) for k, x in a.items()}]}])
                if rr and rr[0]["verdict"] == "violation":
                    witness = rr[0]
                    witness["source"] = "solver model of %s" % v.name
                    break
        if witness is None and rt_viol.get(key):
            witness = rt_viol[key][0]
            witness["source"] = "directed search (boundary + seeded random inputs)"
        if witness is None and fvcs:
            more = directed_search(mods, c, seed, 4000 if tier == "quick" else 40000)
            if more:
                witness = more
                witness["source"] = "directed search (boundary + seeded random inputs)"
        # known findings: does excluding the listed case make everything pass?
        kf = [f for f in findings if f.get("function") == key and f.get("status", "open") == "open"]
        if kf and known_covers(prop, key, kf, fvcs, witness, mods, rep, bud):
            for f in kf:
                print("KNOWN-FINDING: property=%s %s" % (prop, f["what"]))
                rep.known.append(f["what"])
            continue
        name = fvcs[0].name if fvcs else "%s/runtime_contract" % key.split(":")[1]
        path = write_replay(prop, key, name, fvcs, witness)
        rep.violations.append({"function": key, "obligations": [v.name for v in fvcs], "replay": path,
                               "failing_input_found": witness is not None})
        if witness is not None:
            print("VIOLATION property=%s replay=%s" % (prop, path))
        else:
            print("VIOLATION property=%s replay=%s no-failing-input-found" % (prop, path))
        code = 1
    for (func, line, what, tops) in own_failed:
        is_prov = what.startswith("the returned object")
        name = ("prov[%s]" if is_prov else "frame[%s:%d]") % ((func.split(":")[1],) if is_prov else (func.split(":")[1], line))
        path = write_replay(prop, func.split("#")[0], name, [], None, note={
            "obligation": name, "statement": what, "line": line, "function": func,
            "contract": ("what %s returns contains only outputs of keyed primitives under secret keys, random bytes and public values" % func)
                        if is_prov else "no object reachable from an argument of %s is mutated" % ", ".join(tops[:4]),
            "verifier_output": "provenance pass: " + what if is_prov else
                               "ownership pass: the mutated object may be borrowed (reachable from an argument)"})
        rep.violations.append({"function": func, "obligations": [name], "replay": path, "failing_input_found": False})
        print("VIOLATION property=%s replay=%s no-failing-input-found" % (prop, path))
        code = 1
    if rep.broken:
        for b in rep.broken:
            log("CHECKER-BROKEN:", b)
        return 3 if code == 0 else code
    # a function under contract that left the verified subset and has no run-time stand-in is undecided, not held
    for d in rep.demoted:
        c = registry.CONTRACTS.get(d["function"])
        if c is not None and (c.no_runtime or c.body is not None):
            covered = bool(pinfo.get("runtime_checks"))
            print("UNDECIDED property=%s function=%s: %s (no obligation could be generated for it on this tree; %s)" % (
                prop, d["function"], d["reason"][:200],
                "the property's bounded stand-in ran and is the only coverage of this function on this run" if covered
                else "nothing else covers it"))
            if code == 0 and not covered:
                code = 2
    return code


def own_frames(prop, pinfo, rep):
    """frame contracts `mutates nothing reachable from its arguments` for the listed entry points"""
    keys = pinfo.get("own_frames") or []
    rep.own = {"entry_points": 0, "obligations": 0, "discharged": 0, "functions_analysed": 0, "seconds": 0.0, "notes": [], "assumed_pure": []}
    if not keys:
        return []
    from pyvc import own
    t0 = time.time()
    failed = {}
    seen, analysed, notes, assumed = {}, set(), set(), set()
    for key in keys:
        try:
            o, bad = own.check_frame(REPO, key)
        except KeyError as ex:
            rep.demoted.append({"function": key, "reason": "definition not found: %s" % ex})
            continue
        rep.own["entry_points"] += 1
        for ob, ok in o.obligations.items():
            seen[ob] = seen.get(ob, True) and ok
            if not ok:
                failed.setdefault(ob, []).append(key)
        analysed |= o.analysed
        notes |= set(o.notes) | {"not a frame obligation: " + x for x in o.exempt}
        assumed |= o.assumed
    rep.own.update(obligations=len(seen), discharged=sum(1 for v in seen.values() if v), functions_analysed=len(analysed),
                   seconds=round(time.time() - t0, 2), notes=sorted(notes)[:40], assumed_pure=sorted(assumed)[:80])
    if rep.own["entry_points"] and not seen:
        rep.broken.append("ownership pass generated zero obligations")
    return [(f, l, w, tops) for (f, l, w), tops in sorted(failed.items())]


def prov_contracts(prop, pinfo, rep):
    """provenance contracts: what a function returns contains no bytes derived from plaintext / key material except through
    a keyed primitive under a secret key (decided by the labelled variant of the ownership pass)"""
    items = pinfo.get("prov_contracts") or []
    if not items:
        return []
    from pyvc import own
    t0 = time.time()
    out, n_ok = [], 0
    for key, roles, allow in items:
        try:
            o, found, bad = own.check_prov(REPO, key, roles, allow=tuple(("L", a) for a in allow))
        except KeyError as ex:
            rep.demoted.append({"function": key, "reason": "definition not found: %s" % ex})
            continue
        if bad:
            node = Repo(REPO).find(key)[0]
            out.append((key, node.lineno, "the returned object may contain bytes derived from: %s (labels found: %s)" % (
                ", ".join(sorted(x[1] for x in bad)), ", ".join(sorted(x[1] for x in found))), [key]))
        else:
            n_ok += 1
    rep.own["prov_obligations"] = len(items)
    rep.own["prov_discharged"] = n_ok
    rep.own["obligations"] += len(items)
    rep.own["discharged"] += n_ok
    rep.own["seconds"] = round(rep.own.get("seconds", 0) + time.time() - t0, 2)
    return out


def vacuity_vcs(prop, rep):
    """per function: `false` must not follow from the precondition + lemmas (canary)."""
    out = []
    repo = Repo(REPO)
    for key, c in contracts_of(prop):
        if c.trusted or getattr(c, "bounded_only", False):
            continue
        E = Engine(repo)
        E._reset_path([])
        E.pending = []
        from pyvc.engine import Frame
        if c.body is not None:
            continue
        try:
            node, mod, clsnode = repo.find(key)
        except KeyError:
            continue
        fr = Frame(key, mod, clsnode, c, {})
        E.frames = [fr]
        try:
            E.uses |= set(c.lemmas)
            E._params_init(c, fr)
            for r in c.requires:
                E.assume(E.spec_bool(r, fr.env))
            E.entry_env = dict(fr.env)
            E.old_stack.append((dict(fr.env), dict(E.heap), dict(E.ghostv)))
            for (ln, exprs) in c.hints:
                E.add_hint(ln, exprs, fr.env)
        except Exception as ex:
            continue
        vc = VC("%s/canary" % key.split(":")[1], E.pc, z3.BoolVal(False), 0, key, "canary", E.uses)
        vc.contract_key = key
        out.append(vc)
    return out


def crosscheck(prop, mods, rep, seed, n):
    items = []
    for key, c in contracts_of(prop):
        if c.trusted and not getattr(c, "runtime_check", False):
            continue
        if getattr(c, "no_runtime", False) or c.body is not None:
            continue
        # a function that left the verified subset on this tree has no obligations: its run-time contract check is all there
        # is, so it gets twenty times the samples (a defect that shows on one input in a few hundred must not slip through)
        demoted = any(d["function"] == key for d in rep.demoted)
        ins = gen.inputs_for(c, seed, min(n * 20, 6000) if demoted else n)
        items.append({"key": key, "inputs": [{k: enc(v) for k, v in a.items()} for a in ins]})
    from contracts import PROPS
    custom = PROPS[prop].get("runtime_checks", [])
    try:
        res = run_rt(mods, items, timeout=2400, custom=custom, seed=seed, tier=rep.tier)
    except Exception as ex:
        rep.broken.append("cross-check harness failed: %s" % str(ex)[-500:])
        return []
    per = {}
    for r in res:
        rep.crosscheck["samples"] += 1
        if r["verdict"] == "ok":
            rep.crosscheck["agree"] += 1
            per[r["key"]] = per.get(r["key"], 0) + 1
        elif r["verdict"] in ("precondition_false", "precondition_error"):
            rep.crosscheck["precondition_false"] += 1
        elif r["verdict"] == "custom_ok":
            rep.bounded.append({"check": r["key"], "cases": r["cases"], "bound": r["bound"], "violations": r["nviol"]})
        elif r["verdict"] == "harness_error":
            rep.crosscheck.setdefault("harness_errors", []).append({"key": r["key"], "error": r.get("error", "")[-300:]})
    rep.crosscheck["executed_per_function"] = per
    for key, c in contracts_of(prop):
        if per.get(key, 0) == 0 and not c.trusted and not getattr(c, "no_runtime", False) and c.body is None:
            rep.crosscheck.setdefault("never_executed", []).append(key)
    return res


def directed_search(mods, c, seed, n):
    ins = gen.inputs_for(c, seed + 1, n)
    res = run_rt(mods, [{"key": c.key, "inputs": [{k: enc(v) for k, v in a.items()} for a in ins]}], timeout=1200)
    for r in res:
        if r["verdict"] == "violation":
            return r
    return None


def load_known(prop):
    p = os.path.join(VERIF, "known_findings.json")
    if not os.path.exists(p):
        return []
    return [f for f in json.load(open(p)).get("findings", []) if f.get("property") == prop]


def known_covers(prop, key, kf, fvcs, witness, mods, rep, bud):
    """A listed finding covers the failure iff, with the listed case excluded from the function's domain,
    every obligation of the function is discharged again and no runtime violation remains."""
    excl = ["not (%s)" % f["case"] for f in kf]
    vcs = verify_functions(prop, rep, extra_requires={key: excl}, only=[key])
    solve.discharge(vcs, timeout_ms=bud["timeout_ms"] * 2)
    if any(v.status != "unsat" for v in vcs):
        return False
    if witness is not None:
        c = registry.CONTRACTS[key]
        saved = list(c.requires)
        # the witness must fall inside the listed case
        res = run_rt(mods, [{"key": key, "inputs": [witness["input"]]}], env_extra={"PYVC_EXTRA_REQUIRES": json.dumps({key: excl})})
        if res and res[0]["verdict"] == "violation":
            return False
    rep.vcs_excluding_known = getattr(rep, "vcs_excluding_known", 0) + len(vcs)
    return True


def write_replay(prop, key, name, fvcs, witness, note=None):
    d = os.path.join(os.environ.get("PYVC_REPLAY_DIR") or os.path.join(VERIF, "replays"), prop)
    os.makedirs(d, exist_ok=True)
    fn = name.replace("/", "_").replace("[", "_").replace("]", "").replace(":", "_").replace(" ", "")
    path = os.path.join(d, fn + ".json")
    repo = Repo(REPO)
    try:
        seg = repo.segment(key)
    except Exception:
        seg = {}
    data = {
        "property": prop, "function": key, "source": seg,
        "failed_obligations": [{"name": v.name, "line": v.line, "kind": v.kind, "what": v.detail,
                                "solver": v.tried, "status": v.status} for v in fvcs],
        "witness": witness,
        "modules": registry_modules(prop),
    }
    if witness is None:
        data["note"] = "no failing input found: the obligation is no longer provable from the current source; " \
                       "solver output attached"
    if note:
        data["failed_obligations"].append(note)
    json.dump(data, open(path, "w"), indent=1, default=str)
    return os.path.relpath(path, VERIF)


def registry_modules(prop):
    from contracts import PROPS
    return PROPS[prop]["modules"]


def lean_check(rep):
    need = [l for l in registry.LEMMAS.values() if l.lean]
    if not need:
        return
    f = os.path.join(VERIF, "lemmas", "L1.lean")
    t0 = time.time()
    try:
        p = subprocess.run(["lean", f], capture_output=True, text=True, timeout=900)
        ok = p.returncode == 0 and "error" not in p.stdout and "sorry" not in p.stdout
    except Exception as ex:
        ok, p = False, None
    src = open(f).read() if os.path.exists(f) else ""
    for l in need:
        present = ("theorem %s " % l.lean) in src or ("theorem %s\n" % l.lean) in src
        rep.lean.append({"lemma": l.name, "theorem": l.lean, "checked": bool(ok and present)})
        if not (ok and present):
            rep.broken.append("Lean did not accept theorem %s for lemma %s: %s" % (
                l.lean, l.name, (p.stdout + p.stderr)[-400:] if p else "lean not runnable"))
    rep.lean_seconds = round(time.time() - t0, 1)


def axioms_used(vcs, hinted=()):
    """every assumed (never proved) fact that was available to at least one obligation of this run"""
    names = set(hinted)
    for v in vcs:
        names |= set(getattr(v, "uses", ()) or ())
    out = []
    for n in sorted(names):
        l = registry.LEMMAS.get(n)
        if l is not None and l.assumed:
            out.append("axiom %s: %s" % (n, (l.note or str(l.formula))[:300]))
    return out


def write_evidence(rep, code):
    from contracts import PROPS
    pinfo = PROPS.get(rep.prop, {})
    allv = rep.vcs + rep.lemma_vcs
    discharged = [v for v in allv if v.status == "unsat"]
    by = {}
    secs = {}
    for v in allv:
        b = v.backend or "none"
        by[b] = by.get(b, 0) + 1
        secs[b] = round(secs.get(b, 0) + (v.seconds or 0), 2)
    for l in rep.lean:
        if l["checked"]:
            by["lean"] = by.get("lean", 0) + 1
    own = getattr(rep, "own", None) or {}
    if own.get("obligations"):
        by["ownership-pass"] = own["obligations"]
        secs["ownership-pass"] = own.get("seconds", 0)
    n_obl = len(allv) + len(rep.lean) + own.get("obligations", 0)
    n_dis = len(discharged) + sum(1 for l in rep.lean if l["checked"]) + own.get("discharged", 0)
    samples = []
    for v in (rep.vcs[:2] + rep.lemma_vcs[:1]):
        samples.append({"obligation": v.name, "function": v.func, "line": v.line, "what": v.detail,
                        "goal": v.goal.sexpr()[:300], "assumptions": len(v.assumptions), "status": v.status,
                        "backend": v.backend})
    level = "proof"
    expl = None
    if pinfo.get("partial"):
        level = "other"
        expl = "contract-based deductive verification for part of the property's scope, bounded stand-in for the rest: " + pinfo["partial"]
    if rep.demoted:
        level = "other"
        expl = (expl + " | " if expl else "") + "some functions were outside the verified subset on this run and were only checked by the bounded " \
               "stand-in (run-time contract checking on generated inputs): %s" % rep.demoted
    trusted = sorted(rep.trusted) + ["engine: pyvc translator + definitional instantiation", "SMT back ends z3 5.1 / cvc5 1.0.3"]
    ev = {
        "property_id": rep.prop, "tier": rep.tier, "seed": rep.seed, "level": level,
        "coverage": {
            "obligations": n_obl, "discharged": n_dis,
            "checker_cmd": "./bin/check %s --tier %s" % (rep.prop, rep.tier),
            "trusted_base": trusted,
            "samples": samples or [{"note": "no obligations generated"}],
            "functions_under_contract": rep.functions,
            "by_backend": by, "solver_seconds": secs,
            "lemma_obligations": len(rep.lemma_vcs), "lean_checked": rep.lean,
            "ownership_pass": own,
            "vacuity": {"canaries": sum(1 for _ in rep.functions), "broken": rep.broken},
            "crosscheck": rep.crosscheck,
            "bounded": rep.bounded + pinfo.get("bounded", []),
            "demoted": rep.demoted,
            "known_findings": rep.known,
            "violations": rep.violations,
            "evaluations": rep.crosscheck.get("samples", 0) + sum(b.get("cases", 0) for b in rep.bounded),
            "distinct_nontrivial": rep.crosscheck.get("agree", 0) + sum(b.get("cases", 0) for b in rep.bounded),
            "rule": "evaluations = concrete executions of the real functions under run-time contract checking "
                    "(cross-check inputs + operations / searches executed by the bounded stand-ins, generated from the seeded PRNG "
                    "over boundary grids); distinct_nontrivial = those that satisfied the precondition and were executed "
                    "(bounded-stand-in cases are distinct by construction of the grid or drawn from a seeded PRNG; duplicates are "
                    "not filtered); where obligations exist the deciding step is `obligations == discharged`",
            "exhaustive": False,
        },
        "assumptions": pinfo.get("assumptions", []) + ["trusted: " + t for t in sorted(rep.trusted)] + axioms_used(allv, getattr(rep, "hinted", ())),
        "wall_s": round(time.time() - rep.t0, 2),
        "violations": len(rep.violations),
        "exit_code": code,
    }
    if expl:
        ev["coverage"]["explanation"] = expl
    evdir = os.environ.get("PYVC_EVIDENCE_DIR") or os.path.join(VERIF, "evidence")
    os.makedirs(evdir, exist_ok=True)
    json.dump(ev, open(os.path.join(evdir, rep.prop + ".json"), "w"), indent=1, default=str)


if __name__ == "__main__":
    main()
