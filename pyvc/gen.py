"""Concrete input generation by engine type (boundary values first, then seeded random)."""
import random, zlib
from .ty import *
from .rt import ObjSpec

INT_BOUNDARY = [0, 1, 2, 3, 4, 5, 7, 8, 9, 15, 16, 17, 31, 32, 33, 63, 64, 65, 127, 128, 255, 256, 257, -1,
                2 ** 16 - 1, 2 ** 16, 2 ** 31 - 1, 2 ** 32, 2 ** 48 - 1, 2 ** 48, 2 ** 53 + 1, 2 ** 64 - 1, 2 ** 64]
LEN_BOUNDARY = [0, 1, 2, 3, 4, 5, 7, 8, 9, 15, 16, 17, 20, 32, 33]


def gen_value(ty, rnd, depth=0):
    from .registry import CLASSES
    if ty == TInt:
        r = rnd.random()
        if r < 0.55:
            return rnd.randrange(0, 12)
        if r < 0.9:
            return rnd.choice(INT_BOUNDARY)
        return rnd.randrange(0, 2 ** rnd.choice([8, 16, 40, 70]))
    if ty == TBool:
        return rnd.random() < 0.5
    if ty == TBytes:
        n = rnd.choice(LEN_BOUNDARY) if rnd.random() < 0.7 else rnd.randrange(0, 48)
        r = rnd.random()
        if r < 0.15:
            return bytes(n)
        b = bytearray(rnd.getrandbits(8) for _ in range(n))
        if r < 0.3 and n:
            b[0] = 0
        if r > 0.9 and n:
            b[-1] = 0
        return bytes(b)
    if ty == TStr:
        return rnd.choice(["", "a", "sha1", "sha256", "md5", "SHA1", "abc", "utf8", "hex"])
    if isinstance(ty, TList):
        n = rnd.choice([0, 1, 2, 3, 4, 5, 8]) if depth == 0 else rnd.choice([0, 1, 2, 3])
        if ty.elem == TBytes and rnd.random() < 0.6:
            sz = rnd.choice([1, 2, 3, 4, 8])
            return [bytes(rnd.getrandbits(8) | (1 if rnd.random() < 0.7 else 0) for _ in range(sz)) for _ in range(n)]
        return [gen_value(ty.elem, rnd, depth + 1) for _ in range(n)]
    if isinstance(ty, TTuple):
        return tuple(gen_value(e, rnd, depth + 1) for e in ty.elems)
    if isinstance(ty, TOpt):
        return None if rnd.random() < 0.3 else gen_value(ty.elem, rnd, depth + 1)
    if isinstance(ty, TDict):
        n = rnd.choice([0, 1, 2, 3, 4])
        return {gen_key(ty.key, rnd, i): gen_value(ty.val, rnd, depth + 1) for i in range(n)}
    if isinstance(ty, TSmallInt):
        return rnd.choice([0, 1, 2, 3, 4, 5, 7, 8, 9, 15, 16, 17, 31, 32, 33, 63, 64, 65, 100, 159, 160, 161, 255, 256, 300, -1])
    if isinstance(ty, TPyDict):
        return {k: (gen_value(t, rnd, depth + 1) if isinstance(t, Ty) else t) for k, t in ty.fields.items()}
    if isinstance(ty, TObj):
        cd = CLASSES[ty.cls]
        g = getattr(cd, "gen", None)
        if g is not None:
            return ObjSpec(ty.cls, g(rnd))
        return ObjSpec(ty.cls, {f: gen_value(t, rnd, depth + 1) for f, t in cd.fields.items()})
    if ty == TSlice:
        pick = lambda: rnd.choice([None, 0, 1, 2, 3, 5, -1, -2, -7, 9])
        return slice(pick(), pick(), rnd.choice([None, 1, 2, -1, 3]))
    raise TypeError("no generator for %r" % (ty,))


class TSmallInt:
    """generator-only marker: an int used as a size / count / shift amount"""


def gen_key(ty, rnd, i):
    v = gen_value(ty, rnd, 1)
    if ty == TBytes and not v:
        return bytes([65 + i])
    return v


def inputs_for(c, seed, n):
    """witnesses first, then n generated candidates (not yet filtered by the precondition)"""
    out = [dict(w) for w in c.witness]
    rnd = random.Random(seed * 7919 + zlib.crc32(c.key.encode()) % 100003)
    g = getattr(c, "gen", None)
    for _ in range(n):
        try:
            if g is not None:
                out.append(g(rnd))
            else:
                dom = getattr(c, "domains", {})
                out.append({p: gen_value(dom.get(p, t), rnd) for p, t in c.params.items()})
        except TypeError:
            break
    return out
