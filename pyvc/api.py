"""Names available to sidecar contract files."""
import z3
from .ty import *
from .registry import *
from .speclib import *
from . import speclib
from .externals import external, EXT
from .engine import Unsupported, PyRaise, Ref, Opaque, z3_int
from .rt import ObjSpec


def obj(cls, **fields):
    """concrete object description for witnesses / replays"""
    return ObjSpec(cls, fields)
from .gen import TSmallInt
SMALL = TSmallInt()
from .ty import bytes_const
from .registry import ghost_var, effect, GHOSTS, EFFECTS
