"""Base spec functions (mathematical meaning of python builtins) and their lemma library.

Every SpecFn has a recursive z3 definition (unfolded by explicit ground instantiation, see solve.py)
and a concrete python implementation `py` used by replays and by the definition cross-check.
Lemmas are quantified facts; each carries a proof by an induction schema (obligations discharged by the
same back ends, see `lemma_obligations`) -- none is an axiom.
"""
import z3
from .ty import *
from .registry import specfn, lemma, SPEC, LEMMAS

I = z3.IntSort()
n_, m_, x_, y_, w_ = z3.Ints("n m x y w")
b_ = z3.Const("b", BYTES)
c_ = z3.Const("c", BYTES)
EMPTY = z3.Empty(BYTES)
ZERO8 = z3.BitVecVal(0, 8)

# ---- powers of two -------------------------------------------------------------------------------
def _pow2_py(n):
    if n > 1 << 20:
        raise OverflowError("pow2 argument too large for concrete evaluation")
    return 1 if n <= 0 else 2 ** n


pow2 = specfn("pow2", [TInt], TInt, py=_pow2_py,
              doc="2**n for n >= 0 (1 for n <= 0)")
pow2.define = lambda n: z3.If(n <= 0, 1, 2 * pow2(n - 1))

# ---- bit length ---------------------------------------------------------------------------------
bitlen = specfn("bitlen", [TInt], TInt, py=lambda x: max(x, 0).bit_length(), doc="int.bit_length for x >= 0")
bitlen.define = lambda x: z3.If(x <= 0, 0, 1 + bitlen(x / 2))

# ---- uninterpreted bitwise operators on mathematical integers (python semantics on non-negatives) ---
band = specfn("band", [TInt, TInt], TInt, py=lambda a, b: a & b)
bor = specfn("bor", [TInt, TInt], TInt, py=lambda a, b: a | b)
bxor = specfn("bxor", [TInt, TInt], TInt, py=lambda a, b: a ^ b)
# bit-recursive definitions (valid for non-negative operands)
band.define = lambda a, b: z3.If(z3.Or(a <= 0, b <= 0), 0, 2 * band(a / 2, b / 2) + z3.If(z3.And(a % 2 == 1, b % 2 == 1), 1, 0))
bor.define = lambda a, b: z3.If(a <= 0, z3.If(b <= 0, 0, b), z3.If(b <= 0, a, 2 * bor(a / 2, b / 2) + z3.If(z3.Or(a % 2 == 1, b % 2 == 1), 1, 0)))
bxor.define = lambda a, b: z3.If(a <= 0, z3.If(b <= 0, 0, b), z3.If(b <= 0, a, 2 * bxor(a / 2, b / 2) + z3.If((a % 2) != (b % 2), 1, 0)))

# ---- bytes --------------------------------------------------------------------------------------
zeros = specfn("zeros", [TInt], TBytes, py=lambda n: b"\x00" * max(n, 0), doc="n NUL bytes")
zeros.define = lambda n: z3.If(n <= 0, EMPTY, z3.Concat(z3.Unit(ZERO8), zeros(n - 1)))

brepeat = specfn("brepeat", [TBytes, TInt], TBytes, py=lambda b, n: b * max(n, 0))
brepeat.define = lambda b, n: z3.If(n <= 0, EMPTY, z3.Concat(b, brepeat(b, n - 1)))

i2b = specfn("i2b", [TInt, TInt], TBytes, py=lambda x, w: (x % (256 ** max(w, 0))).to_bytes(max(w, 0), "big"),
             doc="low w bytes of x, big endian (int.to_bytes when 0 <= x < 256**w)")
i2b.define = lambda x, w: z3.If(w <= 0, EMPTY, z3.Concat(i2b(x / 256, w - 1), z3.Unit(z3.Int2BV(x % 256, 8))))

b2i = specfn("b2i", [TBytes], TInt, py=lambda b: int.from_bytes(b, "big"), doc="int.from_bytes(b,'big')")
b2i.define = lambda b: z3.If(z3.Length(b) == 0, 0,
                             256 * b2i(z3.Extract(b, 0, z3.Length(b) - 1)) + z3.BV2Int(b[z3.Length(b) - 1]))

bytes_lt = z3.Function("bytes_lt", BYTES, BYTES, z3.BoolSort())   # strict total order (lexicographic), abstract

BL = TList(TBytes)
BLS = sort(BL)
xs_ = z3.Const("xs", BLS)
ys_ = z3.Const("ys", BLS)
# list functions are index-recursive over the *same* sequence (only nth / length, no nested extracts)
joinr = specfn("joinr", [BL, TInt, TInt], TBytes, py=lambda xs, i, j: b"".join(xs[max(i, 0):max(j, 0)]),
               doc="b''.join(xs[i:j]) for 0 <= i <= j <= len(xs)")
joinr.define = lambda xs, i, j: z3.If(j <= i, EMPTY, z3.Concat(joinr(xs, i, j - 1), xs[j - 1]))
join = specfn("join", [BL], TBytes, py=lambda xs: b"".join(xs), doc="b''.join(xs)", macro=True)
join.define = lambda xs: joinr(xs, 0, z3.Length(xs))
all_len_upto = specfn("all_len_upto", [BL, TInt, TInt], TBool, py=lambda xs, n, k: all(len(x) == n for x in xs[:max(k, 0)]),
                      doc="the first k elements have exactly n bytes")
all_len_upto.define = lambda xs, n, k: z3.If(k <= 0, True, z3.And(z3.Length(xs[k - 1]) == n, all_len_upto(xs, n, k - 1)))
all_len = specfn("all_len", [BL, TInt], TBool, py=lambda xs, n: all(len(x) == n for x in xs),
                 doc="every element has exactly n bytes", macro=True)
all_len.define = lambda xs, n: all_len_upto(xs, n, z3.Length(xs))

IL = TList(TInt)
ILS = sort(IL)
is_ = z3.Const("is", ILS)
psum_upto = specfn("psum_upto", [IL, TInt], TInt, py=lambda xs, k: sum(xs[:max(k, 0)]), doc="sum of the first k elements")
psum_upto.define = lambda xs, k: z3.If(k <= 0, 0, psum_upto(xs, k - 1) + xs[k - 1])
isum = specfn("isum", [IL], TInt, py=lambda xs: sum(xs), doc="sum of an int list", macro=True)
isum.define = lambda xs: psum_upto(xs, z3.Length(xs))

sumlen = specfn("sumlen", [BL], TInt, py=lambda xs: sum(len(x) for x in xs))
sumlen.define = lambda xs: z3.If(z3.Length(xs) == 0, 0,
                                 z3.Length(xs[0]) + sumlen(z3.Extract(xs, 1, z3.Length(xs) - 1)))

_lrep = {}


def lrepeat(ety):
    if ety not in _lrep:
        ls = sort(TList(ety))
        f = specfn("lrepeat_" + repr(ety).replace("[", "_").replace("]", ""), [ety, TInt], TList(ety),
                   py=lambda v, n: [v] * max(n, 0))
        f.define = lambda v, n, f=f, ls=ls: z3.If(n <= 0, z3.Empty(ls), z3.Concat(z3.Unit(v), f(v, n - 1)))
        _lrep[ety] = f
    return _lrep[ety]


# ---- dict helpers (Array K (Opt V) + uninterpreted insertion-ordered key sequence) -----------------
def dkeys_fn(ty):
    return z3.Function("dkeys_" + repr(ty).replace("[", "_").replace("]", "").replace(",", "_"),
                       sort(ty), z3.SeqSort(sort(ty.key)))


def dkpos_fn(ty):
    """position of a key in the insertion-ordered key sequence of a dict (meaningful for keys that are present)"""
    return z3.Function("dkpos_" + repr(ty).replace("[", "_").replace("]", "").replace(",", "_"),
                       sort(ty), sort(ty.key), z3.IntSort())


def empty_dict(E, ty):
    s = sort(TOpt(ty.val))
    d = SV(z3.K(sort(ty.key), s.none), ty)
    E.assume(dkeys_fn(ty)(d.t) == z3.Empty(z3.SeqSort(sort(ty.key))))
    return d


def dict_store(E, d, k, v):
    ty = d.ty
    s = sort(TOpt(ty.val))
    kt = E.to_sv(k, ty.key).t
    vt = E.to_sv(v, ty.val).t
    new = SV(z3.Store(d.t, kt, s.some(vt)), ty)
    dk = dkeys_fn(ty)
    E.assume(dk(new.t) == z3.If(s.is_none(z3.Select(d.t, kt)), z3.Concat(dk(d.t), z3.Unit(kt)), dk(d.t)))
    return new


def dict_delete(E, d, k):
    ty = d.ty
    s = sort(TOpt(ty.val))
    new = SV(z3.Store(d.t, k.t, s.none), ty)
    dk = dkeys_fn(ty)
    # the key sequence loses exactly k: stated through length + membership (order of the rest kept)
    pos = E.fresh("delpos", TInt)
    old = dk(d.t)
    E.assume(z3.And(pos.t >= 0, pos.t < z3.Length(old), old[pos.t] == k.t,
                    dk(new.t) == z3.Concat(z3.Extract(old, 0, pos.t),
                                           z3.Extract(old, pos.t + 1, z3.Length(old) - pos.t - 1))))
    return new


# ---- lemma library --------------------------------------------------------------------------------
Imp, And, Or, Not = z3.Implies, z3.And, z3.Or, z3.Not
MP = z3.MultiPattern
Len = z3.Length

# nonlinear integer arithmetic: the two facts everything else is instantiated from
a_, c_, q_, r_, t_, p_ = z3.Ints("a_ c_ q_ r_ t_ p_")
lemma("mul_mono", [a_, x_, c_], Imp(And(a_ <= x_, c_ >= 0), a_ * c_ <= x_ * c_), patterns=None)
lemma("mul_mono_strict", [a_, x_, c_], Imp(And(a_ < x_, c_ > 0), a_ * c_ < x_ * c_), patterns=None)
lemma("mul_nonzero", [a_, x_], Imp(And(a_ != 0, x_ != 0), a_ * x_ != 0), patterns=None)
lemma("div_mod_unique", [t_, p_, q_, r_], Imp(And(p_ > 0, t_ == q_ * p_ + r_, 0 <= r_, r_ < p_),
                                              And(t_ / p_ == q_, t_ % p_ == r_)), patterns=None)
lemma("div_bounds", [a_, c_], Imp(c_ > 0, And((a_ / c_) * c_ <= a_, a_ < (a_ / c_) * c_ + c_)), patterns=None)
lemma("div_lower", [a_, q_, c_], Imp(And(c_ > 0, a_ >= q_ * c_), a_ / c_ >= q_), patterns=None)
# pow2
lemma("pow2_pos", [n_], pow2(n_) >= 1, patterns=[pow2(n_)], induct=("int", n_), auto=True)
lemma("pow2_step", [n_], Imp(n_ >= 0, pow2(n_ + 1) == 2 * pow2(n_)), patterns=[pow2(n_ + 1)])
lemma("pow2_mono", [n_, m_], Imp(And(0 <= n_, n_ <= m_), pow2(n_) <= pow2(m_)),
      patterns=[MP(pow2(n_), pow2(m_))], induct=("int", m_))
lemma("pow2_strict", [n_, m_], Imp(And(0 <= n_, n_ < m_), 2 * pow2(n_) <= pow2(m_)),
      patterns=[MP(pow2(n_), pow2(m_))], induct=("int", m_))
lemma("pow2_add", [n_, m_], Imp(And(n_ >= 0, m_ >= 0), pow2(n_ + m_) == pow2(n_) * pow2(m_)),
      patterns=[pow2(n_ + m_)], induct=("int", m_), inst=[[n_, m_ - 1]])
# zeros
lemma("zeros_len", [n_], Len(zeros(n_)) == z3.If(n_ <= 0, 0, n_), patterns=[zeros(n_)], induct=("int", n_), auto=True)
lemma("zeros_add", [n_, m_], Imp(And(n_ >= 0, m_ >= 0), zeros(n_ + m_) == z3.Concat(zeros(n_), zeros(m_))),
      patterns=[MP(zeros(n_), zeros(m_))], induct=("int", n_), inst=[[n_ - 1, m_]])
# i2b / b2i
lemma("i2b_len", [x_, w_], Len(i2b(x_, w_)) == z3.If(w_ <= 0, 0, w_), patterns=[i2b(x_, w_)], induct=("int", w_),
      auto=True)
lemma("brepeat_len", [b_, n_], Len(brepeat(b_, n_)) == z3.If(n_ <= 0, 0, n_ * Len(b_)), patterns=[brepeat(b_, n_)],
      induct=("int", n_), auto=True)
lemma("b2i_nonneg", [b_], b2i(b_) >= 0, patterns=[b2i(b_)], induct=("len", b_), auto=True)
lemma("bitlen_nonneg", [x_], bitlen(x_) >= 0, patterns=[bitlen(x_)], induct=("int", x_), auto=True)

# lists of byte strings
i_, j_, k_ = z3.Ints("i j k")
lemma("all_len_upto_mono", [xs_, n_, k_, j_], Imp(And(all_len_upto(xs_, n_, k_), j_ <= k_), all_len_upto(xs_, n_, j_)),
      patterns=[MP(all_len_upto(xs_, n_, k_), all_len_upto(xs_, n_, j_))], induct=("int", k_), inst=[[xs_, n_, k_ - 1, j_]])
lemma("all_len_upto_frame", [xs_, ys_, n_, k_],
      Imp(k_ <= Len(xs_), all_len_upto(z3.Concat(xs_, ys_), n_, k_) == all_len_upto(xs_, n_, k_)),
      patterns=[all_len_upto(z3.Concat(xs_, ys_), n_, k_)], induct=("int", k_), inst=[[xs_, ys_, n_, k_ - 1]])
lemma("all_len_append", [xs_, b_, n_], all_len(z3.Concat(xs_, z3.Unit(b_)), n_) == And(all_len(xs_, n_), Len(b_) == n_),
      patterns=[all_len(z3.Concat(xs_, z3.Unit(b_)), n_)], uses=["all_len_upto_frame"],
      use_inst=[("all_len_upto_frame", [xs_, z3.Unit(b_), n_, Len(xs_)])])
lemma("all_len_nth", [xs_, n_, k_, i_], Imp(And(all_len_upto(xs_, n_, k_), 0 <= i_, i_ < k_), Len(xs_[i_]) == n_),
      patterns=None, induct=("int", k_), inst=[[xs_, n_, k_ - 1, i_]])
lemma("joinr_len", [xs_, n_, k_, i_, j_],
      Imp(And(all_len_upto(xs_, n_, k_), 0 <= i_, i_ <= j_, j_ <= k_), Len(joinr(xs_, i_, j_)) == n_ * (j_ - i_)),
      patterns=[MP(joinr(xs_, i_, j_), all_len_upto(xs_, n_, k_))], induct=("int", j_),
      inst=[[xs_, n_, k_, i_, j_ - 1]], uses=["all_len_nth"], use_inst=[("all_len_nth", [xs_, n_, k_, j_ - 1])])

# integers <-> bytes
lemma("bitlen_bound", [x_], Imp(x_ >= 0, And(x_ < pow2(bitlen(x_)), Imp(x_ > 0, pow2(bitlen(x_) - 1) <= x_))),
      patterns=[bitlen(x_)], induct=("int", x_), inst=[[x_ / 2]])
lemma("pow2_8", [n_], Imp(n_ >= 0, pow2(n_ + 8) == 256 * pow2(n_)), patterns=[pow2(n_ + 8)], depth=9)
lemma("b2i_snoc", [b_, x_], Imp(And(0 <= x_, x_ < 256),
                                b2i(z3.Concat(b_, z3.Unit(z3.Int2BV(x_, 8)))) == 256 * b2i(b_) + x_),
      patterns=[b2i(z3.Concat(b_, z3.Unit(z3.Int2BV(x_, 8))))])
lemma("b2i_i2b", [x_, w_], Imp(And(0 <= x_, w_ >= 0, x_ < pow2(8 * w_)), b2i(i2b(x_, w_)) == x_),
      patterns=[b2i(i2b(x_, w_))], induct=("int", w_), inst=[[x_ / 256, w_ - 1]], uses=["b2i_snoc", "pow2_8"],
      use_inst=[("b2i_snoc", [i2b(x_ / 256, w_ - 1), x_ % 256]), ("pow2_8", [8 * (w_ - 1)])])

# join of an appended list
lemma("joinr_frame", [xs_, ys_, i_, j_], Imp(And(0 <= i_, j_ <= Len(xs_)), joinr(z3.Concat(xs_, ys_), i_, j_) == joinr(xs_, i_, j_)),
      patterns=[joinr(z3.Concat(xs_, ys_), i_, j_)], induct=("int", j_), inst=[[xs_, ys_, i_, j_ - 1]])
lemma("joinr_snoc", [xs_, b_], join(z3.Concat(xs_, z3.Unit(b_))) == z3.Concat(join(xs_), b_),
      patterns=[join(z3.Concat(xs_, z3.Unit(b_)))], uses=["joinr_frame"],
      use_inst=[("joinr_frame", [xs_, z3.Unit(b_), z3.IntVal(0), Len(xs_)])])
lemma("b2i_bound", [b_], b2i(b_) < pow2(8 * Len(b_)), patterns=[b2i(b_)], induct=("len", b_), uses=["pow2_8"],
      use_inst=[("pow2_8", [8 * (Len(b_) - 1)])])
